"""C17 - OneToOne / ManyToMany stay mutual inverses; FrozenDict immutable, content-hashed.

A case is one whole history on a small register file of instances of ONE of the three types:
    {'t': 'oto'|'m2m'|'fd', 'ops': [...]}          (ops vocabulary: see `line`)
Objects are natural-number ids into OBJ (some ids have ==-equal aliases: 1 / 1.0 / True).
"""
import ast
import copy
import gc
import itertools
import operator
import os
import pickle
from collections import OrderedDict

from bv.common import Property, Failure, time_limit, exc_name, CaseTimeout, REPO

# id -> python object.  id 0 is None (what setdefault(k) stores); strings can be keyword names.
OBJ = [None, 'a', 'b', 1, 'c', (1, 'a'), 0, 2.5, frozenset([1]), 'd']
# ids 10..159: only used by the "big argument" families (sizes past any small-size fast path)
OBJ += [('k%d' % i) if i % 2 == 0 else 100 + i for i in range(10, 160)]
NSMALL = 10
ALIASES = {3: [1, 1.0, True], 6: [0, 0.0, False]}
OBJ_ID = {o: i for i, o in enumerate(OBJ)}
STR_IDS = [i for i, o in enumerate(OBJ) if isinstance(o, str)]
SIDES = ['f', 'i']


def mk(i, salt=0):
    """the python object for id i (an ==-equal alias chosen deterministically by `salt`)"""
    al = ALIASES.get(i)
    if al:
        return al[salt % len(al)]
    return OBJ[i]


def oid(o):
    """id of an object that came out of the implementation ('?…' if it is not one of ours)"""
    try:
        return OBJ_ID[o]
    except Exception:
        return '?%r' % (o,)


def mkpairs(ps, salt=0):
    return [(mk(k, salt + j), mk(v, salt + j + 1)) for j, (k, v) in enumerate(ps)]


# "Which interpreter process are we in": the hash of a str (hash randomisation) or of an identity-hashed
# object is only stable inside one process.  Token simulates that in-process: == by content, hash by
# content AND the current epoch; switching the epoch around an unpickle / deepcopy is "the clone is
# created in another process".  Within one epoch Token obeys the hash contract.
EPOCH = [0]


class Token(object):
    def __init__(self, n):
        self.n = n

    def __eq__(self, other):
        return isinstance(other, Token) and other.n == self.n

    def __ne__(self, other):
        return not self == other

    def __hash__(self):
        return hash(('tok', self.n, EPOCH[0]))

    def __repr__(self):
        return 'Token(%d)' % self.n


TOKEN_BASE = 100     # a Token n travels to the model as the hashable atom 100+n


def fmk(v, salt=0):
    """FrozenDict value: ['h', id] hashable object, ['u', n] an unhashable container holding n,
    ['t', n] a Token (hashable, process-dependent hash), ['f', [[k, v], ...]] another FrozenDict (one level:
    its values are h / u / t) - hashable iff all ITS values are, equal to any FrozenDict with the same items"""
    if v[0] == 'h':
        return mk(v[1], salt)
    if v[0] == 't':
        return Token(v[1])
    if v[0] == 'f':
        from boltons.dictutils import FrozenDict
        return FrozenDict([(mk(k, salt + j), fmk(x, salt + j + 1)) for j, (k, x) in enumerate(v[1])])
    return [v[1]]


def fval(o):
    if isinstance(o, list) and len(o) == 1 and isinstance(o[0], int):
        return ['u', o[0]]
    if isinstance(o, Token):
        return ['t', o.n]
    if isinstance(o, dict) and type(o).__name__ == 'FrozenDict':
        # canonical: sorted by key id, so that equal inner FrozenDicts read alike whatever their insertion order
        return ['f', sorted(([oid(k), fval(x)] for k, x in o.items()), key=lambda p: str(p[0]))]
    i = oid(o)
    return ['h', i]


def fcanon(inner):
    """the items of an inner FrozenDict as a dict would hold them (a key once, last value), sorted"""
    d = {}
    for k, x in inner:
        d[k] = (x[0], x[1])
    return sorted(d.items(), key=lambda p: str(p[0]))


def funh(v):
    """raw value (list form): is it unhashable?"""
    return v[0] == 'u' or (v[0] == 'f' and any(x[0] == 'u' for _, x in fcanon(v[1])))


def fcode(inner):
    """an inner FrozenDict travels to the model as ONE atom: a number that is a function of its item SET"""
    n = 0
    for k, (kind, num) in fcanon(inner):
        c = num if kind == 'h' else 16 + num if kind == 't' else 19 + num
        n = n * 401 + (int(k) * 25 + c) + 1
    return 100000 + n


def one_shot(pairs):
    return iter(list(pairs))


KEEP_MODES = ('i', 'f', 'ii', 'fi', 'none')
CLONE_KINDS = ('ccopy', 'deepcopy', 'pickle0', 'pickle2', 'pickle5')


class Held(object):
    """What the caller still holds of ONE instance: the variable `x` (the object the constructor returned), the
    variable `inv = x.inv` taken when the instance was created, or only one of them - the other half is then reached
    the only way a caller can, through `.inv` of the one that is held.  `last` = the dump made when the caller let go
    of both (nothing can reach the instance any more: it is shown as it was)."""
    __slots__ = ('f', 'i', 'last')

    def __init__(self, x):
        self.f, self.i, self.last = x, x.inv, None

    def dead(self):
        return self.f is None and self.i is None

    def side(self, s):
        o = self.f if s == 'f' else self.i
        if o is not None:
            return o
        o = self.i if s == 'f' else self.f
        if o is None:
            raise RuntimeError('harness: instance no longer held')
        o = o.inv
        if o is None:
            # what the caller's next statement (`o.add(...)`, `o.items()`) would run into
            raise AttributeError("'NoneType' object: .inv of a held half is None")
        return o

    def keep(self, mode):
        """rebind the caller's variables; the references let go of are gone when this returns"""
        if mode == 'i':
            self.i = self.side('i')
            self.f = None
        elif mode == 'f':
            self.f = self.side('f')
            self.i = None
        elif mode == 'ii':
            z = self.side('f').inv.inv
            if z is None:
                raise AttributeError("'NoneType' object: .inv.inv of a held half is None")
            self.f = z
            self.i = None
        elif mode == 'fi':
            f, i = self.side('f'), self.side('i')
            self.f, self.i = f, i
        elif mode == 'none':
            self.f = self.i = None
        else:
            raise ValueError(mode)


_GC = {'n': 0}


def life_case_begins():
    """A case that lets go of references runs full collections (gc.collect() in `collect_now`).  The checking process
    holds hundreds of thousands of long-lived objects; they are moved out of the collector's sight first (gc.freeze,
    O(1)), so that each of those collections only looks at what the case itself created.  Young garbage is collected
    before the freeze, and every 200 such cases everything is thawed and collected once, so nothing piles up."""
    if _GC['n'] % 200 == 0:
        gc.unfreeze()
        gc.collect()
    else:
        gc.collect(1)
    gc.freeze()
    _GC['n'] += 1


def collect_now():
    gc.collect()


def clone_of(obj, how):
    if how == 'ccopy':
        return copy.copy(obj)
    if how == 'deepcopy':
        return copy.deepcopy(obj)
    return pickle.loads(pickle.dumps(obj, int(how[6:])))


class C17(Property):
    PID = 'C17'
    QUICK_BUDGET_S = 40
    THOROUGH_BUDGET_S = 500
    RULE = ('a case is one whole history over a register file of OneToOne (or ManyToMany, or one FrozenDict) '
            'instances: constructors from dict / pairs / one-shot iterator / kwargs / another instance (either '
            'side; OneToOne.unique too), copy, and every mutator applied through the forward object or through the '
            '.inv object taken ONCE when the instance was created (a held reference); after every command every '
            'instance is dumped on both sides (the held inverse included, with `x.inv is held`). Order of the '
            'stream: adversarial cases; round-2 families - FrozenDict hash-then-updated()/fromkeys() results '
            'against a fresh twin built from their own items, equal FrozenDicts reached along 8 routes (ctor, '
            'dict, updated chains with hash() on every intermediate, overwrite-in-place, pickle, deepcopy, copy) '
            'in every insertion order of <= 3 items, unique-from-instance, emptied-then-refilled OneToOne through the '
            'held inverse, BIG arguments (9..40 pairs over 10/16/32 ids, a few of 60..300 pairs over 160 ids; '
            'ManyToMany value sets and FrozenDicts of that size) and ManyToMany sets of 1..129 values travelling to '
            'another instance and then mutated on either one; exhaustive: all histories of <= 2 commands '
            '(thorough: also all of exactly 3 from two start states, budget permitting) over 2 object ids from '
            'several start states; random histories up to 25 (thorough 80) commands over <= 10 ids with '
            '==-aliases (1/1.0/True, 0/0.0/False, None). Round 3: OneToOne arguments travel to the model as '
            'written (kind + raw pairs, dict arguments with a key written twice); one-shot iterators the caller '
            'keeps, takes items off (next) and passes again - to update, |=, the constructors, several instances - '
            'in a fixed family (0/1/2/all items taken first, every first and second consumer) and in a third of the '
            'random histories; every ManyToMany dump carries the readers len / keys / get / in / m[k] of both sides '
            'on every id the history mentions plus two it does not. Round 5, FIRST in the stream: object lifetime - '
            'after every constructor form, copy() and copy.copy / deepcopy / pickle clones of either half (source dropped '
            'or kept) the caller keeps only `.inv`, only the forward object, only what `x.inv.inv` gives, both again or '
            'nothing of an instance (the other references are let go of, then gc.collect()), mutates through what is left '
            'through either side - the half that is not held is reached through `.inv` of the one that is - and every '
            'instance is read on both sides after every command; the same commands appear in a fifth of the random '
            'histories. Clone attempts themselves are not judged (not operations of the statement). Non-trivial = some command evicted or merged an '
            'existing pair / read from another instance / raised; distinct = distinct history.')
    ASSUMPTIONS = ['keys and values are hashable, == is an equivalence consistent with hash, no NaN',
                   'update/constructor arguments are dicts, lists of pairs, one-shot iterators of pairs, keyword '
                   'arguments or another instance of the same class (non-dict Mapping objects are outside the model)',
                   'update() with a dict / keyword dict that carries one value under two keys: which key keeps the value '
                   'is left open (any order of walking that dict is accepted by the oracle); the model walks it in '
                   'insertion order, like the code',
                   'copy.copy / copy.deepcopy / pickle of a OneToOne or ManyToMany half: whether the attempt raises and what it '
                   'returns is not demanded; a result that is a separate well-formed instance with the same pairs is from '
                   'then on an instance like any other. Only `copy` is in the statement (OneToOne): copy.copy(x) must leave '
                   'every existing instance what it was (known finding C17-oto-copy-module on the unfixed tree)',
                   'FrozenDict: "mutating dict operation" = __setitem__ __delitem__ __ior__ update setdefault pop '
                   'popitem clear (re-running __init__ is not an operation of the statement)']
    CORRESPONDENCE_NAME = ('C17.Driver (OneToOne / ManyToMany by value AND heap-level with set-object identities / '
                           'FrozenDict models) vs boltons.dictutils')
    EXTRA_TRUSTED = ['C17 translator (regen): the evaluated classes FrozenDict / OneToOne (what each mutator name resolves to '
                     'through the MRO before dict) plus a static check of the resolved function: straight-line, '
                     'effect-free, closed by one raise of an exception class']

    # ------------------------------------------------------------------ translator
    # The tables are read off the EVALUATED classes (what the interpreter resolves `FrozenDict.clear` /
    # `OneToOne.__ior__` to), not off the shape of the class body: names bound one by one, through a helper, a
    # factory, a loop over names or a mixin all give the same table.  What is decided statically is only whether
    # the function a mutator name resolves to is an unconditional raiser (see `_raiser_class`).
    DICT_MUTATORS = ('__setitem__', '__delitem__', '__ior__', 'update', 'setdefault', 'pop', 'popitem', 'clear')
    PURE_BUILTINS = ('type', 'str', 'repr', 'len', 'format', 'id', 'isinstance', 'getattr')

    @classmethod
    def _pure(cls, e, fn, local):
        """expression without effects on the object: names, attributes, constants, formatting, containers and
        calls of a few builtins (not shadowed) - enough for building an error message"""
        ok = lambda x: cls._pure(x, fn, local)
        if e is None or isinstance(e, (ast.Constant, ast.Name)):
            return True
        if isinstance(e, ast.Attribute):
            return ok(e.value)
        if isinstance(e, ast.BinOp):
            return ok(e.left) and ok(e.right)
        if isinstance(e, ast.JoinedStr):
            return all(ok(v) for v in e.values)
        if isinstance(e, ast.FormattedValue):
            return ok(e.value) and ok(e.format_spec)
        if isinstance(e, (ast.Tuple, ast.List, ast.Set)):
            return all(ok(v) for v in e.elts)
        if isinstance(e, ast.Dict):
            return all(ok(v) for v in e.keys) and all(ok(v) for v in e.values)
        if isinstance(e, ast.IfExp):
            return ok(e.test) and ok(e.body) and ok(e.orelse)
        if isinstance(e, ast.Compare):
            return ok(e.left) and all(ok(v) for v in e.comparators)
        if isinstance(e, ast.BoolOp):
            return all(ok(v) for v in e.values)
        if isinstance(e, ast.Subscript):
            return ok(e.value) and ok(e.slice)
        if isinstance(e, ast.Call):
            args = all(ok(a) for a in e.args) and all(ok(k.value) for k in e.keywords)
            f = e.func
            if isinstance(f, ast.Name) and f.id in cls.PURE_BUILTINS:
                import builtins
                shadowed = f.id in local or f.id in fn.__globals__ or f.id in fn.__code__.co_freevars
                return args and not shadowed and hasattr(builtins, f.id)
            if isinstance(f, ast.Attribute) and f.attr in ('format', 'join') and isinstance(f.value, ast.Constant) \
                    and isinstance(f.value.value, str):
                return args
            return False
        return False

    @staticmethod
    def _resolve(fn, expr):
        """the object a Name / dotted Name in `fn` refers to (closure cell, module global, builtin)"""
        import builtins
        if isinstance(expr, ast.Attribute):
            base = C17._resolve(fn, expr.value)
            return getattr(base, expr.attr, None) if base is not None else None
        if not isinstance(expr, ast.Name):
            return None
        if expr.id in fn.__code__.co_freevars and fn.__closure__:
            try:
                return fn.__closure__[fn.__code__.co_freevars.index(expr.id)].cell_contents
            except ValueError:
                return None
        if expr.id in fn.__globals__:
            return fn.__globals__[expr.id]
        return getattr(builtins, expr.id, None)

    @classmethod
    def _raiser_class(cls, fn):
        """`fn` (a plain Python function object) does nothing but raise: its body is, after an optional docstring,
        a run of assignments of effect-free expressions to local names, closed by ONE `raise X(...)` / `raise X`
        with effect-free arguments, where X resolves to an exception class.  No branch, loop, call of anything
        but a few builtins, no return / yield.  Returns that class, else None."""
        import inspect
        import textwrap
        import types
        if not isinstance(fn, types.FunctionType):
            return None
        try:
            tree = ast.parse(textwrap.dedent(inspect.getsource(fn)))
        except Exception:
            return None
        if len(tree.body) != 1 or not isinstance(tree.body[0], ast.FunctionDef) or tree.body[0].name != fn.__code__.co_name:
            return None
        fdef = tree.body[0]
        if fn.__code__.co_flags & (inspect.CO_GENERATOR | inspect.CO_COROUTINE | inspect.CO_ASYNC_GENERATOR):
            return None
        a = fdef.args
        local = {x.arg for x in a.posonlyargs + a.args + a.kwonlyargs} | {x.arg for x in (a.vararg, a.kwarg) if x}
        # every call form must reach the body: (self, *a, **kw) or something at least as accepting is not
        # demanded here - a call the signature rejects raises TypeError as well
        body = list(fdef.body)
        if body and isinstance(body[0], ast.Expr) and isinstance(body[0].value, ast.Constant):
            body = body[1:]
        if not body or not isinstance(body[-1], ast.Raise) or body[-1].exc is None:
            return None
        for st in body[:-1]:
            if not (isinstance(st, ast.Assign) and all(isinstance(t, ast.Name) for t in st.targets)
                    and cls._pure(st.value, fn, local)):
                return None
            local |= {t.id for t in st.targets}
        exc = body[-1].exc
        if not cls._pure(body[-1].cause, fn, local):
            return None
        if isinstance(exc, ast.Call):
            if not (all(cls._pure(x, fn, local) for x in exc.args) and all(cls._pure(k.value, fn, local) for k in exc.keywords)):
                return None
            exc = exc.func
        if isinstance(exc, ast.Name) and exc.id in local:
            return None
        k = cls._resolve(fn, exc)
        return k if isinstance(k, type) and issubclass(k, BaseException) else None

    @staticmethod
    def _own_callables(klass, stop):
        """names the class (or a base before `stop` in its MRO) binds to something callable, first binding wins"""
        out = []
        for c in klass.__mro__:
            if c is stop:
                break
            for n, v in c.__dict__.items():
                if (callable(v) or isinstance(v, (classmethod, staticmethod))) and n not in out:
                    out.append(n)
        return out

    @staticmethod
    def _keeps_alive(a, b, depth=4):
        """does object `a` refer to object `b` through references the garbage collector follows (strong ones: a
        `weakref.ref` / proxy does not show its referent), in at most `depth` steps and without passing through a type,
        module, function or frame (through which everything is reachable)?"""
        import types
        skip = (type, types.ModuleType, types.FunctionType, types.BuiltinFunctionType, types.MethodType, types.FrameType,
                types.CodeType)
        seen, level = {id(a)}, [a]
        for _ in range(depth):
            nxt = []
            for o in level:
                for r in gc.get_referents(o):
                    if r is b:
                        return True
                    if id(r) in seen or isinstance(r, skip):
                        continue
                    seen.add(id(r))
                    nxt.append(r)
            level = nxt
        return False

    def _inv_refs(self, dictutils):
        """per paired class: (x refers strongly to x.inv, x.inv refers strongly to x), read off fresh instances -
        an empty one and a filled one; `false` as soon as one of them says so or the probe fails"""
        out = []
        for name in ('OneToOne', 'ManyToMany'):
            fw = bk = True
            try:
                cls = getattr(dictutils, name)
                for x in (cls(), cls([(1, 2), (3, 4)])):
                    y = x.inv
                    fw = fw and y is not None and self._keeps_alive(x, y)
                    bk = bk and y is not None and self._keeps_alive(y, x)
            except Exception:
                fw = bk = False
            out.append((name, bool(fw), bool(bk)))
        return out

    def regen(self):
        import inspect
        from bv.common import ensure_repo_on_path
        import types
        blocked, raises, oto_own, m2m_foreign = [], '?', [], ['?']
        inv_refs = [('OneToOne', False, False), ('ManyToMany', False, False)]
        try:
            ensure_repo_on_path()
            from boltons import dictutils
            FD, OTO = dictutils.FrozenDict, dictutils.OneToOne
            # ManyToMany is modelled as a class of its own: a mutating dict method it has WITHOUT defining it as a
            # Python function (i.e. inherited from a builtin container it was made a subclass of) would write one side
            m2m_foreign = [n for n in self.DICT_MUTATORS
                           if not isinstance(inspect.getattr_static(dictutils.ManyToMany, n, types.FunctionType(
                               (lambda: None).__code__, {})), types.FunctionType)]
            kinds = set()
            for n in self._own_callables(FD, dict):
                k = self._raiser_class(inspect.getattr_static(FD, n))
                if k is not None:
                    blocked.append(n)
                    # `except TypeError` is what the statement's "raises TypeError" means: a subclass will do
                    kinds.add('TypeError' if issubclass(k, TypeError) else k.__name__)
            if blocked:
                raises = kinds.pop() if len(kinds) == 1 else '?'
            oto_own = self._own_callables(OTO, dict)
            inv_refs = self._inv_refs(dictutils)
        except Exception as e:      # the module does not import: empty tables, the proof side does not check
            self.stats['regen_error'] = repr(e)[:200]
        # the running interpreter's dict: every method it has must be classified by the model (mutator or not)
        dict_methods = [n for n, v in dict.__dict__.items() if callable(v) or isinstance(v, (classmethod, staticmethod))]
        q = lambda xs: ', '.join('"%s"' % b for b in xs)
        text = ('/- GENERATED by harness/bv/props/c17.py (regen) from boltons/dictutils.py - do not edit.\n'
                '   FrozenDict: the names the class (evaluated; bases before dict included) binds to a function that\n'
                '   does nothing but raise, and the exception class raised (TypeError = TypeError or a subclass).\n'
                '   OneToOne: the callables the class (bases before dict included) binds itself.\n'
                '   dictMethods: the callables in `dict.__dict__` of the interpreter the check runs under. -/\n'
                'namespace C17.Generated\n\n'
                'def frozenBlocked : List String :=\n  [%s]\n\n'
                'def frozenRaises : String := "%s"\n\n'
                'def otoDefined : List String :=\n  [%s]\n\n'
                'def dictMethods : List String :=\n  [%s]\n\n'
                '/-- mutating dict methods ManyToMany has without defining them as Python functions (inherited from a\n'
                '    builtin container) -/\n'
                'def m2mForeignMutators : List String :=\n  [%s]\n\n'
                'end C17.Generated\n') % (q(blocked), raises, q(oto_own), q(dict_methods), q(m2m_foreign))
        lb = lambda b: 'true' if b else 'false'
        refs = ('/- GENERATED by harness/bv/props/c17.py (regen) from boltons/dictutils.py - do not edit.\n'
                '   Per paired class, read off a freshly constructed instance `x` (evaluated, not pattern-matched): does `x`\n'
                '   refer STRONGLY to `x.inv` (is `x.inv` among what the garbage collector can reach from `x` without passing\n'
                '   through a type / module / function), and does `x.inv` refer strongly to `x`?  A `weakref.ref` / proxy\n'
                '   stored on either side shows as `false`. -/\n'
                'namespace C17.Generated\n\n'
                'def invRefs : List (String × Bool × Bool) :=\n  [%s]\n\n'
                'end C17.Generated\n') % ', '.join('("%s", %s, %s)' % (n, lb(f), lb(b)) for n, f, b in inv_refs)
        return {'C17_Frozen.lean': text, 'C17_Refs.lean': refs}

    # ------------------------------------------------------------------ generation
    def cases(self, budget_s):
        rng = self.rng
        for c in self.lifetime():
            yield c
        for c in self.adversarial():
            yield c
        for c in self.round2(rng, 400 if self.thorough else 60):
            yield c
        for c in self.exhaustive(2):
            yield c
        n = 40000 if self.thorough else 2500
        for i in range(n):
            big = self.thorough and i % 8 == 0
            yield self.random_oto(rng, big)
            yield self.random_m2m(rng, big)
            yield self.random_fd(rng)
        if self.thorough:
            # all histories of exactly 3 commands from an empty and a full start state (as far as the budget allows)
            for c in self.exhaustive(3, only_depth=3, starts=2):
                yield c

    def deep_cases(self, budget_s):
        rng = self.rng
        for c in self.lifetime():
            yield c
        for c in self.adversarial():
            yield c
        for c in self.round2(rng, 200):
            yield c
        for c in self.exhaustive(2):
            yield c
        while True:
            for c in self.round2(rng, 3, fixed=False):
                yield c
            yield self.random_oto(rng, rng.random() < 0.2)
            yield self.random_m2m(rng, rng.random() < 0.2)
            yield self.random_fd(rng)

    # -- exhaustive small scope
    def oto_alphabet(self, ids, nregs=1):
        ops = []
        for r in range(nregs):
            for s in SIDES:
                for k in ids:
                    for v in ids:
                        ops.append(['set', r, s, k, v])
                        ops.append(['sd', r, s, k, v])
                    ops.append(['del', r, s, k])
                    ops.append(['pop', r, s, k, None])
                    ops.append(['pop', r, s, k, ids[0]])
                    ops.append(['sd', r, s, k, None])
                ops.append(['popitem', r, s])
                ops.append(['clear', r, s])
                ops.append(['copy', r, s])
                a, b = ids[0], ids[-1]
                for kind in ('dict', 'list', 'iter'):
                    ops.append(['upd', r, s, kind, [[a, b], [b, b]], []])
                    ops.append(['ior', r, s, kind, [[b, a], [a, a]]])
                ops.append(['upd', r, s, 'reg', [r, 'i'], []])
                ops.append(['ior', r, s, 'reg', [r, 'f']])
        return ops

    def m2m_alphabet(self, ids, nregs=1):
        ops = []
        for r in range(nregs):
            for s in SIDES:
                for k in ids:
                    for v in ids:
                        ops.append(['add', r, s, k, v])
                        ops.append(['rem', r, s, k, v])
                        ops.append(['rep', r, s, k, v])
                    ops.append(['del', r, s, k])
                    ops.append(['set', r, s, k, list(ids), 'list'])
                    ops.append(['set', r, s, k, [ids[0]], 'iter'])
                    ops.append(['set', r, s, k, [], 'set'])
                a, b = ids[0], ids[-1]
                ops.append(['upd', r, s, 'list', [[a, b], [b, b]]])
                ops.append(['upd', r, s, 'iter', [[b, a]]])
                ops.append(['upd', r, s, 'dict', [[a, a]]])
                ops.append(['upd', r, s, 'reg', [r, 'i']])
                ops.append(['new', 'reg', [r, s]])
        return ops

    def exhaustive(self, depth, only_depth=None, starts=None):
        ids = [1, 3]
        lo = 0 if only_depth is None else only_depth
        ostarts = [[], [[1, 3], [3, 1]], [[1, 3]], [[1, 1], [3, 3]], [[1, 3], [3, 3]]][:starts]
        alpha = self.oto_alphabet(ids)
        for st in ostarts:
            for n in range(lo, depth + 1):
                for seq in itertools.product(alpha, repeat=n):
                    yield {'t': 'oto', 'ops': [['new', 'dict', st, []]] + [list(o) for o in seq]}
        alpha = self.m2m_alphabet(ids)
        mstarts = [[], [[1, 1], [1, 3], [3, 1]], [[1, 3]], [[1, 3], [3, 3]]][:starts]
        for st in mstarts:
            for n in range(lo, depth + 1):
                for seq in itertools.product(alpha, repeat=n):
                    yield {'t': 'm2m', 'ops': [['new', 'list', st]] + [list(o) for o in seq]}
        if only_depth is not None:
            return
        # FrozenDict: every mutator on every small dict; all insertion orders of <= 3 items
        muts = self.fd_mutators([1, 3])
        for items in ([], [[1, ['h', 3]]], [[1, ['h', 3]], [3, ['h', 1]]], [[1, ['u', 1]], [3, ['h', 3]]]):
            for m in muts:
                yield {'t': 'fd', 'items': items, 'ops': [['hash'], m, ['hash'], ['eq', list(reversed(items))]]}
        # every way of copying, after the hash has been computed, with process-dependent and plain values
        for items in ([[1, ['t', 0]]], [[1, ['t', 0]], [3, ['h', 1]], [2, ['t', 1]]], [[1, ['h', 3]]], [[1, ['u', 0]], [2, ['t', 2]]], []):
            for kind in ('copy', 'ccopy', 'deepcopy', 'pickle0', 'pickle2', 'pickle5'):
                yield {'t': 'fd', 'items': items, 'ops': [['hash'], ['copy', kind], ['eq', list(reversed(items))]]}
                yield {'t': 'fd', 'items': items, 'ops': [['copy', kind], ['hash']]}
        for items in [[[1, ['h', 2]], [2, ['t', 1]]], [[4, ['h', 1]], [1, ['h', 9]]]] + (
                [[[9, ['h', 4]]], [[2, ['u', 1]]], []] if self.thorough else []):
            yield {'t': 'fd', 'items': items, 'ops': [['hash'], ['copy', 'xproc']]}
        base = [[1, ['h', 3]], [3, ['h', 3]], [2, ['h', 0]]]
        for n in range(0, 4):
            for perm in itertools.permutations(base[:n]):
                yield {'t': 'fd', 'items': base[:n], 'ops': [['eq', [list(p) for p in perm]], ['hash'], ['copy', 'pickle2']]}

    def fd_mutators(self, ids):
        a, b = ids[0], ids[-1]
        return [['mut', 'setitem', a, ['h', b]], ['mut', 'setitem', 5, ['h', b]], ['mut', 'delitem', a], ['mut', 'delitem', 5],
                ['mut', 'ior', [[a, ['h', a]]]], ['mut', 'ior', []], ['mut', 'update', [[b, ['h', a]]]], ['mut', 'update', []],
                ['mut', 'setdefault', a, ['h', b]], ['mut', 'setdefault', 5, ['u', 1]], ['mut', 'pop', a], ['mut', 'pop', 5],
                ['mut', 'popitem'], ['mut', 'clear']]

    # -- round 5: object lifetime.  Only a DERIVED object is kept alive: `idx = ManyToMany(pairs).inv`, `x.inv.inv`,
    # a copy / deepcopy / pickle round trip of `.inv` whose source is dropped; then mutate through what is left and
    # read both sides (the other half through `.inv` of the half that is held)
    def lifetime(self):
        P = [[1, 3], [2, 3], [2, 6]]
        tr = lambda ps: [[b, a] for a, b in ps]

        def m2m_muts(r, s):
            # the same abstract mutations written for either side (through `i` keys and values change places)
            f = (lambda k, v: [k, v]) if s == 'f' else (lambda k, v: [v, k])
            return [['add', r, s] + f(4, 6), ['add', r, s] + f(1, 6), ['rem', r, s] + f(2, 3), ['rep', r, s, 2 if s == 'f' else 3, 5],
                    ['upd', r, s, 'iter', [f(5, 4)]], ['set', r, s, 1 if s == 'f' else 3, [5], 'list'],
                    ['del', r, s, 2 if s == 'f' else 3]]

        def oto_muts(r, s):
            f = (lambda k, v: [k, v]) if s == 'f' else (lambda k, v: [v, k])
            return [['set', r, s] + f(4, 5), ['set', r, s] + f(1, 6), ['del', r, s, 1 if s == 'f' else 3],
                    ['upd', r, s, 'iter', [f(5, 4)], []], ['ior', r, s, 'dict', [f(2, 3)]], ['sd', r, s] + f(5, 3),
                    ['pop', r, s, 2 if s == 'f' else 6, None], ['popitem', r, s], ['clear', r, s]]

        def tails(t, r, full):
            muts = m2m_muts if t == 'm2m' else oto_muts
            for mode in ('i', 'f', 'ii'):
                for s in SIDES:
                    ms = muts(r, s)
                    for m in (ms if full else ms[:2]):
                        o = 'i' if s == 'f' else 'f'
                        yield [['keep', r, mode], m, muts(r, o)[0], ['keep', r, 'fi'], muts(r, s)[1], ['keep', r, 'f' if mode == 'i' else 'i'],
                               muts(r, o)[2]]

        for t in ('m2m', 'oto'):
            kw = [] if t == 'm2m' else [[]]
            Q = P if t == 'm2m' else [[1, 3], [2, 6], [4, 1]]
            builders = [([['new', 'list', Q] + kw], 0, True),
                        ([['new', 'list', tr(Q)] + kw, ['new', 'reg', [0, 'i']] + kw, ['keep', 0, 'none']], 1, True),
                        ([['new', 'iter', Q] + kw], 0, False),
                        ([['new', 'dict', Q] + kw], 0, False),
                        ([['new', 'none', []] + kw, ['upd', 0, 'i', 'list', tr(Q)] + kw], 0, False)]
            if t == 'oto':
                builders += [([['uniq', 'list', Q, [[1, 0]]]], 0, False),
                             ([['new', 'none', [], [[1, 3], [4, 6]]]], 0, False),
                             ([['new', 'list', tr(Q), []], ['copy', 0, 'i'], ['keep', 0, 'none']], 1, True),
                             ([['new', 'list', Q, []], ['copy', 0, 'f'], ['keep', 1, 'i'], ['keep', 0, 'i']], 1, False)]
            for how in CLONE_KINDS:
                for s in SIDES:
                    # the clone of a half, the source dropped / the source kept and mutated as well
                    builders.append(([['new', 'list', Q if s == 'f' else tr(Q)] + kw, ['clone', 0, s, how], ['keep', 0, 'none']], 1, False))
                    builders.append(([['new', 'list', Q] + kw, ['clone', 0, s, how], ['keep', 0, 'i']], 1,
                                     how in ('deepcopy', 'pickle2')))
            for pre, r, full in builders:
                for tail in tails(t, r, full):
                    yield {'t': t, 'ops': [list(o) for o in pre] + tail}
            # nothing but reference juggling on one instance, and two instances whose halves are kept crosswise
            yield {'t': t, 'ops': [['new', 'list', Q] + kw] + [['keep', 0, m] for m in ('i', 'ii', 'i', 'fi', 'f', 'ii', 'i', 'f')]
                   + [(m2m_muts if t == 'm2m' else oto_muts)(0, 'i')[0]]}
            for m0 in ('i', 'f', 'ii'):
                for m1 in ('i', 'f', 'ii'):
                    mu = m2m_muts if t == 'm2m' else oto_muts
                    yield {'t': t, 'ops': [['new', 'list', Q] + kw, ['new', 'reg', [0, 'i']] + kw, ['keep', 0, m0], ['keep', 1, m1],
                                           mu(0, 'f')[0], mu(1, 'f')[1], ['upd', 0, 'i', 'reg', [1, 'f']] + kw, mu(1, 'i')[2],
                                           ['keep', 1, 'none'], mu(0, 'i')[1], ['keep', 0, 'fi'], mu(0, 'f')[2]]}

    def _lifeop(self, rng, nregs, clone=True):
        """now and then in a random history: the caller lets go of one of its two references / takes them again /
        clones a half"""
        r = rng.randrange(nregs)
        if clone and rng.random() < 0.3:
            return ['clone', r, rng.choice(SIDES), rng.choice(CLONE_KINDS)]
        return ['keep', r, rng.choice(['i', 'f', 'ii', 'fi', 'i', 'f'])]

    # -- adversarial
    def adversarial(self):
        # the four defects of the pinned tree and near misses
        yield {'t': 'oto', 'ops': [['new', 'dict', [[1, 3]], []], ['ior', 0, 'f', 'dict', [[2, 3]]]]}
        yield {'t': 'oto', 'ops': [['new', 'dict', [[1, 3]], []], ['ior', 0, 'i', 'list', [[3, 2], [4, 1]]]]}
        yield {'t': 'oto', 'ops': [['new', 'none', [], []], ['upd', 0, 'f', 'iter', [[1, 3], [2, 4], [4, 5]], []]]}
        yield {'t': 'oto', 'ops': [['new', 'none', [], []], ['upd', 0, 'i', 'iter', [[1, 3]], [[2, 4]]]]}
        yield {'t': 'm2m', 'ops': [['new', 'list', [[3, 1], [6, 1], [6, 2]]], ['rep', 0, 'f', 3, 6]]}
        yield {'t': 'm2m', 'ops': [['new', 'list', [[3, 1], [6, 1], [6, 2]]], ['rep', 0, 'i', 1, 2], ['rep', 0, 'f', 6, 6]]}
        yield {'t': 'm2m', 'ops': [['new', 'list', [[3, 1]]], ['new', 'list', [[6, 2]]], ['upd', 0, 'f', 'reg', [1, 'f']],
                                   ['add', 0, 'f', 6, 4], ['rem', 1, 'f', 6, 2]]}
        yield {'t': 'm2m', 'ops': [['new', 'list', [[3, 1]]], ['new', 'reg', [0, 'i']], ['add', 1, 'f', 1, 4],
                                   ['add', 0, 'i', 1, 5], ['del', 1, 'i', 3]]}
        for a in range(1, 4):
            for b in range(1, 4):
                for c in range(1, 4):
                    yield {'t': 'oto', 'ops': [['new', 'list', [[1, 2], [2, 3], [3, 1]], []], ['set', 0, 'f', a, b],
                                               ['set', 0, 'i', c, a], ['popitem', 0, 'i'], ['sd', 0, 'f', b, c]]}
                    yield {'t': 'm2m', 'ops': [['new', 'list', [[1, 2], [2, 3], [3, 1], [1, 3]]], ['rep', 0, 'f', a, b],
                                               ['set', 0, 'i', c, [a, b], 'list'], ['rep', 0, 'i', b, c], ['del', 0, 'f', a]]}

    # -- round 2: big arguments, derived FrozenDicts, equal FrozenDicts built along different routes
    FD_ROUTES = ['ctor', 'fromdict', 'updated', 'updated_all', 'overwrite', 'pickle', 'deepcopy', 'copy']

    def round2(self, rng, nbig, fixed=True):
        if fixed:
            for c in self.round2_fixed():
                yield c
        for i in range(nbig):
            huge = i % 12 == 5       # a few arguments of hundreds of pairs over 160 ids
            yield self.big_oto(rng, huge)
            yield self.big_m2m(rng, huge)
            yield self.big_fd(rng, huge)
            yield self.alias_m2m(rng)

    def round2_fixed(self):
        # FrozenDict: hash first (or not), then updated() that overwrites an existing key / adds one / changes
        # nothing; the result must be content-hashed on ITS OWN items; then equality against the original
        for items in ([[1, ['h', 3]]], [[1, ['h', 3]], [2, ['h', 1]]], [[1, ['t', 0]], [4, ['h', 1]]], []):
            keys = [k for k, _ in items] + [9]
            for kind in ('dict', 'list', 'iter', 'kw'):
                for k in keys:
                    for v in (['h', 2], ['t', 1], ['h', 3]):
                        for pre in ([], [['hash']]):
                            yield {'t': 'fd', 'items': items,
                                   'ops': pre + [['updated', kind, [[k, v]]], ['hash'], ['eq', list(reversed(items)), 'updated']]}
            for pre in ([], [['hash']]):
                yield {'t': 'fd', 'items': items, 'ops': pre + [['updated', 'list', []], ['updated', 'kw', []],
                                                                ['fromkeys', [k for k, _ in items], ['h', 3]]]}
        # equal FrozenDicts reached along every route, in every insertion order of <= 3 items
        base = [[1, ['h', 3]], [4, ['t', 1]], [2, ['h', 0]]]
        for n in range(0, 4):
            for perm in itertools.permutations(base[:n]):
                for route in self.FD_ROUTES:
                    yield {'t': 'fd', 'items': base[:n], 'ops': [['eq', [list(p) for p in perm], route], ['hash']]}
                    yield {'t': 'fd', 'items': base[:n], 'ops': [['hash'], ['eq', [list(p) for p in perm], route]]}
        yield {'t': 'fd', 'items': [[1, ['u', 0]], [2, ['h', 1]]], 'ops': [['hash'], ['eq', [[2, ['h', 1]], [1, ['u', 0]]], 'updated'],
                                                                           ['updated', 'list', [[1, ['h', 1]]]], ['hash']]}
        # round 3: FrozenDicts as VALUES of a FrozenDict (hashable iff their own values are; equal whatever their
        # insertion order): against the same content with the inner dicts built in another order, along every route
        inner = [[1, ['h', 3]], [4, ['t', 1]], [2, ['h', 0]]]
        for n in range(0, 4):
            for perm in itertools.permutations(inner[:n]):
                items = [[1, ['f', inner[:n]]], [3, ['h', 1]]]
                other = [[3, ['h', 1]], [1, ['f', [list(p) for p in perm]]]]
                for route in self.FD_ROUTES:
                    yield {'t': 'fd', 'items': items, 'ops': [['hash'], ['eq', other, route], ['copy', 'deepcopy'], ['hash']]}
        for bad in ([[1, ['u', 0]]], [[1, ['h', 3]], [2, ['u', 1]]]):
            items = [[1, ['f', bad]], [3, ['h', 1]]]
            yield {'t': 'fd', 'items': items, 'ops': [['hash'], ['eq', list(reversed(items)), 'updated'], ['copy', 'pickle2'],
                                                       ['updated', 'list', [[1, ['f', [[1, ['h', 3]]]]]]], ['hash'], ['mut', 'clear']]}
        yield {'t': 'fd', 'items': [[1, ['f', [[1, ['h', 3]], [1, ['h', 4]]]]]], 'ops': [['eq', [[1, ['f', [[1, ['h', 4]]]]]]], ['hash'],
                                                                                        ['eq', [[1, ['f', [[1, ['h', 3]]]]]]]]}
        # OneToOne.unique from another instance (+ keyword items that do / do not collide)
        for kw in ([], [[1, 3]], [[1, 5]], [[4, 2]]):
            for side in SIDES:
                yield {'t': 'oto', 'ops': [['new', 'list', [[1, 2], [2, 3]], []], ['uniq', 'reg', [0, side], kw],
                                           ['set', 1, 'i', 3, 1], ['del', 0, side, 2]]}
        # round 3: one-shot iterators held by the caller - passed whole, after the caller took items off, passed a
        # second time (nothing left), to update / |= / the constructors, through either side
        for side in SIDES:
            for taken in (0, 1, 2, 4):
                for first in (['upd', 0, side, 'it', 0, []], ['upd', 0, side, 'it', 0, [[1, 9]]], ['ior', 0, side, 'it', 0],
                              ['new', 'it', 0, []], ['uniq', 'it', 0, [[4, 3]]]):
                    for again in (['upd', 0, 'f', 'it', 0, []], ['new', 'it', 0, [[2, 2]]], ['ior', 0, 'i', 'it', 0]):
                        yield {'t': 'oto', 'ops': [['new', 'dict', [[1, 3], [5, 2]], []], ['mkiter', [[1, 2], [2, 3], [4, 3]]]]
                               + [['next', 0]] * taken + [first, again, ['set', 0, side, 3, 1]]}
        yield {'t': 'oto', 'ops': [['new', 'none', [], []], ['mkiter', [[1, 2], [3, 2]]], ['mkiter', [[5, 6]]],
                                   ['uniq', 'it', 0, []], ['upd', 0, 'f', 'it', 1, []], ['upd', 0, 'i', 'it', 0, []],
                                   ['ior', 1, 'f', 'it', 1]]}
        for side in SIDES:
            for taken in (0, 1, 3):
                for first in (['upd', 0, side, 'it', 0], ['new', 'it', 0]):
                    for again in (['upd', 0, 'f', 'it', 0], ['new', 'it', 0], ['upd', 0, 'i', 'it', 0]):
                        yield {'t': 'm2m', 'ops': [['new', 'list', [[1, 3], [5, 2]]], ['mkiter', [[1, 2], [1, 3], [4, 3]]]]
                               + [['next', 0]] * taken + [first, again, ['rem', 0, side, 1, 3]]}
        for kind in ('dict', 'list', 'iter'):
            yield {'t': 'm2m', 'ops': [['new', kind, [[1, 5], [2, 6], [1, 6]]], ['upd', 0, 'i', kind, [[6, 1], [5, 2], [6, 2]]],
                                       ['new', 'reg', [0, 'i']], ['upd', 1, 'f', 'reg', [1, 'i']]]}
        # dict / OrderedDict arguments written with a key twice: the callee sees the key once (first position, last value)
        for kind in ('dict', 'odict', 'list', 'iter'):
            for o in ('upd', 'ior'):
                yield {'t': 'oto', 'ops': [['new', 'none', [], []], [o, 0, 'f', kind, [[1, 5], [2, 6], [1, 6]]] + ([[]] if o == 'upd' else [])]}
                yield {'t': 'oto', 'ops': [['new', 'dict', [[3, 6]], []], [o, 0, 'i', kind, [[6, 1], [5, 2], [6, 2]]] + ([[]] if o == 'upd' else [])]}
        # a long-held `.inv`: every way of emptying / refilling, then mutate through the reference taken at creation
        for emptier in (['clear', 0, 'f'], ['clear', 0, 'i'], ['popitem', 0, 'f'], ['pop', 0, 'i', 3, None], ['del', 0, 'f', 1]):
            for filler in (['set', 0, 'i', 2, 4], ['upd', 0, 'f', 'dict', [[4, 2]], []], ['ior', 0, 'i', 'iter', [[2, 4]]], ['sd', 0, 'i', 2, 4]):
                yield {'t': 'oto', 'ops': [['new', 'dict', [[1, 3]], []], emptier, filler, ['set', 0, 'i', 5, 1]]}

    def bpairs(self, rng, ids, lo=9, hi=40):
        if len(ids) > 100:
            lo, hi = 60, 300
        return [[rng.choice(ids), rng.choice(ids)] for _ in range(rng.randint(lo, hi))]

    def big_oto(self, rng, huge=False):
        ids = list(range(160 if huge else rng.choice([10, 16, 32])))
        kinds = ['dict', 'list', 'iter', 'odict']
        first = self.rpairs(rng, ids, 0, 6) if rng.random() < 0.6 else self.bpairs(rng, ids)
        ops = [['new', rng.choice(['none'] + kinds), first, []]]
        nregs = 1
        for _ in range(rng.randint(1, 5)):
            r, s, x = rng.randrange(nregs), rng.choice(SIDES), rng.random()
            if x < 0.4:
                ops.append(['upd', r, s, rng.choice(kinds), self.bpairs(rng, ids), self.rkw(rng, ids)])
            elif x < 0.6:
                ops.append(['ior', r, s, rng.choice(kinds), self.bpairs(rng, ids)])
            elif x < 0.7 and nregs < 3:
                ops.append([rng.choice(['new', 'uniq']), rng.choice(kinds), self.bpairs(rng, ids), self.rkw(rng, ids)])
                nregs += 1
            elif x < 0.78:
                ops.append(['clear', r, s])
            elif x < 0.86:
                ops.append(['popitem', r, s])
            elif x < 0.93:
                ops.append(['upd', r, s, 'reg', [rng.randrange(nregs), rng.choice(SIDES)], []])
            else:
                ops.append(['set', r, s, rng.choice(ids), rng.choice(ids)])
        return {'t': 'oto', 'ops': ops}

    def big_m2m(self, rng, huge=False):
        ids = list(range(160 if huge else rng.choice([10, 16, 32])))
        first = self.rpairs(rng, ids, 0, 6) if rng.random() < 0.5 else self.bpairs(rng, ids)
        ops = [['new', rng.choice(['none', 'list', 'iter', 'dict']), first]]
        nregs = 1
        for _ in range(rng.randint(1, 5)):
            r, s, x = rng.randrange(nregs), rng.choice(SIDES), rng.random()
            if x < 0.3:
                ops.append(['upd', r, s, rng.choice(['list', 'iter', 'dict']), self.bpairs(rng, ids)])
            elif x < 0.55:
                ops.append(['set', r, s, rng.choice(ids), [rng.choice(ids) for _ in range(rng.randint(9, 120 if huge else 32))],
                            rng.choice(['list', 'set', 'iter', 'frozenset'])])
            elif x < 0.65 and nregs < 3:
                ops.append(['new', 'reg', [r, s]] if rng.random() < 0.5 else ['new', 'list', self.bpairs(rng, ids)])
                nregs += 1
            elif x < 0.75:
                ops.append(['upd', r, s, 'reg', [rng.randrange(nregs), rng.choice(SIDES)]])
            elif x < 0.85:
                ops.append(['rep', r, s, rng.choice(ids), rng.choice(ids)])
            elif x < 0.93:
                ops.append(['del', r, s, rng.choice(ids)])
            else:
                ops.append(['rem', r, s, rng.choice(ids), rng.choice(ids)])
        return {'t': 'm2m', 'ops': ops}

    def alias_m2m(self, rng):
        """one key with a set of n values (n around every power of two up to 128) travels to another instance by
        update(other) / ManyToMany(other) through either side; then that very set is mutated on one of the two"""
        n = rng.choice([1, 2, 3, 5, 8, 9, 16, 17, 32, 33, 64, 65, 128, 129])
        ids = list(range(160 if n > 20 else 32))
        k = rng.choice(ids)
        vals = rng.sample(ids, n)
        s0 = rng.choice(SIDES)          # the side of instance 0 on which k is a KEY
        other = 'i' if s0 == 'f' else 'f'
        if rng.random() < 0.5:
            ops = [['new', 'none', []], ['set', 0, s0, k, vals, rng.choice(['list', 'set', 'iter'])]]
        else:
            ops = [['new', 'list', [[k, v] if s0 == 'f' else [v, k] for v in vals]]]
        s1 = rng.choice(SIDES)          # the side of instance 1 on which k becomes a key
        src = [0, s0] if s1 == 'f' else [0, other]
        if rng.random() < 0.4:
            ops.append(['new', 'reg', src])
        else:
            ops.append(['new', rng.choice(['none', 'list']), self.rpairs(rng, ids, 0, 3)])
            ops.append(['upd', 1, 'f', 'reg', src] if rng.random() < 0.5 else
                       ['upd', 1, 'i', 'reg', [src[0], 'i' if src[1] == 'f' else 'f']])
        for _ in range(rng.randint(1, 4)):
            r = rng.randrange(2)
            s = s0 if r == 0 else s1
            x = rng.random()
            if x < 0.35:
                ops.append(['add', r, s, k, rng.choice(ids)])
            elif x < 0.6:
                ops.append(['rem', r, s, k, rng.choice(vals)])
            elif x < 0.7:
                ops.append(['del', r, s, k])
            elif x < 0.8:
                ops.append(['rep', r, s, k, rng.choice(ids)])
            elif x < 0.9:
                ops.append(['set', r, s, k, rng.sample(ids, rng.randint(0, 3)), 'list'])
            else:
                # through the other side: drop one of the values everywhere
                ops.append(['del', r, 'i' if s == 'f' else 'f', rng.choice(vals)])
        return {'t': 'm2m', 'ops': ops}

    def big_fd(self, rng, huge=False):
        ids = list(range(160 if huge else rng.choice([10, 16, 32])))
        items = self.rfpairs(rng, ids, 100 if huge else 9, 300 if huge else 40, unh=rng.choice([0, 0, 0, 0.03]) / (8 if huge else 1), tok=0.1)
        dd = self.dedup_keys(items)
        ops = []
        for _ in range(rng.randint(1, 5)):
            x = rng.random()
            if x < 0.2:
                ops.append(['hash'])
            elif x < 0.6:
                other = list(dd)
                rng.shuffle(other)
                if rng.random() < 0.15 and other:
                    other = other[:-1]
                ops.append(['eq', other, rng.choice(self.FD_ROUTES)])
            elif x < 0.75:
                ops.append(['updated', rng.choice(['dict', 'list', 'iter']), self.rfpairs(rng, ids, 0, 12, unh=0)])
            elif x < 0.9:
                ops.append(['copy', rng.choice(['copy', 'ccopy', 'deepcopy', 'pickle0', 'pickle2', 'pickle5'])])
            else:
                ops.append(['fromkeys', [rng.choice(ids) for _ in range(rng.randint(9, 20))], ['h', rng.choice(ids)]])
        for op in ops:
            if op[0] == 'updated' and op[1] == 'dict':
                op[2] = self.dedup_keys(op[2])
        return {'t': 'fd', 'items': items, 'ops': ops}

    # -- random
    def rpairs(self, rng, ids, lo=0, hi=4):
        return [[rng.choice(ids), rng.choice(ids)] for _ in range(rng.randint(lo, hi))]

    def rkw(self, rng, ids):
        sids = [i for i in ids if i in STR_IDS]
        if not sids or rng.random() < 0.6:
            return []
        return [[k, rng.choice(ids)] for k in rng.sample(sids, rng.randint(1, min(2, len(sids))))]

    def random_oto(self, rng, big=False):
        ids = rng.choice([[1, 3], [1, 2, 3], [0, 1, 2, 3], [1, 2, 3, 4, 5, 6], list(range(10))])
        nops = rng.randint(1, 80 if big else 25)
        kinds = ['dict', 'list', 'iter', 'odict']
        ops = [['new', rng.choice(['none'] + kinds), self.rpairs(rng, ids), self.rkw(rng, ids)]]
        nregs = 1
        nits = 0          # one-shot iterators the caller holds on to (created, partly consumed, passed, passed again)
        use_its = rng.random() < 0.35
        use_life = rng.random() < 0.2
        for _ in range(nops):
            r, s = rng.randrange(nregs), rng.choice(SIDES)
            x = rng.random()
            k, v = rng.choice(ids), rng.choice(ids)
            if use_life and rng.random() < 0.12:
                lo = self._lifeop(rng, nregs, nregs < 4)
                nregs += lo[0] == 'clone'
                ops.append(lo)
                continue
            if use_its:
                y = rng.random()
                if y < 0.08 and nits < 4:
                    ops.append(['mkiter', self.rpairs(rng, ids, 0, 5)])
                    nits += 1
                    continue
                if nits and y < 0.12:
                    ops.append(['next', rng.randrange(nits)])
                    continue
                if nits and y < 0.3:
                    it, z = rng.randrange(nits), rng.random()
                    if z < 0.5:
                        ops.append(['upd', r, s, 'it', it, self.rkw(rng, ids)])
                    elif z < 0.75:
                        ops.append(['ior', r, s, 'it', it])
                    elif nregs < 4:
                        ops.append([rng.choice(['new', 'uniq']), 'it', it, self.rkw(rng, ids)])
                        nregs += 1
                    continue
            if x < 0.25:
                ops.append(['set', r, s, k, v])
            elif x < 0.33:
                ops.append(['del', r, s, k])
            elif x < 0.45:
                if rng.random() < 0.3 and nregs:
                    ops.append(['upd', r, s, 'reg', [rng.randrange(nregs), rng.choice(SIDES)], self.rkw(rng, ids)])
                else:
                    ops.append(['upd', r, s, rng.choice(kinds), self.rpairs(rng, ids), self.rkw(rng, ids)])
            elif x < 0.55:
                if rng.random() < 0.3:
                    ops.append(['ior', r, s, 'reg', [rng.randrange(nregs), rng.choice(SIDES)]])
                else:
                    ops.append(['ior', r, s, rng.choice(kinds), self.rpairs(rng, ids)])
            elif x < 0.63:
                ops.append(['sd', r, s, k, rng.choice([None, v])])
            elif x < 0.72:
                ops.append(['pop', r, s, k, rng.choice([None, v])])
            elif x < 0.79:
                ops.append(['popitem', r, s])
            elif x < 0.82:
                ops.append(['clear', r, s])
            elif nregs < 4:
                y = rng.random()
                if y < 0.35:
                    ops.append(['copy', r, s])
                    nregs += 1
                elif y < 0.6:
                    ops.append(['new', 'reg', [r, s], self.rkw(rng, ids) if rng.random() < 0.3 else []])
                    nregs += 1
                elif y < 0.85:
                    ops.append(['new', rng.choice(['none'] + kinds), self.rpairs(rng, ids), self.rkw(rng, ids)])
                    nregs += 1
                else:
                    # unique: the register is created either way (left empty when ValueError is raised)
                    if rng.random() < 0.3:
                        ops.append(['uniq', 'reg', [r, s], self.rkw(rng, ids)])
                    else:
                        ops.append(['uniq', rng.choice(kinds), self.rpairs(rng, ids, 0, 3), self.rkw(rng, ids)])
                    nregs += 1
            else:
                ops.append(['set', r, s, k, v])
        return {'t': 'oto', 'ops': ops}

    def random_m2m(self, rng, big=False):
        ids = rng.choice([[1, 3], [1, 2, 3], [1, 2, 3, 6], [1, 2, 3, 4, 5, 6], list(range(10))])
        nops = rng.randint(1, 80 if big else 25)
        ops = [['new', rng.choice(['none', 'list', 'iter', 'dict']), self.rpairs(rng, ids)]]
        if ops[0][1] == 'dict':
            ops[0][2] = self.dedup_keys(ops[0][2])
        nregs = 1
        nits = 0
        use_its = rng.random() < 0.3
        use_life = rng.random() < 0.2
        for _ in range(nops):
            r, s = rng.randrange(nregs), rng.choice(SIDES)
            x = rng.random()
            k, v = rng.choice(ids), rng.choice(ids)
            if use_life and rng.random() < 0.12:
                lo = self._lifeop(rng, nregs, nregs < 4)
                nregs += lo[0] == 'clone'
                ops.append(lo)
                continue
            if use_its:
                y = rng.random()
                if y < 0.08 and nits < 4:
                    ops.append(['mkiter', self.rpairs(rng, ids, 0, 5)])
                    nits += 1
                    continue
                if nits and y < 0.12:
                    ops.append(['next', rng.randrange(nits)])
                    continue
                if nits and y < 0.3:
                    it = rng.randrange(nits)
                    if rng.random() < 0.7 or nregs >= 4:
                        ops.append(['upd', r, s, 'it', it])
                    else:
                        ops.append(['new', 'it', it])
                        nregs += 1
                    continue
            if x < 0.25:
                ops.append(['add', r, s, k, v])
            elif x < 0.4:
                ops.append(['rem', r, s, k, v])
            elif x < 0.52:
                ops.append(['set', r, s, k, [rng.choice(ids) for _ in range(rng.randint(0, 4))],
                            rng.choice(['list', 'set', 'iter', 'frozenset'])])
            elif x < 0.6:
                ops.append(['del', r, s, k])
            elif x < 0.72:
                kind = rng.choice(['list', 'iter', 'dict', 'reg', 'reg'])
                if kind == 'reg':
                    ops.append(['upd', r, s, 'reg', [rng.randrange(nregs), rng.choice(SIDES)]])
                else:
                    ps = self.rpairs(rng, ids)
                    # a mapping written with a key twice holds the key once, with the last value
                    ops.append(['upd', r, s, kind, self.dedup_keys(ps) if kind == 'dict' and rng.random() < 0.5 else ps])
            elif x < 0.88:
                ops.append(['rep', r, s, k, v])
            elif nregs < 4:
                if rng.random() < 0.6:
                    ops.append(['new', 'reg', [r, s]])
                else:
                    ops.append(['new', rng.choice(['none', 'list', 'iter']), self.rpairs(rng, ids)])
                nregs += 1
            else:
                ops.append(['add', r, s, k, v])
        return {'t': 'm2m', 'ops': ops}

    @staticmethod
    def dedup_keys(ps):
        d = {}
        for k, v in ps:
            d[k] = v
        return [[k, v] for k, v in d.items()]

    def rfpairs(self, rng, ids, lo=0, hi=4, unh=0.15, tok=0.25, nest=0.08):
        small = [i for i in ids if i < 16] or [1]

        def v():
            x = rng.random()
            if x < unh:
                return ['u', rng.randrange(3)]
            if x < unh + tok:
                return ['t', rng.randrange(3)]
            if x < unh + tok + nest:
                # a FrozenDict as a value (one level): hashable iff its own values are
                def w():
                    y = rng.random()
                    return ['u', rng.randrange(3)] if y < unh / 2 else ['t', rng.randrange(3)] if y < 0.3 else ['h', rng.choice(small)]
                return ['f', [[rng.choice(small), w()] for _ in range(rng.randint(0, 3))]]
            return ['h', rng.choice(ids)]
        return [[rng.choice(ids), v()] for _ in range(rng.randint(lo, hi))]

    def random_fd(self, rng):
        ids = rng.choice([[1, 3], [1, 2, 3, 6], list(range(10))])
        items = self.rfpairs(rng, ids, 0, 5, unh=rng.choice([0, 0, 0.2]))
        ops = []
        dd = self.dedup_keys(items)
        for _ in range(rng.randint(1, 8)):
            x = rng.random()
            if x < 0.3:
                m = rng.choice(self.fd_mutators(ids))
                if rng.random() < 0.5:
                    k = rng.choice(ids)
                    m = rng.choice([['mut', 'setitem', k, ['h', rng.choice(ids)]], ['mut', 'delitem', k],
                                    ['mut', 'ior', self.rfpairs(rng, ids)], ['mut', 'update', self.rfpairs(rng, ids)],
                                    ['mut', 'setdefault', k, ['h', rng.choice(ids)]], ['mut', 'pop', k]])
                ops.append(m)
            elif x < 0.5:
                ops.append(['hash'])
            elif x < 0.7:
                other = list(dd)
                rng.shuffle(other)
                y = rng.random()
                if y < 0.25 and other:
                    other = other[:-1]
                elif y < 0.4:
                    other = other + self.rfpairs(rng, ids, 1, 1)
                ops.append(['eq', other, rng.choice(self.FD_ROUTES)] if rng.random() < 0.5 else ['eq', other])
            elif x < 0.82:
                ops.append(['updated', rng.choice(['dict', 'list', 'iter', 'kw']), self.rfpairs(rng, ids, 0, 3)])
            elif x < 0.95:
                ops.append(['copy', rng.choice(['copy', 'ccopy', 'deepcopy', 'deepcopy', 'pickle0', 'pickle2', 'pickle5']
                                               + (['xproc'] if self.thorough and rng.random() < 0.02 else []))])
            else:
                ops.append(['fromkeys', [rng.choice(ids) for _ in range(rng.randint(0, 3))], ['h', rng.choice(ids)]])
        for op in ops:
            if op[0] == 'updated' and op[1] == 'kw':
                op[2] = [[k, v] for k, v in self.dedup_keys(op[2]) if k in STR_IDS]
            if op[0] == 'updated' and op[1] == 'dict':
                op[2] = self.dedup_keys(op[2])
        return {'t': 'fd', 'items': items, 'ops': ops}

    # ------------------------------------------------------------------ model line
    @staticmethod
    def _ps(ps):
        return ','.join('%d:%d' % (k, v) for k, v in ps) or '-'

    @staticmethod
    def _fv(v):
        if v[0] == 't':
            return 'h%d' % (TOKEN_BASE + v[1])
        if v[0] == 'f':
            return '%s%d' % ('u' if funh(v) else 'h', fcode(v[1]))
        return '%s%d' % (v[0], v[1])

    def _fps(self, ps):
        return ','.join('%d:%s' % (k, self._fv(v)) for k, v in ps) or '-'

    def _argtok(self, kind, payload):
        if kind == 'none':
            return 'n'
        if kind in ('dict', 'odict'):
            return 'd' + self._ps(payload)
        if kind == 'list':
            return 'p' + self._ps(payload)
        if kind == 'iter':
            return 'j' + self._ps(payload)
        if kind == 'it':
            return 'i%d' % payload
        if kind == 'reg':
            return 'r%d.%s' % (payload[0], payload[1])
        raise ValueError(kind)

    def _flat(self, kind, ps, kw=()):
        """pairs an argument of this kind delivers (a dict argument cannot hold a key twice)"""
        ps = self.dedup_keys(ps) if kind in ('dict', 'odict') else [list(p) for p in ps]
        return ps + [list(p) for p in kw]

    def _obs_for(self, case):
        k = self.key(case)
        c = getattr(self, '_obs_cache', None)
        if c is None or c[0] != k:
            self.impl(case)
        return self._obs_cache[1]

    def line(self, case):
        t = case['t']
        toks = [t]
        if t == 'oto':
            obs = self._obs_for(case) if any(op[0] == 'popitem' for op in case['ops']) else None
            for n, op in enumerate(case['ops']):
                o = op[0]
                if o in ('new', 'uniq'):
                    c = 'N' if o == 'new' else 'Q'
                    if o == 'new' and op[1] == 'reg' and op[3]:
                        # OneToOne(other, **kw) with colliding values: WHICH key of a value survives depends on
                        # the iteration order of `other`, which the statement leaves open: the model is told which
                        # items the implementation's new instance holds and accepts any admissible outcome
                        # (`OTO.ofPairsAs`, theorem oto_ctor_any_spec), falling back to its own order otherwise
                        if obs is None:
                            obs = self._obs_for(case)
                        hint = None
                        if n < len(obs) and 'exc' not in obs[n] and obs[n].get('dump'):
                            fw = obs[n]['dump'][-1][0]
                            if all(isinstance(a, int) and isinstance(b, int) for a, b in fw):
                                hint = fw
                        if hint is not None:
                            toks.append('N/%s/%s/%s' % (self._argtok(op[1], op[2]), self._ps(op[3]), self._ps(hint)))
                            continue
                    # the argument travels RAW (kind + pairs as written): de-duplication of dict / keyword
                    # arguments and the one pass over an iterator are the model's business (Args.lean)
                    toks.append('%s/%s/%s' % (c, self._argtok(op[1], op[2]), self._ps(op[3])))
                elif o == 'mkiter':
                    toks.append('MI/' + self._ps(op[1]))
                elif o == 'next':
                    toks.append('NX/%d' % op[1])
                elif o == 'copy':
                    toks.append('C/%d/%s' % (op[1], op[2]))
                elif o == 'keep':
                    toks.append('K/%d/%s' % (op[1], op[2]))
                elif o == 'clone':
                    # in the model a clone is a new instance built from that side (the register gets one either way)
                    toks.append('N/r%d.%s/-' % (op[1], op[2]))
                elif o == 'set':
                    toks.append('S/%d/%s/%d/%d' % tuple(op[1:]))
                elif o == 'del':
                    toks.append('D/%d/%s/%d' % tuple(op[1:]))
                elif o in ('upd', 'ior'):
                    kw = op[5] if o == 'upd' else []
                    toks.append('U/%d/%s/%s/%s' % (op[1], op[2], self._argtok(op[3], op[4]), self._ps(kw)))
                elif o == 'sd':
                    toks.append('F/%d/%s/%d/%d' % (op[1], op[2], op[3], 0 if op[4] is None else op[4]))
                elif o == 'pop':
                    toks.append('P/%d/%s/%d/%s' % (op[1], op[2], op[3], '-' if op[4] is None else op[4]))
                elif o == 'popitem':
                    # which pair goes is the implementation's choice (the statement does not fix it): the model
                    # accepts any pair the instance holds, and falls back to dict's LIFO otherwise
                    r = obs[n].get('ret') if obs is not None and n < len(obs) and 'exc' not in obs[n] else None
                    hint = '/%d:%d' % tuple(r) if isinstance(r, list) and all(isinstance(z, int) for z in r) else ''
                    toks.append('I/%d/%s%s' % (op[1], op[2], hint))
                elif o == 'clear':
                    toks.append('L/%d/%s' % (op[1], op[2]))
                else:
                    return None
        elif t == 'm2m':
            toks.append('X/' + (','.join(map(str, self._m2m_probe(case))) or '-'))
            for op in case['ops']:
                o = op[0]
                if o == 'new':
                    # arguments travel raw (kind + pairs as written): Args.lean walks a mapping by keys, a list /
                    # iterator in one pass, and keeps the held iterators
                    toks.append('N/%s' % self._argtok(op[1], op[2]))
                elif o == 'mkiter':
                    toks.append('MI/' + self._ps(op[1]))
                elif o == 'next':
                    toks.append('NX/%d' % op[1])
                elif o == 'keep':
                    toks.append('K/%d/%s' % (op[1], op[2]))
                elif o == 'clone':
                    toks.append('N/r%d.%s' % (op[1], op[2]))
                elif o == 'add':
                    toks.append('A/%d/%s/%d/%d' % tuple(op[1:]))
                elif o == 'rem':
                    toks.append('R/%d/%s/%d/%d' % tuple(op[1:]))
                elif o == 'set':
                    toks.append('S/%d/%s/%d/%s' % (op[1], op[2], op[3], ','.join(map(str, op[4])) or '-'))
                elif o == 'del':
                    toks.append('D/%d/%s/%d' % tuple(op[1:]))
                elif o == 'upd':
                    toks.append('U/%d/%s/%s' % (op[1], op[2], self._argtok(op[3], op[4])))
                elif o == 'rep':
                    toks.append('P/%d/%s/%d/%d' % tuple(op[1:]))
                else:
                    return None
        else:
            toks.append('B/' + self._fps(case['items']))
            for op in case['ops']:
                o = op[0]
                if o == 'mut':
                    m = op[1]
                    if m in ('setitem', 'setdefault'):
                        toks.append('%s/%d/%s' % ('Ms' if m == 'setitem' else 'Mf', op[2], self._fv(op[3])))
                    elif m in ('delitem', 'pop'):
                        toks.append('%s/%d' % ('Md' if m == 'delitem' else 'Mp', op[2]))
                    elif m in ('ior', 'update'):
                        toks.append('%s/%s' % ('Mi' if m == 'ior' else 'Mu', self._fps(op[2])))
                    else:
                        toks.append('Mo' if m == 'popitem' else 'Mc')
                elif o == 'hash':
                    toks.append('H')
                elif o == 'eq':
                    toks.append('E/' + self._fps(op[1]) + ('/' + op[2] if len(op) > 2 else ''))
                elif o == 'updated':
                    toks.append('U/' + self._fps(op[2]))
                elif o == 'copy':
                    toks.append('Y')
                elif o == 'fromkeys':
                    toks.append('K/%s/%s' % (','.join(map(str, op[1])) or '-', self._fv(op[2])))
                else:
                    return None
        return ' '.join(toks)

    # ------------------------------------------------------------------ implementation
    def _arg(self, kind, ps, salt):
        pairs = mkpairs(ps, salt)
        if kind == 'dict':
            return dict(pairs)
        if kind == 'odict':
            return OrderedDict(pairs)
        if kind == 'list':
            return pairs
        if kind == 'iter':
            return one_shot(pairs)
        raise ValueError(kind)

    def impl(self, case):
        try:
            if case['t'] != 'fd' and any(op[0] == 'keep' for op in case['ops']):
                life_case_begins()
            with time_limit(10):
                obs = getattr(self, 'impl_' + case['t'])(case)
        except CaseTimeout:
            obs = [{'exc': 'CaseTimeout'}]
        except Exception as e:   # harness bug or an exception escaping the per-op guards
            obs = [{'exc': 'Escaped' + exc_name(e)}]
        self._obs_cache = (self.key(case), obs)
        return obs

    @staticmethod
    def _side(x, s):
        # x = Held(instance): calls "through .inv" go through the reference taken when the instance was created, as
        # a caller holding `inv = x.inv` would - unless the caller has let go of that variable (a `keep` command):
        # then through `.inv` of the half that is still held
        return x.side(s)

    @staticmethod
    def _wellformed(c, src, pairs):
        """is `c` (what copy / deepcopy / pickle made of `src`) a separate instance of the same class holding the
        same pairs, with an inverse of its own?"""
        try:
            ci = c.inv
            ps = lambda z: sorted(((oid(k), oid(v)) for k, v in pairs(z)), key=str)      # ==-aliases read alike
            return bool(type(c) is type(src) and c is not src and ci is not src.inv and ci is not src and ci.inv is c
                        and type(ci) is type(c) and ps(c) == ps(src)
                        and ps(ci) == sorted(((v, k) for k, v in ps(src)), key=str))
        except Exception:
            return False

    def _clone(self, cls, srcobj, how, rec, pairs):
        """copy.copy / copy.deepcopy / a pickle round trip of one half.  Not an operation of the statement: whether it
        raises, and what it returns, is not judged.  A result that IS a separate well-formed instance goes into the
        new register (and is from then on an instance like any other); otherwise the register gets `cls(src)`."""
        c = None
        try:
            c = clone_of(srcobj, how)
            rec['clone'] = 'ok' if self._wellformed(c, srcobj, pairs) else 'illformed'
        except CaseTimeout:
            raise
        except Exception as e:
            rec['clone'] = 'X' + exc_name(e)
        st = self.stats.setdefault('clone', {})
        key = '%s %s %s' % (cls.__name__, how, rec['clone'])
        st[key] = st.get(key, 0) + 1
        return c if rec['clone'] == 'ok' else cls(srcobj)

    def impl_oto(self, case):
        from boltons.dictutils import OneToOne
        regs, out = [], []
        its = []      # one-shot iterators the "caller" holds on to
        held = Held
        for n, op in enumerate(case['ops']):
            o, rec = op[0], {'ret': '-'}
            x = new = src = r = reg = None       # no reference to an instance survives from the previous command
            try:
                if o == 'mkiter':
                    its.append(one_shot(mkpairs(op[1], n)))
                elif o == 'next':
                    next(its[op[1]], None)
                elif o == 'keep':
                    reg = regs[op[1]]
                    if op[2] == 'none' and not reg.dead():
                        reg.last = self._oto_dump1(reg)
                    reg.keep(op[2])
                    reg = None
                    collect_now()
                    rec['ret'] = 'G1'
                elif o == 'clone':
                    try:
                        new = self._clone(OneToOne, self._side(regs[op[1]], op[2]), op[3], rec, lambda z: z.items())
                    finally:
                        regs.append(held(new if new is not None else OneToOne()))
                elif o in ('new', 'uniq'):
                    ctor = OneToOne if o == 'new' else OneToOne.unique
                    kw = {mk(k): mk(v, n) for k, v in op[3]}
                    new = None
                    try:
                        if op[1] == 'none':
                            new = ctor(**kw)
                        elif op[1] == 'reg':
                            new = ctor(self._side(regs[op[2][0]], op[2][1]), **kw)
                        elif op[1] == 'it':
                            new = ctor(its[op[2]], **kw)
                        else:
                            new = ctor(self._arg(op[1], op[2], n), **kw)
                    finally:
                        regs.append(held(new if new is not None else OneToOne()))
                elif o == 'copy':
                    regs.append(held(self._side(regs[op[1]], op[2]).copy()))
                else:
                    x = self._side(regs[op[1]], op[2])
                    if o == 'set':
                        x[mk(op[3], n)] = mk(op[4], n + 1)
                    elif o == 'del':
                        del x[mk(op[3], n)]
                    elif o in ('upd', 'ior'):
                        src = (self._side(regs[op[4][0]], op[4][1]) if op[3] == 'reg' else
                               its[op[4]] if op[3] == 'it' else self._arg(op[3], op[4], n))
                        if o == 'upd':
                            x.update(src, **{mk(k): mk(v, n) for k, v in op[5]})
                        else:
                            rec['same'] = operator.ior(x, src) is x
                    elif o == 'sd':
                        r = x.setdefault(mk(op[3], n)) if op[4] is None else x.setdefault(mk(op[3], n), mk(op[4], n + 1))
                        rec['ret'] = oid(r)
                    elif o == 'pop':
                        r = x.pop(mk(op[3], n)) if op[4] is None else x.pop(mk(op[3], n), mk(op[4], n + 1))
                        rec['ret'] = oid(r)
                    elif o == 'popitem':
                        k, v = x.popitem()
                        rec['ret'] = [oid(k), oid(v)]
                    elif o == 'clear':
                        x.clear()
            except CaseTimeout:
                raise
            except Exception as e:
                rec['exc'] = exc_name(e)
            x = new = src = r = reg = None
            try:
                rec['dump'] = [z.last if z.dead() else self._oto_dump1(z) for z in regs]
            except CaseTimeout:
                raise
            except Exception as e:
                rec['dumpexc'] = exc_name(e)
                rec['dump'] = []
            out.append(rec)
        return out

    @staticmethod
    def _oto_dump1(reg):
        x, xi = reg.side('f'), reg.side('i')
        return [[[oid(k), oid(v)] for k, v in x.items()], [[oid(k), oid(v)] for k, v in xi.items()],
                1 if (x.inv.inv is x and x.inv is xi and xi.inv is x) else 0, len(x), len(xi)]

    def _m2m_dump1(self, reg, probe):
        x, xi = reg.side('f'), reg.side('i')
        return [self._m2m_dump(x, probe), self._m2m_dump(xi, probe),
                1 if (x.inv.inv is x and x.inv is xi and xi.inv is x) else 0]

    @staticmethod
    def _m2m_item(x, k):
        try:
            return sorted(oid(v) for v in x[k])
        except KeyError:
            return 'X'

    def _m2m_dump(self, x, probe):
        keys = [oid(k) for k in x.keys()]
        return {'keys': keys, 'iter': [oid(k) for k in x], 'len': len(x),
                'grp': [[oid(k), sorted(oid(v) for v in x[k])] for k in x.keys()],
                'pairs': [[oid(k), oid(v)] for k, v in x.iteritems()],
                'get': [[i, sorted(oid(v) for v in x.get(mk(i, i)))] for i in probe],
                'has': [[i, 1 if mk(i, i + 1) in x else 0] for i in probe],
                'item': [[i, self._m2m_item(x, mk(i, i + 2))] for i in probe]}

    def _m2m_probe(self, case):
        # reader probes: every id the history mentions plus two it does not
        used = {i for i in self._ids_in(case['ops'], set()) if i < len(OBJ)}
        return sorted(used | set([i for i in range(NSMALL) if i not in used][:2]))

    @staticmethod
    def _ids_in(z, acc):
        if isinstance(z, int) and not isinstance(z, bool):
            acc.add(z)
        elif isinstance(z, list):
            for y in z:
                C17._ids_in(y, acc)
        return acc

    def impl_m2m(self, case):
        from boltons.dictutils import ManyToMany
        regs, out = [], []
        probe = self._m2m_probe(case)
        held = Held
        its = []      # one-shot iterators the "caller" holds on to
        for n, op in enumerate(case['ops']):
            o, rec = op[0], {'ret': '-'}
            x = new = vals = reg = None       # no reference to an instance survives from the previous command
            try:
                if o == 'mkiter':
                    its.append(one_shot(mkpairs(op[1], n)))
                elif o == 'next':
                    next(its[op[1]], None)
                elif o == 'keep':
                    reg = regs[op[1]]
                    if op[2] == 'none' and not reg.dead():
                        reg.last = self._m2m_dump1(reg, probe)
                    reg.keep(op[2])
                    reg = None
                    collect_now()
                    rec['ret'] = 'G1'
                elif o == 'clone':
                    try:
                        new = self._clone(ManyToMany, self._side(regs[op[1]], op[2]), op[3], rec, lambda z: z.iteritems())
                    finally:
                        regs.append(held(new if new is not None else ManyToMany()))
                elif o == 'new':
                    new = None
                    try:
                        if op[1] == 'none':
                            new = ManyToMany()
                        elif op[1] == 'reg':
                            new = ManyToMany(self._side(regs[op[2][0]], op[2][1]))
                        elif op[1] == 'it':
                            new = ManyToMany(its[op[2]])
                        else:
                            new = ManyToMany(self._arg(op[1], op[2], n))
                    finally:
                        regs.append(held(new if new is not None else ManyToMany()))
                else:
                    x = self._side(regs[op[1]], op[2])
                    if o == 'add':
                        x.add(mk(op[3], n), mk(op[4], n + 1))
                    elif o == 'rem':
                        x.remove(mk(op[3], n), mk(op[4], n + 1))
                    elif o == 'set':
                        vals = [mk(v, n + j) for j, v in enumerate(op[4])]
                        x[mk(op[3], n)] = {'list': list, 'set': set, 'iter': iter, 'frozenset': frozenset}[op[5]](vals)
                    elif o == 'del':
                        del x[mk(op[3], n)]
                    elif o == 'upd':
                        x.update(self._side(regs[op[4][0]], op[4][1]) if op[3] == 'reg' else
                                 its[op[4]] if op[3] == 'it' else self._arg(op[3], op[4], n))
                    elif o == 'rep':
                        x.replace(mk(op[3], n), mk(op[4], n + 1))
            except CaseTimeout:
                raise
            except Exception as e:
                rec['exc'] = exc_name(e)
            x = new = vals = reg = None
            try:
                rec['dump'] = [z.last if z.dead() else self._m2m_dump1(z, probe) for z in regs]
            except CaseTimeout:
                raise
            except Exception as e:
                rec['dumpexc'] = exc_name(e)
                rec['dump'] = []
            out.append(rec)
        return out

    @staticmethod
    def _fitems(d):
        return [[oid(k), fval(v)] for k, v in d.items()]

    @staticmethod
    def _hash(x):
        try:
            return hash(x)
        except Exception as e:
            return exc_name(e)

    XPROC_CHILD = (
        'import sys, json, pickle\n'
        'from bv.props import c17\n'
        'c17.EPOCH[0] = 1\n'
        'from boltons.dictutils import FrozenDict\n'
        'clone = pickle.loads(sys.stdin.buffer.read())\n'
        'twin = FrozenDict(list(clone.items()))\n'
        'print(json.dumps({"res": c17.C17._fitems(clone), "type": type(clone).__name__,\n'
        '                  "eqb": 1 if (clone == twin and twin == clone) else 0,\n'
        '                  "hb1": c17.C17._hash(clone), "hb2": c17.C17._hash(twin)}))\n')

    def _xproc(self, fd):
        """pickle here, unpickle in a fresh interpreter with another PYTHONHASHSEED; the child reports the
        clone's items, and hash(clone) vs hash(FrozenDict(clone.items())) as computed there"""
        import subprocess
        import sys
        seed = os.environ.get('PYTHONHASHSEED', '')
        env = dict(os.environ, PYTHONHASHSEED='4242' if seed != '4242' else '2424', PYTHONDONTWRITEBYTECODE='1',
                   PYTHONPATH=os.pathsep.join([REPO, os.path.join(os.path.dirname(__file__), '..', '..')]))
        p = subprocess.run([sys.executable, '-c', self.XPROC_CHILD], input=pickle.dumps(fd, 2), env=env,
                           stdout=subprocess.PIPE, stderr=subprocess.PIPE, timeout=60)
        if p.returncode != 0:
            return {'exc': 'ChildProcessError', 'msg': p.stderr.decode('utf-8', 'replace')[-300:]}
        import json as _json
        out = _json.loads(p.stdout.decode())
        out['eq'] = out['eqb']
        return out

    def _fd_route(self, FrozenDict, pairs, route):
        """a FrozenDict holding `pairs`, reached along `route`; hash() is called on every intermediate object so
        that whatever an implementation caches is there to be carried along"""
        if route == 'ctor':
            return FrozenDict(pairs)
        if route == 'fromdict':
            return FrozenDict(dict(pairs))
        if route == 'updated':
            o = FrozenDict()
            for pr in pairs:
                self._hash(o)
                o = o.updated([pr])
            return o
        if route == 'updated_all':
            o = FrozenDict()
            self._hash(o)
            return o.updated(iter(pairs))
        if route == 'overwrite':
            # every key first gets a placeholder value, which is then overwritten (same keys, same length)
            o = FrozenDict()
            for k, _ in pairs:
                self._hash(o)
                o = o.updated({k: 'placeholder'})
            for pr in pairs:
                self._hash(o)
                o = o.updated([pr])
            return o
        o = FrozenDict(pairs)
        self._hash(o)
        if route == 'pickle':
            return pickle.loads(pickle.dumps(o, 2))
        if route == 'deepcopy':
            return copy.deepcopy(o)
        if route == 'copy':
            return copy.copy(o)
        raise ValueError(route)

    def _derived(self, FrozenDict, res, rec):
        """a FrozenDict handed out by updated()/fromkeys(): against a fresh one built from ITS OWN items"""
        rec['res'] = self._fitems(res)
        rec['type'] = type(res).__name__
        twin = FrozenDict(list(reversed(list(res.items()))))
        rec['eqt'] = 1 if (res == twin and twin == res) else 0
        rec['hr'], rec['ht'], rec['hr2'] = self._hash(res), self._hash(twin), self._hash(res)

    def impl_fd(self, case):
        from boltons.dictutils import FrozenDict
        fd = FrozenDict([(mk(k, j), fmk(v, j + 1)) for j, (k, v) in enumerate(case['items'])])
        out = [{'items': self._fitems(fd)}]
        for n, op in enumerate(case['ops']):
            o, rec = op[0], {}
            try:
                if o == 'mut':
                    m = op[1]
                    if m == 'setitem':
                        fd[mk(op[2], n)] = fmk(op[3], n)
                        r = None
                    elif m == 'delitem':
                        del fd[mk(op[2], n)]
                        r = None
                    elif m == 'ior':
                        r = operator.ior(fd, dict((mk(k, n), fmk(v, n)) for k, v in op[2]))
                        r = None if r is fd else r
                    elif m == 'update':
                        r = fd.update([(mk(k, n), fmk(v, n)) for k, v in op[2]])
                    elif m == 'setdefault':
                        r = fd.setdefault(mk(op[2], n), fmk(op[3], n))
                    elif m == 'pop':
                        r = fd.pop(mk(op[2], n))
                    elif m == 'popitem':
                        r = fd.popitem()
                    else:
                        r = fd.clear()
                    rec['ret'] = '-' if r is None else '?'
                elif o == 'hash':
                    rec['h'] = self._hash(fd)
                elif o == 'eq':
                    other = self._fd_route(FrozenDict, [(mk(k, n + j), fmk(v, j)) for j, (k, v) in enumerate(op[1])],
                                           op[2] if len(op) > 2 else 'ctor')
                    rec['eq'] = 1 if (fd == other and other == fd and not (fd != other)) else 0
                    rec['otype'] = type(other).__name__
                    rec['h1'], rec['h2'] = self._hash(fd), self._hash(other)
                    rec['h2b'] = self._hash(other)
                elif o == 'updated':
                    ps = [(mk(k, n), fmk(v, n)) for k, v in op[2]]
                    if op[1] == 'kw':
                        res = fd.updated(**dict(ps))
                    else:
                        res = fd.updated({'dict': dict, 'list': list, 'iter': iter}[op[1]](ps))
                    self._derived(FrozenDict, res, rec)
                elif o == 'copy':
                    k = op[1]
                    rec['h1'] = self._hash(fd)        # the hash is computed (and cached) BEFORE the copy
                    if k == 'xproc':
                        rec.update(self._xproc(fd))
                    else:
                        def make():
                            if k == 'copy':
                                return fd.copy()
                            if k == 'ccopy':
                                return copy.copy(fd)
                            if k == 'deepcopy':
                                return copy.deepcopy(fd)
                            return pickle.loads(data)
                        data = pickle.dumps(fd, int(k[6:])) if k.startswith('pickle') else None
                        res = make()
                        rec['res'] = self._fitems(res)
                        rec['type'] = type(res).__name__
                        rec['eq'] = 1 if (res == fd and fd == res) else 0
                        if isinstance(res, FrozenDict):
                            # the clone against a fresh FrozenDict built from the clone's own items
                            rec['h2'], rec['h3'] = self._hash(res), self._hash(FrozenDict(list(res.items())))
                        if k == 'deepcopy' or k.startswith('pickle'):
                            # the same round trip with the clone coming to life where atoms hash differently
                            EPOCH[0] += 1
                            try:
                                res2 = make()
                                twin2 = FrozenDict(list(res2.items()))
                                rec['hb1'], rec['hb2'] = self._hash(res2), self._hash(twin2)
                                rec['eqb'] = 1 if (res2 == twin2 and twin2 == res2) else 0
                            finally:
                                EPOCH[0] -= 1
                elif o == 'fromkeys':
                    res = FrozenDict.fromkeys([mk(k, n) for k in op[1]], fmk(op[2], n))
                    self._derived(FrozenDict, res, rec)
            except CaseTimeout:
                raise
            except Exception as e:
                # "raises TypeError" = what `except TypeError` catches: a subclass is a TypeError too
                rec['exc'] = 'TypeError' if (o == 'mut' and isinstance(e, TypeError)) else exc_name(e)
            rec['items'] = self._fitems(fd)
            out.append(rec)
        return out

    # ------------------------------------------------------------------ canonical text
    @staticmethod
    def _key(z):
        return (isinstance(z, str), z)

    def _rp(self, ps):
        return ','.join('%s:%s' % (k, v) for k, v in ps) or '-'

    def _rfp(self, ps):
        return ','.join('%s:%s' % (k, self._fv(v) if (isinstance(v[1], int) or v[0] == 'f') else '%s%s' % (v[0], v[1]))
                        for k, v in ps) or '-'

    def _ret(self, rec):
        if 'exc' in rec:
            return 'X' + rec['exc']
        r = rec.get('ret', '-')
        if isinstance(r, list):
            return 'R%s:%s' % (r[0], r[1])
        return 'R%s' % (r,)

    @staticmethod
    def _derived_ok(rec):
        if rec.get('type') != 'FrozenDict':
            return 1      # the statement asks for an equal value, not for a particular type
        return 1 if (rec.get('eqt') and rec.get('hr') == rec.get('ht') == rec.get('hr2')) else 0

    def render(self, case, obs):
        t = case['t']
        recs = []
        if obs and 'exc' in obs[0] and 'dump' not in obs[0] and 'items' not in obs[0] and t != 'fd':
            return 'X' + obs[0]['exc']
        if t == 'oto':
            for rec in obs:
                parts = [self._ret(rec)]
                for d in rec.get('dump', []):
                    srt = lambda ps: sorted(ps, key=lambda p: (self._key(p[0]), self._key(p[1])))
                    parts.append('F%s/I%s' % (self._rp(srt(d[0])), self._rp(srt(d[1]))))
                recs.append('|'.join(parts))
        elif t == 'm2m':
            def grp(d):
                ents = sorted(d['grp'], key=lambda e: self._key(e[0]))
                return ','.join('%s=%s' % (k, '.'.join(map(str, vs)) or '-') for k, vs in ents) or '-'

            def prs(d):
                return self._rp(sorted(d['pairs'], key=lambda p: (self._key(p[0]), self._key(p[1]))))

            def srt(xs):
                return '.'.join(map(str, sorted(xs, key=self._key))) or '-'

            def rd(d):
                # the readers on the probe keys: len ~ keys() ~ get(k) ~ k in m ~ m[k] (X = KeyError)
                return '%d~%s~%s~%s~%s' % (d['len'], srt(d['keys']), ','.join(srt(g) for _, g in d['get']),
                                           ''.join(str(h) for _, h in d['has']),
                                           ','.join('X' if g == 'X' else srt(g) for _, g in d['item']))
            for rec in obs:
                parts = [self._ret(rec)]
                for d in rec.get('dump', []):
                    parts.append('F%s/P%s/I%s/Q%s/Z%s/z%s' % (grp(d[0]), prs(d[0]), grp(d[1]), prs(d[1]), rd(d[0]), rd(d[1])))
                # the model side runs two machines (heap-level and by-value) and says whether they agree (V1) and
                # whether every set object is referenced once only (S1); the implementation has nothing to add
                parts.append('V1S1')
                recs.append('|'.join(parts))
        else:
            if 'items' not in obs[0]:
                return 'X' + obs[0].get('exc', '?')
            recs.append('B' + self._rfp(obs[0]['items']))
            for op, rec in zip(case['ops'], obs[1:]):
                o = op[0]
                items = self._rfp(rec.get('items', []))
                if 'exc' in rec:
                    recs.append('X%s|%s' % (rec['exc'], items))
                elif o == 'mut':
                    recs.append('R%s|%s' % (rec['ret'], items))
                elif o == 'hash':
                    recs.append('%s|%s' % ('Hok' if isinstance(rec['h'], int) else 'X' + rec['h'], items))
                elif o == 'eq':
                    if not rec['eq']:
                        h = '-'
                    elif rec.get('otype', 'FrozenDict') != 'FrozenDict':
                        # a pickle / copy route that hands out some other equal mapping: the statement asks for an
                        # equal value, not for a type, and says nothing about that object's hash
                        h = '1' if isinstance(rec['h1'], int) else ('X' if rec['h1'] == 'FrozenHashError' else '0')
                    elif isinstance(rec['h1'], int) and isinstance(rec['h2'], int):
                        h = '1' if rec['h1'] == rec['h2'] else '0'
                    elif rec['h1'] == rec['h2'] == 'FrozenHashError':
                        h = 'X'
                    else:
                        h = '0'
                    recs.append('E%d/H%s|%s' % (rec['eq'], h, items))
                elif o == 'updated':
                    recs.append('T%s/T%d|%s' % (self._rfp(rec['res']), self._derived_ok(rec), items))
                elif o == 'copy':
                    ok = rec.get('h2') == rec.get('h3') and rec.get('hb1') == rec.get('hb2') and rec.get('eqb', 1)
                    recs.append('Y%s/T%d|%s' % (self._rfp(rec['res']), 1 if ok else 0, items))
                elif o == 'fromkeys':
                    recs.append('K%s/T%d|%s' % (self._rfp(rec['res']), self._derived_ok(rec), items))
        return ';'.join(recs) if recs else '-'

    # ------------------------------------------------------------------ oracle (independent of the model)
    # Reference semantics: a OneToOne is a finite SET of (key, value) pairs that is a bijection; a ManyToMany
    # is a finite set of pairs (a relation).  Nothing here looks at two dictionaries.
    def oracle(self, case, obs):
        self._nt = False
        if obs and 'exc' in obs[0] and 'dump' not in obs[0] and 'items' not in obs[0]:
            return Failure('raises', 'history aborted: %s' % obs[0]['exc'])
        f = getattr(self, 'oracle_' + case['t'])(case, obs)
        st = self.stats.setdefault(case['t'], {})
        st['cases'] = st.get('cases', 0) + 1
        for op in case['ops']:
            name = op[0] + ('/' + op[1] if op[0] == 'mut' else '')
            st[name] = st.get(name, 0) + 1
        return f

    @staticmethod
    def _oto_set(P, k, v):
        """the bijection after `x[k] = v`: the pair holding key k and the pair holding value v give way"""
        return {(a, b) for a, b in P if a != k and b != v} | {(k, v)}

    def _walk_any_order(self, before, stages, R):
        """the bijection after the stages: a 'seq' stage is applied in order; the items of an 'any' stage (a dict: keys
        unique) commute unless they carry the same value - then the last one applied keeps it, and the one chosen
        to be last is the one the observed result R shows (or one a later stage overwrites)"""
        P = set(before)
        for si, (kind, pairs) in enumerate(stages):
            order = pairs
            if kind == 'any':
                later = {k for _, pp in stages[si + 1:] for k, _ in pp}
                groups = OrderedDict()
                for k, v in pairs:
                    groups.setdefault(v, []).append(k)
                order = []
                for v, ks in groups.items():
                    win = next((k for k in ks if (k, v) in R), None)
                    if win is None:
                        win = next((k for k in ks if k in later), ks[0])
                    order += [[k, v] for k in ks if k != win] + [[win, v]]
            for k, v in order:
                P = self._oto_set(P, k, v)
        return P

    def _dictpairs(self, kind, ps, kw=()):
        d = {}
        for k, v in self._flat(kind, ps if kind != 'none' else [], kw):
            d[k] = v
        return d

    def oracle_oto(self, case, obs):
        refs = []      # per instance: set of (k, v), as seen from the forward side
        iters = []     # per held one-shot iterator: the pairs it still has to yield
        for n, op in enumerate(case['ops']):
            if n >= len(obs):
                return Failure('missing', 'no observation for %r' % (op,))
            rec, o = obs[n], op[0]
            exp_exc = None      # exception class the reference expects (None = must not raise)
            exp_ret = '-'
            tgt = None
            loose_ctor = None
            loose_upd = None
            # a held iterator hands what it has left to the ONE pass the callee makes, and is empty afterwards
            if o in ('new', 'uniq') and op[1] == 'it':
                left, iters[op[2]] = iters[op[2]], []
                op = [o, 'list', left, op[3]]
                self._nt = True
            elif o in ('upd', 'ior') and op[3] == 'it':
                left, iters[op[4]] = iters[op[4]], []
                op = op[:3] + ['list', left] + op[5:]
                self._nt = True
            clone_how = None
            if o == 'clone':
                # copy.copy / deepcopy / pickle of a half: the attempt itself is not judged (it may raise); the
                # register then holds an instance with the pairs of that side - and every OTHER instance, the
                # source included, must be what it was
                clone_how = op[3]
                o, op = 'new', ['new', 'reg', [op[1], op[2]], []]
                self._nt = True

            def flt(f, i):
                # an EXISTING instance is not what it was right after a clone attempt.  `copy` is among the operations
                # the statement lists for OneToOne, and copy.copy(x) is that operation through the standard protocol:
                # judged (own tag).  deepcopy / pickle are not operations of the statement: what they do to anything
                # is not judged - the rest of the history is then not judged either (the correspondence still compares)
                if clone_how is not None and i < len(refs) - 1:
                    if clone_how != 'ccopy':
                        return None
                    return Failure('clone_damages_source', '%s of a half of instance %d (outcome: %s) changed an existing '
                                   'instance: %s' % (clone_how, op[2][0], rec.get('clone'), f.what))
                return f
            if o == 'mkiter':
                iters.append([list(pr) for pr in op[1]])
            elif o == 'next':
                iters[op[1]] = iters[op[1]][1:]
            elif o == 'keep':
                # which of its references the caller keeps is no mutation: every instance still holds what it held,
                # read through whatever is left (the other half through `.inv`)
                exp_ret = 'G1'
                self._nt = True
            elif o in ('new', 'uniq'):
                if op[1] == 'reg':
                    src = refs[op[2][0]]
                    d = dict(src if op[2][1] == 'f' else {(b, a) for a, b in src})
                    for k, v in op[3]:
                        d[k] = v
                else:
                    d = self._dictpairs(op[1], op[2], op[3])
                injective = len(set(d.values())) == len(d)
                if injective:
                    refs.append(set(d.items()))
                elif o == 'uniq':
                    exp_exc = 'ValueError'
                    refs.append(set())
                else:
                    # the statement does not say which of several keys of one value survives construction
                    loose_ctor = d
                    refs.append(None)
                if len(d) > 1 or op[1] == 'reg':
                    self._nt = True
            elif o == 'copy':
                src = refs[op[1]]
                refs.append(set(src) if op[2] == 'f' else {(b, a) for a, b in src})
                self._nt = True
            else:
                tgt, inv = op[1], op[2] == 'i'
                P = refs[tgt]
                if inv:
                    P = {(b, a) for a, b in P}
                d = dict(P)
                if o == 'set':
                    if any((a == op[3]) != (b == op[4]) for a, b in P):
                        self._nt = True
                    P = self._oto_set(P, op[3], op[4])
                elif o == 'del':
                    if op[3] in d:
                        P = P - {(op[3], d[op[3]])}
                    else:
                        exp_exc = 'KeyError'
                elif o in ('upd', 'ior'):
                    if op[3] == 'reg':
                        src = refs[op[4][0]]
                        src = src if op[4][1] == 'f' else {(b, a) for a, b in src}
                        # the source is a bijection, so its pairs cannot evict each other: any order will do
                        ps = [list(p) for p in sorted(src, key=str)]
                        ps = ps + [list(p) for p in (op[5] if o == 'upd' else [])]
                        self._nt = True
                    else:
                        ps = self._flat(op[3], op[4], op[5] if o == 'upd' else [])
                    # the callee walks the positional argument, then the keyword items.  A dict (or the keyword
                    # dict) that carries ONE value under two keys: only one of them can keep it, and the statement
                    # does not say which - it depends on the order the callee walks that dict in
                    kwp = [list(x) for x in (op[5] if o == 'upd' else [])]
                    pos = [list(x) for x in ps[:len(ps) - len(kwp)]]
                    stages = [('any' if op[3] in ('dict', 'odict') else 'seq', pos), ('any', kwp)]
                    if any(kind == 'any' and len({v for _, v in pp}) != len(pp) for kind, pp in stages):
                        loose_upd = (set(P), stages, inv)
                        self._nt = True
                    for k, v in ps:
                        if any((a == k) != (b == v) for a, b in P):
                            self._nt = True
                        P = self._oto_set(P, k, v)
                    if o == 'ior' and 'exc' not in rec and not rec.get('same'):
                        return Failure('ior_identity', '`x |= arg` rebinds x to a different object (%r)' % (op,))
                elif o == 'sd':
                    if op[3] in d:
                        exp_ret = d[op[3]]
                    else:
                        v = 0 if op[4] is None else op[4]
                        if any(b == v for a, b in P):
                            self._nt = True
                        P = self._oto_set(P, op[3], v)
                        exp_ret = v
                elif o == 'pop':
                    if op[3] in d:
                        exp_ret = d[op[3]]
                        P = P - {(op[3], d[op[3]])}
                    elif op[4] is not None:
                        exp_ret = op[4]
                    else:
                        exp_exc = 'KeyError'
                elif o == 'popitem':
                    if not P:
                        exp_exc = 'KeyError'
                    else:
                        exp_ret = 'anypair'
                elif o == 'clear':
                    P = set()
                if o == 'popitem' and exp_exc is None and 'exc' not in rec:
                    r = rec.get('ret')
                    if not (isinstance(r, list) and tuple(r) in P):
                        return Failure('popitem', 'popitem returned %r, not one of the pairs %r' % (r, sorted(P)))
                    P = P - {tuple(r)}
                    exp_ret = r
                refs[tgt] = {(b, a) for a, b in P} if inv else P
            if exp_exc is not None:
                self._nt = True
            if clone_how not in (None, 'ccopy') and ('exc' in rec or 'dumpexc' in rec):
                return None     # a deepcopy / pickle attempt that leaves things unreadable: outside the statement
            # --- judge
            if 'exc' in rec and exp_exc is None:
                return Failure('raises', '%r raised %s' % (op, rec['exc']))
            if 'exc' in rec and rec['exc'] != exp_exc:
                return Failure('raises', '%r raised %s, expected %s' % (op, rec['exc'], exp_exc))
            if 'exc' not in rec and exp_exc is not None:
                return Failure('noraise', '%r did not raise %s' % (op, exp_exc))
            if 'dumpexc' in rec:
                return Failure('raises', 'reading the instances after %r raised %s' % (op, rec['dumpexc']))
            if exp_exc is None and rec.get('ret', '-') != exp_ret:
                return Failure('retval', '%r returned %r, expected %r' % (op, rec.get('ret'), exp_ret))
            if len(rec['dump']) != len(refs):
                return Failure('missing', 'instances %d, expected %d' % (len(rec['dump']), len(refs)))
            for i, (d, P) in enumerate(zip(rec['dump'], refs)):
                fw, iv, invinv, lf, li = d
                sf, si = {tuple(p) for p in fw}, {tuple(p) for p in iv}
                who = 'instance %d after %r' % (i, case['ops'][n] if clone_how else op)
                if len({k for k, _ in fw}) != len(fw) or len({k for k, _ in iv}) != len(iv) or lf != len(fw) or li != len(iv):
                    return flt(Failure('views', '%s: items()/len() inconsistent: %r %r' % (who, fw, iv)), i)
                if si != {(b, a) for a, b in sf} or len(fw) != len(iv):
                    return flt(Failure('not_inverse', '%s: forward %r and inverse %r are not exact inverses' % (who, fw, iv)), i)
                if not invinv:
                    return flt(Failure('inv_inv', '%s: x.inv.inv is not x (or x.inv is no longer the object it was)' % who), i)
                if P is None:
                    dd = loose_ctor
                    if not (sf <= set(dd.items()) and {b for _, b in sf} == set(dd.values())):
                        return flt(Failure('ctor', '%s: constructed %r from %r' % (who, fw, dd)), i)
                    refs[i] = P = sf
                elif loose_upd is not None and i == tgt and 'exc' not in rec and sf != P:
                    # not what walking each dict in its own order gives: walking it in another order is as good
                    before, stages, thru_inv = loose_upd
                    R = {(b, a) for a, b in sf} if thru_inv else sf
                    if self._walk_any_order(before, stages, R) == R:
                        refs[i] = P = sf
                if sf != P:
                    tag = 'effect' if i == tgt or tgt is None else 'isolation'
                    return flt(Failure(tag, '%s: holds %r, expected %r%s' % (
                        who, sorted(sf, key=str), sorted(P, key=str),
                        '' if tag == 'effect' else ' (changed by a mutation of another instance)')), i)
        return None

    def oracle_m2m(self, case, obs):
        refs = []      # per instance: set of (k, v) as seen from the forward side
        iters = []     # per held one-shot iterator: the pairs it still has to yield
        for n, op in enumerate(case['ops']):
            if n >= len(obs):
                return Failure('missing', 'no observation for %r' % (op,))
            rec, o = obs[n], op[0]
            exp_exc, tgt = None, None
            if o == 'new' and op[1] == 'it':
                left, iters[op[2]] = iters[op[2]], []
                op = ['new', 'list', left]
                self._nt = True
            elif o == 'upd' and op[3] == 'it':
                left, iters[op[4]] = iters[op[4]], []
                op = op[:3] + ['list', left]
                self._nt = True
            exp_ret = '-'
            cloning = o == 'clone'
            if o == 'clone':
                # copy.copy / deepcopy / pickle are not operations of the statement (ManyToMany has no copy in its
                # list): whether the attempt raises, what it returns and what it does to existing instances is not
                # judged; when an existing instance is no longer what it was the rest of the history is not judged
                # either (the correspondence still compares it with the model, in which a clone is ManyToMany(src))
                o, op = 'new', ['new', 'reg', [op[1], op[2]]]
            if o == 'mkiter':
                iters.append([list(pr) for pr in op[1]])
            elif o == 'next':
                iters[op[1]] = iters[op[1]][1:]
            elif o == 'keep':
                exp_ret = 'G1'
                self._nt = True
            elif o == 'new':
                if op[1] == 'reg':
                    src = refs[op[2][0]]
                    refs.append(set(src) if op[2][1] == 'f' else {(b, a) for a, b in src})
                    self._nt = True
                else:
                    refs.append({tuple(p) for p in self._flat(op[1], op[2] if op[1] != 'none' else [])})
            else:
                tgt, inv = op[1], op[2] == 'i'
                P = refs[tgt]
                if inv:
                    P = {(b, a) for a, b in P}
                if o == 'add':
                    P = P | {(op[3], op[4])}
                elif o == 'rem':
                    if (op[3], op[4]) in P:
                        P = P - {(op[3], op[4])}
                        if not any(a == op[3] for a, b in P) or not any(b == op[4] for a, b in P):
                            self._nt = True     # an entry became empty and must disappear
                    else:
                        exp_exc = 'KeyError'
                elif o == 'set':
                    if any(a == op[3] for a, b in P):
                        self._nt = True
                    P = {(a, b) for a, b in P if a != op[3]} | {(op[3], v) for v in op[4]}
                elif o == 'del':
                    if any(a == op[3] for a, b in P):
                        P = {(a, b) for a, b in P if a != op[3]}
                        self._nt = True
                    else:
                        exp_exc = 'KeyError'
                elif o == 'upd':
                    if op[3] == 'reg':
                        src = refs[op[4][0]]
                        P = P | (src if op[4][1] == 'f' else {(b, a) for a, b in src})
                        self._nt = True
                    else:
                        P = P | {tuple(p) for p in self._flat(op[3], op[4])}
                elif o == 'rep':
                    if op[3] != op[4] and any(a == op[3] for a, b in P) and any(a == op[4] for a, b in P):
                        self._nt = True
                    P = {(op[4] if a == op[3] else a, b) for a, b in P}
                refs[tgt] = {(b, a) for a, b in P} if inv else P
            if exp_exc is not None:
                self._nt = True
            if cloning and ('exc' in rec or 'dumpexc' in rec):
                return None     # a clone attempt that leaves things unreadable: outside the statement
            if 'exc' in rec and exp_exc is None:
                return Failure('raises', '%r raised %s' % (op, rec['exc']))
            if 'exc' in rec and rec['exc'] != exp_exc:
                return Failure('raises', '%r raised %s, expected %s' % (op, rec['exc'], exp_exc))
            if 'exc' not in rec and exp_exc is not None:
                return Failure('noraise', '%r did not raise %s' % (op, exp_exc))
            if 'dumpexc' in rec:
                return Failure('raises', 'reading the instances after %r raised %s' % (op, rec['dumpexc']))
            if rec.get('ret', '-') != exp_ret:
                return Failure('retval', '%r returned %r, expected %r' % (op, rec.get('ret'), exp_ret))
            if len(rec['dump']) != len(refs):
                return Failure('missing', 'instances %d, expected %d' % (len(rec['dump']), len(refs)))
            def flt(f, i):
                return None if (cloning and i < len(refs) - 1) else f
            for i, (d, P) in enumerate(zip(rec['dump'], refs)):
                who = 'instance %d after %r' % (i, case['ops'][n] if cloning else op)
                if not d[2]:
                    return flt(Failure('inv_inv', '%s: x.inv.inv is not x (or x.inv is no longer the object it was)' % who), i)
                sides = []
                for name, v in (('forward', d[0]), ('inverse', d[1])):
                    pairs = {tuple(p) for p in v['pairs']}
                    keys = v['keys']
                    grp = {k: vs for k, vs in v['grp']}
                    if any(not vs for vs in grp.values()):
                        return flt(Failure('empty_entry', '%s: %s side has an empty entry: %r' % (who, name, v['grp'])), i)
                    if len(pairs) != len(v['pairs']) or len(set(keys)) != len(keys) or v['len'] != len(keys) \
                            or v['iter'] != keys or pairs != {(k, x) for k, vs in v['grp'] for x in vs} \
                            or any(g != grp.get(j, []) for j, g in v['get']) \
                            or any(h != (1 if j in grp else 0) for j, h in v['has']):
                        return flt(Failure('views', '%s: %s side readers disagree with each other: %r' % (who, name, v)), i)
                    sides.append(pairs)
                if sides[1] != {(b, a) for a, b in sides[0]}:
                    return flt(Failure('not_transposed', '%s: forward pairs %r, inverse pairs %r' % (
                        who, sorted(sides[0], key=str), sorted(sides[1], key=str))), i)
                if sides[0] != P:
                    tag = 'effect' if i == tgt or tgt is None else 'isolation'
                    return flt(Failure(tag, '%s: holds %r, expected %r%s' % (
                        who, sorted(sides[0], key=str), sorted(P, key=str),
                        '' if tag == 'effect' else ' (changed by a mutation of another instance)')), i)
        return None

    def oracle_fd(self, case, obs):
        def val(v):
            if v[0] == 'f':
                return ('f', frozenset((k, x) for k, x in fcanon(v[1])))
            return (v[0], v[1])

        def unh(t):
            return t[0] == 'u' or (t[0] == 'f' and any(x[0] == 'u' for _, x in t[1]))
        ref = {}
        for k, v in case['items']:
            ref[k] = val(v)
        hashable = not any(unh(v) for v in ref.values())

        def asdict(items):
            return {k: val(v) for k, v in items}
        if 'items' not in obs[0] or asdict(obs[0]['items']) != ref or len(obs[0]['items']) != len(ref):
            return Failure('ctor', 'FrozenDict(%r) holds %r' % (case['items'], obs[0].get('items')))
        orig = obs[0]['items']
        seen_hash = None
        for n, op in enumerate(case['ops']):
            if n + 1 >= len(obs):
                return Failure('missing', 'no observation for %r' % (op,))
            rec, o = obs[n + 1], op[0]
            if rec.get('items') != orig:
                return Failure('mutated', 'after %r the FrozenDict holds %r, was %r' % (op, rec.get('items'), orig))
            if o == 'mut':
                self._nt = True
                if rec.get('exc') != 'TypeError':
                    return Failure('not_blocked', '%r %s instead of raising TypeError' % (
                        op, 'raised ' + rec['exc'] if 'exc' in rec else 'returned'))
                continue
            if 'exc' in rec:
                return Failure('raises', '%r raised %s' % (op, rec['exc']))
            if o == 'hash':
                h = rec['h']
                if hashable:
                    if not isinstance(h, int):
                        return Failure('hash', 'hash() raised %s on hashable contents' % h)
                    if seen_hash is not None and seen_hash != h:
                        return Failure('hash', 'hash() changed between calls')
                    seen_hash = h
                else:
                    self._nt = True
                    if h != 'FrozenHashError':
                        return Failure('hash_unhashable', 'hash() of unhashable contents gave %r, not FrozenHashError' % (h,))
            elif o == 'eq':
                other = {}
                for k, v in op[1]:
                    other[k] = val(v)
                want = 1 if other == ref else 0
                if rec['eq'] != want:
                    return Failure('eq', '== against %r is %r' % (op[1], rec['eq']))
                if want and rec.get('otype', 'FrozenDict') == 'FrozenDict':
                    if [k for k, _ in op[1]] != [k for k, _ in orig]:
                        self._nt = True
                    if hashable:
                        if not (isinstance(rec['h1'], int) and rec['h1'] == rec['h2'] == rec['h2b']):
                            return Failure('hash_order', 'equal FrozenDicts hash %r and %r (items %r vs %r)' % (
                                rec['h1'], rec['h2'], orig, op[1]))
                    elif not (rec['h1'] == rec['h2'] == rec['h2b'] == 'FrozenHashError'):
                        return Failure('hash_unhashable', 'unhashable contents: hash gave %r / %r / %r' % (
                            rec['h1'], rec['h2'], rec['h2b']))
                if hashable and isinstance(rec['h1'], int):
                    if seen_hash is not None and seen_hash != rec['h1']:
                        return Failure('hash', 'hash() changed between calls')
                    seen_hash = rec['h1']
            elif o == 'updated':
                want = dict(ref)
                for k, v in op[2]:
                    want[k] = val(v)
                if asdict(rec['res']) != want or len(rec['res']) != len(want):
                    return Failure('updated', 'updated(%r) = %r' % (op[2], rec['res']))
                self._nt = self._nt or bool(op[2])
                f = self._derived_oracle('updated(%r)' % (op[2],), rec, not any(unh(v) for v in want.values()))
                if f:
                    return f
            elif o == 'copy':
                if asdict(rec['res']) != ref or len(rec['res']) != len(ref) or not rec['eq']:
                    return Failure('copy', '%s gives %r (== original: %r)' % (op[1], rec['res'], rec['eq']))
                if 'h2' in rec and hashable and not (isinstance(rec['h1'], int) and rec['h1'] == rec['h2']):
                    return Failure('hash_order', '%s: hash of the copy %r, of the original %r' % (op[1], rec['h2'], rec['h1']))
                if 'h2' in rec and not hashable and not (rec['h1'] == rec['h2'] == 'FrozenHashError'):
                    return Failure('hash_unhashable', '%s: hash gave %r / %r' % (op[1], rec['h1'], rec['h2']))
                # the result must be content-hashed like any FrozenDict: its hash is the hash of a fresh
                # FrozenDict built from ITS OWN items - here, and where the atoms hash differently
                if 'h3' in rec and rec['h2'] != rec['h3']:
                    return Failure('hash_clone', '%s (hash computed before): hash(clone)=%r but FrozenDict(clone.items()) '
                                   'hashes %r' % (op[1], rec['h2'], rec['h3']))
                if 'hb1' in rec:
                    self._nt = True
                    if not rec['eqb']:
                        return Failure('copy', '%s: clone != FrozenDict(clone.items())' % op[1])
                    if rec['hb1'] != rec['hb2']:
                        return Failure('hash_clone', '%s of a FrozenDict whose hash was already computed, clone created where '
                                       'atoms hash differently (other process / hash seed): hash(clone)=%r but the equal '
                                       'FrozenDict(clone.items()) hashes %r' % (op[1], rec['hb1'], rec['hb2']))
            elif o == 'fromkeys':
                want = {k: val(op[2]) for k in op[1]}
                if asdict(rec['res']) != want or len(rec['res']) != len(want):
                    return Failure('fromkeys', 'fromkeys(%r, %r) = %r' % (op[1], op[2], rec['res']))
                f = self._derived_oracle('fromkeys(%r, %r)' % (op[1], op[2]), rec, not funh(op[2]) or not op[1])
                if f:
                    return f
        return None

    @staticmethod
    def _derived_oracle(what, rec, hashable):
        """the FrozenDict handed out by updated()/fromkeys() equals a fresh FrozenDict built from its own items, so
        the two must hash alike (or both raise FrozenHashError), whatever the original had cached"""
        if rec.get('type') != 'FrozenDict':
            return None
        if not rec['eqt']:
            return Failure('updated', '%s != FrozenDict(list(its items))' % what)
        if hashable:
            if not (isinstance(rec['hr'], int) and rec['hr'] == rec['ht'] == rec['hr2']):
                return Failure('hash_derived', '%s hashes %r (again: %r) but the equal FrozenDict built from its items '
                               'hashes %r' % (what, rec['hr'], rec['hr2'], rec['ht']))
        elif not (rec['hr'] == rec['ht'] == rec['hr2'] == 'FrozenHashError'):
            return Failure('hash_unhashable', '%s with an unhashable value: hash gave %r / %r / %r' % (
                what, rec['hr'], rec['ht'], rec['hr2']))
        return None

    # known finding (until the fix: commit of branch r5-c17-work is in the checked tree): copy.copy() of a OneToOne
    # half replays the items into an object whose `.inv` is the SOURCE's inverse - the source loses a pair on one
    # side, then RuntimeError.  Matched only on that call, that outcome, and a damaged existing instance
    def finding_oto_copy_module_damages_source(self, case, failure):
        return (case.get('t') == 'oto' and failure.tag == 'clone_damages_source'
                and failure.what.startswith('ccopy of a half') and '(outcome: XRuntimeError)' in failure.what)

    def nontrivial(self, case, obs):
        return getattr(self, '_nt', False)

    # ------------------------------------------------------------------ shrinking
    def shrink(self, case):
        ops = case['ops']
        first = 0 if case['t'] == 'fd' else 1
        nregs_ops = ('new', 'uniq', 'copy', 'clone')
        for i in range(len(ops) - 1, first - 1, -1):
            if ops[i][0] == 'mkiter':
                continue      # later commands name iterators by position
            if case['t'] != 'fd' and ops[i][0] in nregs_ops:
                # dropping a constructor renumbers later registers: only drop it when nothing after refers to it
                idx = sum(1 for o in ops[:i] if o[0] in nregs_ops)
                if any(self._refs(o, idx) for o in ops[i + 1:]):
                    continue
                rest = [self._renum(o, idx) for o in ops[i + 1:]]
                yield dict(case, ops=ops[:i] + rest)
            else:
                yield dict(case, ops=ops[:i] + ops[i + 1:])
        if case['t'] == 'fd' and case['items']:
            for i in range(len(case['items'])):
                yield dict(case, items=case['items'][:i] + case['items'][i + 1:])
        for i, op in enumerate(ops):
            for j, a in enumerate(op):
                if isinstance(a, list) and a and isinstance(a[0], list):
                    for m in range(len(a)):
                        yield dict(case, ops=ops[:i] + [op[:j] + [a[:m] + a[m + 1:]] + op[j + 1:]] + ops[i + 1:])
                if a in ('iter', 'odict', 'set', 'frozenset') and op[0] != 'copy':
                    yield dict(case, ops=ops[:i] + [op[:j] + ['list'] + op[j + 1:]] + ops[i + 1:])

    @staticmethod
    def _refs(op, idx):
        if op[0] in ('mkiter', 'next'):
            return False
        if op[0] in ('new', 'uniq'):
            return op[1] == 'reg' and op[2][0] >= idx and op[2][0] == idx
        if op[0] in ('copy', 'clone'):
            return op[1] == idx
        if op[1] == idx:
            return True
        return op[0] in ('upd', 'ior') and op[3] == 'reg' and op[4][0] == idx

    @staticmethod
    def _renum(op, idx):
        op = [list(a) if isinstance(a, list) else a for a in op]
        if op[0] in ('mkiter', 'next'):
            return op
        if op[0] in ('new', 'uniq'):
            if op[1] == 'reg' and op[2][0] > idx:
                op[2][0] -= 1
            return op
        if isinstance(op[1], int) and op[1] > idx:
            op[1] -= 1
        if op[0] in ('upd', 'ior') and op[3] == 'reg' and op[4][0] > idx:
            op[4][0] -= 1
        return op


PROPERTY = C17
