"""C04 - atomic_save never exposes a partially written destination, at any crash point.

Tie = ACCEPTANCE: every case runs the real `atomic_save` under the fsspy recorder, maps the recorded
calls to the abstract events of the Lean model and sends the OBSERVED trace to the Lean driver, which
evaluates the decidable predicate `C04.SafeTrace` on it (the predicate the theorem
`safeTrace_crash_safe` is about) and executes the trace on the abstract file system, reporting what a
reader of the destination finds after a process death at every prefix and whether every power-loss
outcome is old-or-new.  The same save is then really killed (child process, os._exit immediately
before call k, for every k, and after the last one) and the destination is inspected by the parent.
The real kill outcomes must equal the model's `proc` string, and `safe=1 exec=ok power=ok` must hold.

The oracle restates C04 directly on the observed trace and the kill results.
"""
import itertools
import json
import os
import re
import shutil
import stat
import subprocess
import sys
import tempfile

from bv.common import Property, Failure, time_limit, exc_name, CaseTimeout, Driver
from bv.props.fsspy import Spy

DEST = 'dest.txt'
PART = 'dest.txt.part'


class BodyError(Exception):
    pass


class BodyBase(BaseException):
    pass


# errnos injected per call (C04 only needs "the call failed"; two values where the code might look at errno)
FAULT_ERRNO = {'os.fsync': (5, 28), 'file.flush': (28,), 'file.close': (28, 5), 'file.write': (28,), 'os.rename': (18, 13),
               'os.link': (17, 31), 'os.open': (28,), 'os.fdopen': (12,), 'os.chmod': (1,), 'os.unlink': (1,), 'os.stat': (13,)}

# how the with-block is left: 0 normally, 1 an Exception, 2-5 BaseExceptions that are not Exceptions
RAISE = {1: BodyError, 2: KeyboardInterrupt, 3: SystemExit, 4: GeneratorExit, 5: BodyBase}
BODY_EXC = (BodyError, BodyBase, KeyboardInterrupt, SystemExit, GeneratorExit)


# the save as run under `strace -f` (syscall view): argv = repo, dest, json(case)
SYS_CHILD = r"""
import sys, os, json
sys.path.insert(0, sys.argv[1])
import boltons.fileutils as fu
dest, case = sys.argv[2], json.loads(sys.argv[3])
kw = {}
for name, key, default in (('overwrite', 'ow', 1), ('overwrite_part', 'owp', 0), ('rm_part_on_exc', 'rm', 1), ('text_mode', 'txt', 0)):
    if case[key] != default:
        kw[name] = bool(case[key])
if case['perms'] is not None:
    kw['file_perms'] = case['perms']
if case.get('buffering', -1) != -1 and not (case['txt'] and case['buffering'] == 0):
    kw['buffering'] = case['buffering']
class BodyError(Exception): pass
class BodyBase(BaseException): pass
RAISE = {1: BodyError, 2: KeyboardInterrupt, 3: SystemExit, 4: GeneratorExit, 5: BodyBase}
os.umask(case['umask'])
os.write(2, b'BV-MARK-BEGIN')
try:
    with fu.atomic_save(dest, **kw) as f:
        for n in case['sizes']:
            f.write('\x01' * n if case['txt'] else b'\x01' * n)
        post = case.get('post')
        if post in ('seek0', 'readback'):
            f.seek(0)
        if post == 'readback':
            f.read()
            f.seek(0)
        if post == 'tell':
            f.tell()
        if case['raises']:
            raise RAISE[case['raises']]()
    out = 'ok'
except (BodyError, BodyBase, KeyboardInterrupt, SystemExit, GeneratorExit):
    out = 'body'
except OSError as e:
    out = 'os:%s' % e.errno
except Exception as e:
    out = 'exc:' + type(e).__name__
os.write(2, b'BV-MARK-END')
print(out)
"""
SYS_TRACE = ('openat,open,creat,write,pwrite64,writev,fsync,fdatasync,sync_file_range,close,rename,renameat,renameat2,'
             'link,linkat,symlink,symlinkat,unlink,unlinkat,chmod,fchmod,fchmodat,truncate,ftruncate,copy_file_range,sendfile')
_SYS_LINE = re.compile(r'^\d+\s+(\w+)\((.*)\)\s+=\s+(-?\d+)')
_STR = re.compile(r'"((?:[^"\\]|\\.)*)"')


def sys_events(text, dest):
    """map the strace lines between the markers to abstract events (same vocabulary as fsspy.events)"""
    lines = text.splitlines()
    try:
        a = next(i for i, l in enumerate(lines) if 'BV-MARK-BEGIN' in l)
        b = next(i for i, l in enumerate(lines) if 'BV-MARK-END' in l)
    except StopIteration:
        return None
    fdpath, fdwr = {}, {}
    part = [None]
    evs, calls = [], []
    # first pass: the part file is the first non-destination path opened for writing
    for l in lines[a + 1:b]:
        m = _SYS_LINE.match(l)
        if m and m.group(1) in ('openat', 'open', 'creat') and ('O_WRONLY' in m.group(2) or 'O_RDWR' in m.group(2) or m.group(1) == 'creat'):
            ps = _STR.findall(m.group(2))
            if ps and os.path.abspath(ps[0].encode().decode('unicode_escape')) != dest:
                part[0] = os.path.abspath(ps[0].encode().decode('unicode_escape'))
                break

    def role(p):
        if p == dest:
            return 'dest'
        if part[0] is not None and p == part[0]:
            return 'part'
        return 'other'
    for l in lines[a + 1:b]:
        if 'unfinished' in l or 'resumed' in l:
            evs.append('?')
            calls.append(l)
            continue
        m = _SYS_LINE.match(l)
        if not m:
            continue
        name, args, ret = m.group(1), m.group(2), int(m.group(3))
        paths = [os.path.abspath(x.encode().decode('unicode_escape')) for x in _STR.findall(args)] if name not in ('write', 'pwrite64', 'writev') else []
        ev = None
        if name in ('openat', 'open', 'creat'):
            p = paths[0] if paths else '?'
            wr = ('O_WRONLY' in args or 'O_RDWR' in args or name == 'creat')
            if ret >= 0:
                fdpath[ret], fdwr[ret] = p, wr
            if not wr:
                continue                      # read-only opens (imports, ...) are not events
            if ret < 0:
                ev = 'n'
            elif p == dest:
                ev = 'T' if ('O_TRUNC' in args or name == 'creat') else '?'
            else:
                if part[0] is None:
                    part[0] = p
                if role(p) != 'part':
                    continue
                if 'O_CREAT' not in args or 'O_TRUNC' in args:
                    ev = '?'
                else:
                    mm = re.search(r',\s*(0[0-7]*)\s*$', args)
                    mode = int(mm.group(1), 8) if mm else 0
                    ev = 'o%d%d:%d' % ('O_EXCL' in args, os.path.dirname(p) == os.path.dirname(dest), mode)
        elif name in ('write', 'pwrite64', 'writev', 'fsync', 'fdatasync', 'close', 'fchmod', 'ftruncate', 'sync_file_range'):
            fd = int(args.split(',')[0])
            p = fdpath.get(fd)
            if name == 'close':
                fdpath.pop(fd, None)
            if p is None or not fdwr.get(fd) or role(p) == 'other':
                continue
            r = role(p)
            if ret < 0:
                ev = 'n'
            elif name in ('write', 'pwrite64', 'writev'):
                ev = ('w%d f' % ret) if r == 'part' else 'W%d' % ret      # a write syscall is in the page cache at once
            elif name in ('fsync', 'fdatasync'):
                ev = 's' if r == 'part' else 'n'
            elif name == 'close':
                ev = 'xf' if r == 'part' else 'n'
            elif name == 'fchmod':
                mm = re.search(r',\s*(0[0-7]*)\s*$', args)
                ev = ('c%d' % int(mm.group(1), 8)) if (r == 'part' and mm) else '?'
            else:
                ev = '?'
        else:
            rs = [role(p) for p in paths]
            if not any(r in ('dest', 'part') for r in rs):
                continue
            if ret < 0:
                ev = 'n'
            elif name in ('rename', 'renameat', 'renameat2'):
                ev = 'R' if rs[:2] == ['part', 'dest'] else '?'
            elif name in ('link', 'linkat'):
                ev = 'L' if rs[:2] == ['part', 'dest'] else '?'
            elif name in ('unlink', 'unlinkat'):
                ev = 'U' if rs[0] == 'part' else 'D'
            elif name in ('chmod', 'fchmodat'):
                mm = re.search(r',\s*(0[0-7]*)\s*(?:,\s*\w+)?$', args)
                ev = ('c%d' % int(mm.group(1), 8)) if (rs[0] == 'part' and mm) else '?'
            else:
                ev = '?'
        for tok in ev.split():
            evs.append(tok)
            calls.append(name)
    return evs, calls


def classify(old, new, cur):
    """a absent, o old content, n new content, b both (old == new), X anything else"""
    if cur is None:
        return 'a'
    if old is not None and cur == old:
        return 'b' if cur == new else 'o'
    return 'n' if cur == new else 'X'


class C04(Property):
    PID = 'C04'
    QUICK_BUDGET_S = 40
    THOROUGH_BUDGET_S = 600
    RULE = ('a case is one whole save: overwrite on/off x destination absent/present x text/binary x write pattern '
            '(none, one, many, large) x block raises or not, plus stale-part/overwrite_part, file_perms, '
            'rm_part_on_exc=False, buffering=0, bodies that rewind / read back / tell after writing, blocks left '
            'through KeyboardInterrupt / SystemExit / GeneratorExit / another BaseException, one injected OS failure at '
            'every call of three (thorough: 48) base saves, and (seeded) random write patterns. For each case the recorded event '
            'trace is judged by the Lean SafeTrace predicate and the save is re-run in a child process that is killed '
            'immediately before every recorded call (and after the last). Non-trivial = the trace contains a '
            'publishing event and at least one kill point on each side of it; distinct = distinct case.')
    ASSUMPTIONS = ['process death is exhibited for real (os._exit in a child at every recorded call); power loss '
                   'cannot be exhibited: it is covered only by the theorem over the abstract file system '
                   '(fsync makes the page cache durable; rename/link are atomic; directory operations reach the disk in order)',
                   'kill points are the recorded calls (os.*, file.write/flush/close); a death inside a call is '
                   'covered by the model only through the atomicity of the kernel operations',
                   'POSIX branch of atomic_rename/replace']
    CORRESPONDENCE_NAME = ('C04.Driver: SafeTrace acceptance of the observed event trace + model process-death outcomes '
                           'vs real kill-at-every-call outcomes of boltons.fileutils.atomic_save')

    def __init__(self, tier, seed):
        super().__init__(tier, seed)
        self._cache = {}

    # ------------------------------------------------------------------ translator hook
    def regen(self):
        """constants of the current source the model relies on: the open flags of the part file"""
        import boltons.fileutils as fu
        txt, binf = fu._TEXT_OPENFLAGS, fu._BIN_OPENFLAGS
        def b(x):
            return 'true' if x else 'false'
        src = ('/- generated by harness/bv/props/c04.py regen() from boltons/fileutils.py - do not edit -/\n'
               'namespace C04.Gen\n'
               'def textFlagsExcl : Bool := %s\ndef textFlagsCreat : Bool := %s\ndef textFlagsTrunc : Bool := %s\n'
               'def binFlagsExcl : Bool := %s\ndef binFlagsCreat : Bool := %s\ndef binFlagsTrunc : Bool := %s\n'
               'end C04.Gen\n') % (b(txt & os.O_EXCL), b(txt & os.O_CREAT), b(txt & os.O_TRUNC),
                                    b(binf & os.O_EXCL), b(binf & os.O_CREAT), b(binf & os.O_TRUNC))
        return {'C04_Consts.lean': src}

    # ------------------------------------------------------------------ generation
    PATTERNS = {'none': [], 'one': [5], 'many': [3, 1, 4, 1, 5, 9, 2, 6], 'large': [300000]}

    def cases(self, budget_s):
        rng = self.rng
        base = dict(ow=1, owp=0, rm=1, txt=0, perms=None, umask=0o022, dest=None, part=0, raises=0, sizes=[5], buffering=-1)
        for ow, dest, txt, pat, raises in itertools.product((1, 0), (None, [0o644, 11]), (0, 1), ('none', 'one', 'many', 'large'), (0, 1)):
            yield dict(base, ow=ow, dest=dest, txt=txt, sizes=self.PATTERNS[pat], raises=raises)
        # stale part file, explicit permissions, rm_part_on_exc off, unbuffered
        for dest in (None, [0o600, 4]):
            yield dict(base, dest=dest, part=1, owp=1)
            yield dict(base, dest=dest, part=1, owp=0)
            yield dict(base, dest=dest, perms=0o600)
            yield dict(base, dest=dest, perms=0o644, ow=0)
            yield dict(base, dest=dest, rm=0, raises=1)
            yield dict(base, dest=dest, buffering=0, sizes=[4, 70000, 1])
            yield dict(base, dest=dest, sizes=[8192, 8192, 1], txt=1)
        # bodies that do more than write: rewind, read back what they wrote, ask for the position
        for dest, txt, post, sizes in itertools.product((None, [0o644, 11]), (0, 1), ('seek0', 'readback', 'tell'), ([5], [3, 70000], [])):
            yield dict(base, dest=dest, txt=txt, post=post, sizes=sizes)
        yield dict(base, dest=[0o644, 11], ow=0, post='seek0')
        yield dict(base, dest=[0o644, 11], post='readback', raises=1)
        # the with-block left through a BaseException that is not an Exception (Ctrl-C, sys.exit(), generator close)
        for dest, raises, sizes in itertools.product((None, [0o644, 11]), (2, 3, 4, 5), ([5], [3, 70000])):
            yield dict(base, dest=dest, raises=raises, sizes=sizes)
        yield dict(base, dest=[0o644, 11], ow=0, raises=2)
        yield dict(base, dest=None, txt=1, raises=3, rm=0)
        # one operating-system failure at every call of the save (the destination must stay old-or-complete-new,
        # and a failed flush / fsync / close must not be followed by publication)
        fbases = [dict(base, dest=[0o644, 11]), dict(base, dest=None, ow=0, sizes=[3, 4]), dict(base, dest=[0o600, 4], txt=1, perms=0o640, sizes=[70000])]
        if self.thorough:
            fbases += [dict(base, ow=ow, dest=dest, txt=txt, sizes=sizes, raises=raises) for ow, dest, txt, sizes, raises in
                       itertools.product((1, 0), (None, [0o644, 11]), (0, 1), ([], [5], [3, 1, 70000]), (0, 1, 2))]
        for fb in fbases:
            calls = self.impl(fb, kills=False)['calls']
            for k, name in enumerate(calls):
                for e in FAULT_ERRNO.get(name, (5,)):
                    yield dict(fb, fault=[k, e])
        # old content == new content, empty old file
        yield dict(base, dest=[0o644, 5], sizes=[5])
        yield dict(base, dest=[0o644, 0], sizes=[])
        yield dict(base, dest=[0o644, 0], sizes=[2])
        # syscall view (strace -f): the same acceptance on what the kernel saw
        sys_cases = [dict(base, dest=None, sizes=[5, 70000]), dict(base, dest=[0o644, 11], ow=0, sizes=[3]),
                     dict(base, dest=[0o600, 4], txt=1, sizes=[2, 2], raises=1), dict(base, dest=[0o644, 11], perms=0o600, part=1, owp=1)]
        if self.thorough:
            sys_cases += [dict(base, ow=ow, dest=dest, txt=txt, sizes=self.PATTERNS[pat], raises=raises)
                          for ow, dest, txt, pat, raises in itertools.product((1, 0), (None, [0o644, 11]), (0, 1), ('none', 'one', 'many', 'large'), (0, 1))]
        if self.have_strace():
            for c in sys_cases:
                yield dict(c, kind='sys')
        n = 800 if self.thorough else 60
        for i in range(n):
            k = rng.choice([0, 1, 2, 3, 5, 8, 20] + ([200] if self.thorough and i % 10 == 0 else []))
            sizes = [rng.choice([0, 1, 2, 7, 100, 4096, 8192, 8193, 70000]) for _ in range(k)]
            if self.thorough and i % 25 == 0:
                sizes.append(5_000_000)
            yield dict(base, ow=rng.randrange(2), owp=rng.randrange(2), rm=rng.randrange(2), txt=rng.randrange(2),
                       perms=rng.choice([None, 0o600, 0o640, 0]), umask=rng.choice([0o022, 0o077, 0]),
                       dest=rng.choice([None, [0o644, 11], [0o600, 3]]), part=rng.randrange(2),
                       raises=rng.choice([1, 1, 2, 3, 4, 5]) if rng.random() < 0.3 else 0, sizes=sizes, buffering=rng.choice([-1, -1, -1, 0, 16]),
                       post=rng.choice([None, None, None, 'seek0', 'readback', 'tell']))

    def deep_cases(self, budget_s):
        for c in self.cases(budget_s):
            yield c
        rng = self.rng
        base = dict(ow=1, owp=0, rm=1, txt=0, perms=None, umask=0o022, dest=None, part=0, raises=0, sizes=[5], buffering=-1)
        while True:
            sizes = [rng.choice([0, 1, 2, 7, 100, 4096, 8192, 8193, 70000]) for _ in range(rng.choice([0, 1, 2, 3, 5, 8]))]
            yield dict(base, ow=rng.randrange(2), owp=rng.randrange(2), rm=rng.randrange(2), txt=rng.randrange(2),
                       perms=rng.choice([None, 0o600, 0o640, 0]), umask=rng.choice([0o022, 0o077, 0]),
                       dest=rng.choice([None, [0o644, 11], [0o600, 3]]), part=rng.randrange(2),
                       raises=rng.choice([1, 2, 3, 4, 5]) if rng.random() < 0.3 else 0, sizes=sizes, buffering=rng.choice([-1, -1, 0, 16]),
                       post=rng.choice([None, None, 'seek0', 'readback', 'tell']))

    # ------------------------------------------------------------------ running the real code
    @staticmethod
    def contents(case):
        old = None if case['dest'] is None else b'\x07' * case['dest'][1]
        new = b'\x01' * sum(case['sizes'])
        return old, new

    def prepare(self, case):
        d = tempfile.mkdtemp(prefix='bvC04-')
        dest = os.path.join(d, DEST)
        if case['dest'] is not None:
            with open(dest, 'wb') as f:
                f.write(b'\x07' * case['dest'][1])
            os.chmod(dest, case['dest'][0])
        if case['part']:
            with open(os.path.join(d, PART), 'wb') as f:
                f.write(b'\x09\x09')
            os.chmod(os.path.join(d, PART), 0o640)
        return d, dest

    def do_save(self, fu, dest, case, spy):
        # documented defaults are exercised by omitting the keyword
        kw = {}
        for name, val, default in (('overwrite', case['ow'], 1), ('overwrite_part', case['owp'], 0),
                                   ('rm_part_on_exc', case['rm'], 1), ('text_mode', case['txt'], 0)):
            if val != default:
                kw[name] = bool(val)
        if case['perms'] is not None:
            kw['file_perms'] = case['perms']
        if case.get('buffering', -1) != -1 and not (case['txt'] and case['buffering'] == 0):
            kw['buffering'] = case['buffering']
        spy.install()
        try:
            with fu.atomic_save(dest, **kw) as f:
                for n in case['sizes']:
                    f.write('\x01' * n if case['txt'] else b'\x01' * n)
                # what a body may do besides writing: rewind / read back what it wrote / ask the position
                post = case.get('post')
                if post in ('seek0', 'readback'):
                    f.seek(0)
                if post == 'readback':
                    f.read()
                    f.seek(0)
                if post == 'tell':
                    f.tell()
                if case['raises']:
                    raise RAISE[case['raises']]()
        finally:
            spy.uninstall()

    @staticmethod
    def look(path):
        try:
            st = os.lstat(path)
        except OSError:
            return None
        if not stat.S_ISREG(st.st_mode):
            return b'?notreg'
        with open(path, 'rb') as fh:
            return fh.read()

    _strace = None

    def have_strace(self):
        if C04._strace is None:
            exe = shutil.which('strace')
            ok = False
            if exe:
                try:
                    ok = subprocess.run([exe, '-f', '-o', os.devnull, '-e', 'trace=write', sys.executable, '-c', 'pass'],
                                        stdout=subprocess.DEVNULL, stderr=subprocess.DEVNULL, timeout=20).returncode == 0
                except Exception:
                    ok = False
            C04._strace = exe if ok else False
            self.stats['strace'] = 'available' if ok else 'not available (syscall view skipped)'
        return C04._strace

    def impl_sys(self, case):
        from bv.common import REPO
        old, new = self.contents(case)
        obs = {'events': [], 'calls': [], 'out': 'ok', 'kills': None, 'final': '?', 'part': 0, 'extra': []}
        d = None
        try:
            d, dest = self.prepare(case)
            tr = os.path.join(d, 'bv-strace.txt')
            cj = json.dumps(dict({k: case[k] for k in ('ow', 'owp', 'rm', 'txt', 'perms', 'umask', 'sizes', 'raises', 'buffering')}, post=case.get('post')))
            p = subprocess.run([self.have_strace(), '-f', '-s', '16', '-o', tr, '-e', 'trace=' + SYS_TRACE,
                                sys.executable, '-c', SYS_CHILD, REPO, dest, cj],
                               stdout=subprocess.PIPE, stderr=subprocess.PIPE, text=True, timeout=60)
            obs['out'] = (p.stdout.strip().splitlines() or ['exc:NoOutput'])[-1]
            with open(tr) as f:
                parsed = sys_events(f.read(), dest)
            os.unlink(tr)
            if parsed is None:
                obs['out'] = 'exc:NoTrace'
            else:
                obs['events'], obs['calls'] = parsed
            obs['final'] = classify(old, new, self.look(dest))
            names = sorted(os.listdir(d))
            obs['part'] = 1 if PART in names else 0
            obs['extra'] = [n for n in names if n not in (DEST, PART)]
        except subprocess.TimeoutExpired:
            obs['out'] = 'exc:CaseTimeout'
        finally:
            if d:
                shutil.rmtree(d, ignore_errors=True)
        self._cache[self.key(case)] = obs['events']
        return obs

    def impl(self, case, kills=True):
        if case.get('kind') == 'sys':
            return self.impl_sys(case)
        import boltons.fileutils as fu
        old, new = self.contents(case)
        old_umask = os.umask(case['umask'])
        obs = {'events': [], 'calls': [], 'out': 'ok', 'kills': '', 'final': '?', 'part': 0, 'extra': []}
        dirs = []
        try:
            with time_limit(60):
                # 1. recorded run, in process
                d, dest = self.prepare(case)
                dirs.append(d)
                plan = {case['fault'][0]: case['fault'][1]} if case.get('fault') else None
                spy = Spy(dest, plan=plan)
                try:
                    self.do_save(fu, dest, case, spy)
                except BODY_EXC:
                    obs['out'] = 'body'
                except OSError as e:
                    obs['out'] = 'os:%s' % (e.errno,)
                except CaseTimeout:
                    raise
                except Exception as e:
                    obs['out'] = 'exc:' + exc_name(e)
                obs['events'] = spy.events()
                obs['calls'] = spy.calls()
                obs['fired'] = int(any(r.get('injected') for r in spy.log))
                obs['final'] = classify(old, new, self.look(dest))
                names = sorted(os.listdir(d))
                obs['part'] = 1 if PART in names else 0
                obs['extra'] = [n for n in names if n not in (DEST, PART)]
                n_calls = spy.n
                # 2. the same save killed immediately before call k, k = 0..N (k = N: never killed)
                kills_l = []
                for k in (range(n_calls + 1) if kills else ()):
                    dk, destk = self.prepare(case)
                    dirs.append(dk)
                    pid = os.fork()
                    if pid == 0:
                        try:
                            try:
                                self.do_save(fu, destk, case, Spy(destk, kill_at=k, plan=plan))
                            except BaseException:
                                pass
                        finally:
                            os._exit(0)
                    os.waitpid(pid, 0)
                    kills_l.append(classify(old, new, self.look(destk)))
                    shutil.rmtree(dk, ignore_errors=True)
                obs['kills'] = ''.join(kills_l)
        except CaseTimeout:
            obs['out'] = 'exc:CaseTimeout'
        finally:
            fu.os = os
            if 'open' in fu.__dict__:
                del fu.__dict__['open']
            os.umask(old_umask)
            for d in dirs:
                shutil.rmtree(d, ignore_errors=True)
        self._cache[self.key(case)] = obs['events']
        return obs

    # ------------------------------------------------------------------ model line: the OBSERVED trace
    def line(self, case):
        k = self.key(case)
        if k not in self._cache:
            self.impl(case)
        evs = self._cache[k]
        dest = '-' if case['dest'] is None else '%d:%d' % tuple(case['dest'])
        return ' '.join(['S' if case.get('kind') == 'sys' else 'A', str(case['umask']), dest, str(case['part'])] + evs)

    def render(self, case, obs):
        # what a safe, feasible trace must give; the letters are the REAL kill outcomes
        return 'safe=1 exec=ok proc=%s power=ok final=%s part=%d' % (
            '-' if obs['kills'] is None else obs['kills'], obs['final'], obs['part'])

    # ------------------------------------------------------------------ oracle: C04 restated on trace + kills
    def oracle(self, case, obs):
        st = self.stats
        st['saves'] = st.get('saves', 0) + 1
        st['kill_points'] = st.get('kill_points', 0) + len(obs['kills'] or '')
        if case.get('kind') == 'sys':
            st['syscall_view_cases'] = st.get('syscall_view_cases', 0) + 1
        for e in obs['events']:
            st['ev:' + e[0]] = st.get('ev:' + e[0], 0) + 1
        self._nt = False
        if obs['out'].startswith('exc:'):
            return Failure('unexpected-exception', 'atomic_save raised %s' % obs['out'][4:])
        evs = obs['events']
        old, new = self.contents(case)
        old_letter = classify(old, new, old)
        # the destination is touched only by a single publishing event
        touch = [i for i, e in enumerate(evs) if e[0] in 'TWD?']
        if touch:
            return Failure('dest-touched', 'call #%d (%s: %s) modifies the destination or the part file outside the protocol'
                           % (touch[0], obs['calls'][touch[0]], evs[touch[0]]))
        pubs = [i for i, e in enumerate(evs) if e in ('R', 'L')]
        if len(pubs) > 1:
            return Failure('dest-touched', 'destination published %d times' % len(pubs))
        writes = [i for i, e in enumerate(evs) if e[0] == 'w']
        opens = [i for i, e in enumerate(evs) if e[0] == 'o']
        for i in opens:
            if not evs[i].startswith('o11:'):
                return Failure('part-not-exclusive', 'part file opened without O_CREAT|O_EXCL or outside the destination directory (%s)' % evs[i])
        if writes and (not opens or opens[0] > writes[0]):
            return Failure('dest-touched', 'a write precedes the creation of the part file')
        if pubs:
            p = pubs[0]
            if any(w > p for w in writes):
                return Failure('order', 'a write follows the publishing event')
            if writes:
                lw = writes[-1]
                fl = [i for i, e in enumerate(evs) if e in ('f', 'x') and lw < i < p]
                if not fl:
                    return Failure('order', 'no flush between the last write and the publishing event')
                sy = [i for i, e in enumerate(evs) if e == 's' and fl[0] < i < p]
                if not sy:
                    return Failure('order', 'no fsync between the flush and the publishing event')
        # kill results: old (or still absent) before the publishing call has run, complete new content after
        kills = obs['kills']
        if kills is None:
            kills = ''         # syscall view: no kill outcomes
        elif len(kills) != len(evs) + 1:
            return Failure('kill-harness', 'expected %d kill outcomes, got %d' % (len(evs) + 1, len(kills)))
        for k, letter in enumerate(kills):
            if letter not in (old_letter, 'n', 'b'):
                return Failure('partial-destination', 'killed before call #%d (%s): destination is %s' % (
                    k, obs['calls'][k] if k < len(obs['calls']) else 'end',
                    {'a': 'gone', 'X': 'neither the old nor the complete new content', 'o': 'old'}.get(letter, letter)))
            published = bool(pubs) and k > pubs[0]
            if letter != 'b':
                if published and letter != 'n':
                    return Failure('not-published', 'killed after the publishing call: destination still %s' % letter)
                if not published and letter == 'n' and old_letter != 'n':
                    return Failure('early-publication', 'new content visible when killed before call #%d, before the publishing event' % k)
        # a with-block that exits normally leaves the complete new content and no part file
        refused = (not case['ow']) and case['dest'] is not None
        blocked = case['part'] and not case['owp']
        if obs.get('fired'):
            # an operating-system failure was injected at one call (what the caller is told is C05's business):
            # the destination is the old one, or the complete new content put there by a publishing event
            st['faulted_saves'] = st.get('faulted_saves', 0) + 1
            if obs['final'] not in (old_letter, 'n', 'b'):
                return Failure('partial-destination', 'after a failed %s the destination is %s' % (
                    obs['calls'][case['fault'][0]], obs['final']))
            if obs['final'] == 'n' and old_letter != 'n' and not pubs:
                return Failure('dest-touched', 'new content at the destination without a publishing event')
        elif not case['raises'] and not refused and not blocked:
            if obs['out'] != 'ok':
                return Failure('normal-exit', 'a save with nothing in its way raised %s' % obs['out'])
            if obs['final'] not in ('n', 'b'):
                return Failure('normal-exit', 'after a normal exit the destination is %s, not the new content' % obs['final'])
            if obs['part'] or obs['extra']:
                return Failure('normal-exit', 'after a normal exit a part file is left: %s' % ([PART] * obs['part'] + obs['extra']))
        elif obs['final'] != old_letter:
            return Failure('partial-destination', 'the save did not complete but the destination is %s' % obs['final'])
        self._nt = bool(pubs) and 0 < pubs[0] < len(evs)
        return None

    def nontrivial(self, case, obs):
        return getattr(self, '_nt', False)

    # ------------------------------------------------------------------ diagnostic: observed trace vs the model's saverTrace
    def extra_checks(self):
        try:
            drv = Driver(self.PID)
            if not drv.available():
                return []
            cases = [c for c in itertools.islice(self.__class__(self.tier, self.seed).cases(5), 40)]
            lines, obs_ev = [], []
            for c in cases:
                o = self.impl(c, kills=False)
                if (not c['ow'] and c['dest'] is not None) or (c['part'] and not c['owp']):
                    continue
                dest = '-' if c['dest'] is None else '%d:%d' % tuple(c['dest'])
                lines.append(' '.join(['T', '%d%d%d%d' % (c['ow'], c['owp'], c['rm'], c['txt']),
                                       '-' if c['perms'] is None else str(c['perms']), str(c['umask']), dest,
                                       str(c['part']), str(c['raises']), ','.join(map(str, c['sizes'])) or '-']))
                obs_ev.append(' '.join(e for e in o['events'] if e != 'n'))
            outs = drv.query(lines)
            same = sum(1 for a, b in zip(outs, obs_ev) if ' '.join(t for t in a.split() if t != 'n') == b)
            self.stats['observed_trace_identical_to_saverTrace'] = '%d/%d' % (same, len(outs))
        except Exception as e:  # diagnostic only
            self.stats['observed_trace_identical_to_saverTrace'] = 'n/a (%s)' % exc_name(e)
        return []

    def shrink(self, case):
        if len(case['sizes']) > 1:
            yield dict(case, sizes=case['sizes'][:1])
            yield dict(case, sizes=case['sizes'][1:])
        if case['sizes'] and max(case['sizes']) > 5:
            yield dict(case, sizes=[min(s, 5) for s in case['sizes']])
        if case['txt']:
            yield dict(case, txt=0)
        if case['raises']:
            yield dict(case, raises=0)
        if case['raises'] > 1:
            yield dict(case, raises=1)
        if case.get('post'):
            yield dict(case, post=None)
        if case['part']:
            yield dict(case, part=0, owp=0)
        if case['perms'] is not None:
            yield dict(case, perms=None)
        if case.get('buffering', -1) != -1:
            yield dict(case, buffering=-1)
        if case['umask'] != 0o022:
            yield dict(case, umask=0o022)


PROPERTY = C04
