"""C04 - atomic_save never exposes a partially written destination, at any crash point.

Tie = ACCEPTANCE: every case runs the real `atomic_save` under the fsspy recorder, maps the recorded
calls to the abstract events of the Lean model and sends the OBSERVED trace to the Lean driver, which
evaluates the decidable predicate `C04.SafeTrace` on it (the predicate the theorem
`safeTrace_crash_safe` is about) and executes the trace on the abstract file system, reporting what a
reader of the destination finds after a process death at every prefix and whether every power-loss
outcome is old-or-new.  The same save is then really killed (child process, os._exit immediately
before call k, for every k, and after the last one) and the destination is inspected by the parent.
The real kill outcomes must equal the model's `proc` string, and `safe=1 exec=ok power=ok` must hold.

The oracle restates C04 directly on the observed trace and the kill results.

Round 2: every run of the real code happens in a forked child; bodies are op sequences (incl. closing the part
file), several savers / several uses of one saver, errno FAMILIES per fault site with behaviour classes, second
faults, Ctrl-C at every call, the publishing primitives called directly (oracle-only: `line()` returns None).
"""
import errno
import itertools
import json
import os
import re
import shutil
import stat
import subprocess
import sys
import tempfile

from bv.common import Property, Failure, time_limit, exc_name, CaseTimeout, Driver
from bv.props.fsspy import Spy, OsProxy, _abs

DEST = 'dest.txt'
PART = 'dest.txt.part'
TARGET = 'target.bin'       # what a symlinked destination points to
NOWHERE = 'nowhere'         # ... or the name a link to nothing points to


# errnos injected per call (round 1: these are always swept with kills) ...
FAULT_ERRNO = {'os.fsync': (5, 28), 'file.flush': (28,), 'file.close': (28, 5), 'file.write': (28,), 'os.rename': (18, 13),
               'os.link': (17, 31), 'os.open': (28,), 'os.fdopen': (12,), 'os.chmod': (1,), 'os.unlink': (1,), 'os.stat': (13,)}
# ... and the family probed at every call (round 2): every errno of this list (thorough: every errno the platform
# knows) is injected in a recorded run; each errno whose run BEHAVES differently (other calls, other events, other
# outcome) from the errnos already seen at that call gets its own kill sweep
ERRNO_NAMES = ('EPERM ENOENT ESRCH EINTR EIO ENXIO EBADF EAGAIN ENOMEM EACCES EFAULT EBUSY EEXIST EXDEV ENODEV ENOTDIR '
               'EISDIR EINVAL ENFILE EMFILE ETXTBSY EFBIG ENOSPC ESPIPE EROFS EMLINK EPIPE ENAMETOOLONG ENOLCK ENOSYS '
               'ENOTEMPTY ELOOP EOVERFLOW EOPNOTSUPP ENOTSUP EDQUOT ESTALE ETIMEDOUT ENOTCONN EREMOTEIO ECANCELED').split()

# the save itself, as source text: run in this process (recorded run, kill children) and in the strace child
SAVE_SRC = r"""
import os as _ros, io as _io, contextlib as _ctx


class BodyError(Exception):
    pass


class BodyBase(BaseException):
    pass


class FalsyError(Exception):
    # an exception whose instances are falsy (legal: __bool__ / __len__ are ordinary methods)
    def __bool__(self):
        return False

    def __len__(self):
        return 0


# how the with-block is left: 0 normally, 1 an Exception, 2-5 BaseExceptions that are not Exceptions, 6 a falsy Exception
RAISE = {1: BodyError, 2: KeyboardInterrupt, 3: SystemExit, 4: GeneratorExit, 5: BodyBase, 6: FalsyError}


def build_kw(case):
    # documented defaults are exercised by omitting the keyword
    kw = {}
    for name, key, default in (('overwrite', 'ow', 1), ('overwrite_part', 'owp', 0), ('rm_part_on_exc', 'rm', 1), ('text_mode', 'txt', 0)):
        if case[key] != default:
            kw[name] = bool(case[key])
    if case['perms'] is not None:
        kw['file_perms'] = case['perms']
    if case.get('buffering', -1) != -1 and not (case['txt'] and case['buffering'] == 0):
        kw['buffering'] = case['buffering']
    if case.get('pname'):
        kw['part_file'] = case['pname']
    return kw


def chunk(case, n, v='\x01'):
    return v * n if case['txt'] else v.encode('latin-1') * n


def run_body(f, case, intrude):
    ops = case.get('ops')
    if ops is None:
        for n in case['sizes']:
            f.write(chunk(case, n))
        # what a body may do besides writing: rewind / read back what it wrote / ask the position
        post = case.get('post')
        if post in ('seek0', 'readback'):
            f.seek(0)
        if post == 'readback':
            f.read()
            f.seek(0)
        if post == 'tell':
            f.tell()
    else:
        for op in ops:
            if op[0] == 'w' and op[1:].isdigit():
                f.write(chunk(case, int(op[1:])))
            elif op.startswith('wl'):
                n = int(op[2:])
                f.writelines([chunk(case, n // 2), chunk(case, n - n // 2)])
            elif op == 'flush':
                f.flush()
            elif op == 'fsync':               # the body syncs by itself (the saver cannot know)
                f.flush()
                _ros.fsync(f.fileno())
            elif op == 'tell':
                f.tell()
            elif op == 'rb':                  # read back everything written so far; the position is at the end again
                f.seek(0)
                f.read()
            elif op == 'seek0':
                f.seek(0)
            elif op == 'close':               # the body closes the part file itself ...
                f.close()
            elif op == 'with':                # ... or through the file's own context manager
                with f:
                    pass
            elif op.startswith('wrap'):       # ... or by handing it to a wrapper that closes the underlying stream
                n = int(op[4:])
                if case['txt']:
                    with _ctx.closing(f):
                        f.write(chunk(case, n))
                else:
                    w = _io.TextIOWrapper(f, encoding='latin-1')
                    w.write('\x01' * n)
                    w.close()
            elif op == 'detach':
                f.detach()
            elif op == 'chdir':
                _ros.chdir('/')
            elif op == 'intrude':             # another writer tries to save the same destination now
                intrude()
            else:
                raise AssertionError('unknown body op %r' % (op,))
    if case['raises']:
        raise RAISE[case['raises']]()


def run_save(fu, dest, case, start):
    # the whole scenario of one case; start() is called where the recorded save begins
    kw = build_kw(case)
    target = dest
    if case.get('rel'):                       # relative destination path, resolved against the current directory
        _ros.chdir(_ros.path.dirname(dest))
        target = _ros.path.basename(dest)
    if case.get('pathlib'):
        import pathlib
        target = pathlib.Path(target)
    if case.get('kind') == 'mv':              # the publishing primitive called directly on a finished part file
        start()
        fn = getattr(fu, case['fn'])
        if case['fn'] == 'replace':
            fn(dest + '.part', target)
        else:
            fn(dest + '.part', target, overwrite=bool(case['ow']))
        return
    held = []

    def intrude():
        b = fu.atomic_save(target, **kw)
        try:
            fb = b.__enter__()
        except OSError:
            return                            # refused while the first writer is active
        held.append((b, fb))                  # the intruder stays inside its block (it is still running)
        fb.write(chunk(case, 3, '\x02'))
        fb.flush()
    saver = (fu.AtomicSaver if case.get('cls') else fu.atomic_save)(target, **kw)
    reuse = case.get('reuse')
    if reuse:                                 # the SAME saver object has been used for an earlier save
        try:
            with saver as f:
                f.write(chunk(case, 11, '\x07'))
                if reuse == 2:
                    raise BodyError()
        except BodyError:
            pass
    start()
    with saver as f:
        run_body(f, case, intrude)
"""
_NS = {}
exec(compile(SAVE_SRC, '<c04 save>', 'exec'), _NS)
BodyError, BodyBase, FalsyError, RAISE = _NS['BodyError'], _NS['BodyBase'], _NS['FalsyError'], _NS['RAISE']
BODY_EXC = (BodyError, BodyBase, FalsyError, KeyboardInterrupt, SystemExit, GeneratorExit)
CLOSERS = ('close', 'with', 'detach')


class ChildDied(Exception):
    """the forked child that runs the real code ended without reporting (the code under test ended the process)"""


def body_closes(case):
    """the body closes (or detaches) the part file before the block ends"""
    return any(op in CLOSERS or op.startswith('wrap') for op in (case.get('ops') or ()))


def hx(t):
    """UTF-8 hex of a string (`-` = empty), as the Lean driver reads it"""
    return t.encode('utf-8').hex() or '-'


def plain_name(n):
    """one directory entry, not a path (the domain of the Lean model `C04.partName`)"""
    return bool(n) and '/' not in n and '\x00' not in n and n not in ('.', '..') and ' ' not in n


def part_is_dest(case):
    """the case asks for a part file that IS the destination (same directory entry)"""
    pn = case.get('pname')
    return bool(pn) and os.path.normpath(os.path.join('/d', pn)) == os.path.join('/d', DEST)


def ops_sizes(ops):
    """the sizes of the writes of a list of body ops"""
    out = []
    for op in ops:
        if op[0] == 'w' and op[1:].isdigit():
            out.append(int(op[1:]))
        elif op.startswith('wl'):
            out.append(int(op[2:]))
        elif op.startswith('wrap'):
            out.append(int(op[4:]))
    return out


# the save as run under `strace -f` (syscall view): argv = repo, dest, json(case)
SYS_CHILD = SAVE_SRC + r"""
import sys, os, json
sys.path.insert(0, sys.argv[1])
import boltons.fileutils as fu
dest, case = sys.argv[2], json.loads(sys.argv[3])
os.umask(case['umask'])


def start():
    os.write(2, b'BV-MARK-BEGIN')


try:
    run_save(fu, dest, case, start)
    out = 'ok'
except (BodyError, BodyBase, FalsyError, KeyboardInterrupt, SystemExit, GeneratorExit):
    out = 'body'
except OSError as e:
    out = 'os:%s' % e.errno
except Exception as e:
    out = 'exc:' + type(e).__name__
os.write(2, b'BV-MARK-END')
print(out)
"""
SYS_TRACE = ('openat,open,creat,write,pwrite64,writev,fsync,fdatasync,sync_file_range,close,rename,renameat,renameat2,'
             'link,linkat,symlink,symlinkat,unlink,unlinkat,chmod,fchmod,fchmodat,truncate,ftruncate,copy_file_range,sendfile')
_SYS_LINE = re.compile(r'^\d+\s+(\w+)\((.*)\)\s+=\s+(-?\d+)')
_STR = re.compile(r'"((?:[^"\\]|\\.)*)"')


def sys_events(text, dest):
    """map the strace lines between the markers to abstract events (same vocabulary as fsspy.events)"""
    lines = text.splitlines()
    try:
        a = next(i for i, l in enumerate(lines) if 'BV-MARK-BEGIN' in l)
        b = next(i for i, l in enumerate(lines) if 'BV-MARK-END' in l)
    except StopIteration:
        return None
    fdpath, fdwr = {}, {}
    part = [None]
    evs, calls = [], []
    # first pass: the part file is the first non-destination path opened for writing
    for l in lines[a + 1:b]:
        m = _SYS_LINE.match(l)
        if m and m.group(1) in ('openat', 'open', 'creat') and ('O_WRONLY' in m.group(2) or 'O_RDWR' in m.group(2) or m.group(1) == 'creat'):
            ps = _STR.findall(m.group(2))
            if ps and os.path.abspath(ps[0].encode().decode('unicode_escape')) != dest:
                part[0] = os.path.abspath(ps[0].encode().decode('unicode_escape'))
                break

    def role(p):
        if p == dest:
            return 'dest'
        if part[0] is not None and p == part[0]:
            return 'part'
        return 'other'
    for l in lines[a + 1:b]:
        if 'unfinished' in l or 'resumed' in l:
            evs.append('?')
            calls.append(l)
            continue
        m = _SYS_LINE.match(l)
        if not m:
            continue
        name, args, ret = m.group(1), m.group(2), int(m.group(3))
        paths = [os.path.abspath(x.encode().decode('unicode_escape')) for x in _STR.findall(args)] if name not in ('write', 'pwrite64', 'writev') else []
        ev = None
        if name in ('openat', 'open', 'creat'):
            p = paths[0] if paths else '?'
            wr = ('O_WRONLY' in args or 'O_RDWR' in args or name == 'creat')
            if ret >= 0:
                fdpath[ret], fdwr[ret] = p, wr
            if not wr:
                continue                      # read-only opens (imports, ...) are not events
            if ret < 0:
                ev = 'n'
            elif p == dest:
                ev = 'T' if ('O_TRUNC' in args or name == 'creat') else '?'
            else:
                if part[0] is None:
                    part[0] = p
                if role(p) != 'part':
                    continue
                if 'O_CREAT' not in args or 'O_TRUNC' in args:
                    ev = '?'
                else:
                    mm = re.search(r',\s*(0[0-7]*)\s*$', args)
                    mode = int(mm.group(1), 8) if mm else 0
                    ev = 'o%d%d:%d' % ('O_EXCL' in args, os.path.dirname(p) == os.path.dirname(dest), mode)
        elif name in ('write', 'pwrite64', 'writev', 'fsync', 'fdatasync', 'close', 'fchmod', 'ftruncate', 'sync_file_range'):
            fd = int(args.split(',')[0])
            p = fdpath.get(fd)
            if name == 'close':
                fdpath.pop(fd, None)
            if p is None or not fdwr.get(fd) or role(p) == 'other':
                continue
            r = role(p)
            if ret < 0:
                ev = 'n'
            elif name in ('write', 'pwrite64', 'writev'):
                ev = ('w%d f' % ret) if r == 'part' else 'W%d' % ret      # a write syscall is in the page cache at once
            elif name in ('fsync', 'fdatasync'):
                ev = 's' if r == 'part' else 'n'
            elif name == 'close':
                ev = 'xf' if r == 'part' else 'n'
            elif name == 'fchmod':
                mm = re.search(r',\s*(0[0-7]*)\s*$', args)
                ev = ('c%d' % int(mm.group(1), 8)) if (r == 'part' and mm) else '?'
            else:
                ev = '?'
        else:
            rs = [role(p) for p in paths]
            if not any(r in ('dest', 'part') for r in rs):
                continue
            if ret < 0:
                ev = 'n'
            elif name in ('rename', 'renameat', 'renameat2'):
                ev = 'R' if rs[:2] == ['part', 'dest'] else '?'
            elif name in ('link', 'linkat'):
                ev = 'L' if rs[:2] == ['part', 'dest'] else '?'
            elif name in ('unlink', 'unlinkat'):
                ev = 'U' if rs[0] == 'part' else 'D'
            elif name in ('chmod', 'fchmodat'):
                mm = re.search(r',\s*(0[0-7]*)\s*(?:,\s*\w+)?$', args)
                ev = ('c%d' % int(mm.group(1), 8)) if (rs[0] == 'part' and mm) else '?'
            else:
                ev = '?'
        for tok in ev.split():
            evs.append(tok)
            calls.append(name)
    return evs, calls


# ------------------------------------------------------------------------------------------------------------
# The WINDOWS branch (`if os.name == 'nt':` - replace() with ReplaceFile, atomic_rename) cannot run here as it is.
# It is run as a second copy of boltons/fileutils.py executed from the CURRENT source text in a module of its own,
# whose `import os` yields a stand-in with `os.name == 'nt'` and the Windows semantics of `os.rename` (it never
# replaces: EEXIST), whose `import ctypes` yields a stand-in with `windll.kernel32.ReplaceFile[W]` / `MoveFileExW`
# (ReplaceFile: fails when the destination does not exist, else replaces it in one step - performed by the real
# os.rename of this machine), and without `fcntl`.  No source pattern is matched: whatever the module does under
# `os.name == 'nt'` is what runs.  ASSUMPTION (stated in the meta file): these stand-ins are the Windows kernel.
_WIN = {'spy': None}


def _win_rename(src, dst, *a, **k):
    if os.path.lexists(dst):
        raise FileExistsError(errno.EEXIST, 'Cannot create a file when that file already exists', os.fspath(src), 183, os.fspath(dst))
    return os.rename(src, dst, *a, **k)


class WinOsStub:
    """`os` of the Windows copy while no recorder is installed"""
    name = 'nt'

    def __getattr__(self, name):
        if name == 'rename':
            return _win_rename
        return getattr(os, name)


class WinOsProxy(OsProxy):
    """`os` of the Windows copy under the recorder: as fsspy.OsProxy, plus `name` and the Windows `rename`"""

    def __getattr__(self, name):
        if name == 'name':
            return 'nt'
        if name == 'rename':
            spy = self.__dict__['_spy']

            def rename(src, dst, *a, **k):
                return spy.counted('os.rename', _win_rename, (src, dst) + a, k, [_abs(src), _abs(dst)])
            return rename
        return super().__getattr__(name)


class _WinApi:
    """a kernel32 entry point: counted like an os call when a recorder is installed"""

    def __init__(self, name, fn):
        self.name, self.fn = name, fn
        self.argtypes = self.restype = self.errcheck = None

    def __call__(self, *args):
        args = tuple(getattr(a, 'value', a) for a in args)
        spy = _WIN['spy']
        if spy is None:
            return self.fn(*args)
        src, dst = (args[1], args[0]) if self.name.startswith('ReplaceFile') else (args[0], args[1])

        def real(*a):
            r = self.fn(*a)
            spy.log[-1]['ret'] = r
            return r
        return spy.counted('win.' + self.name, real, args, {}, [_abs(src), _abs(dst)])


def _replace_file(dst, src, backup=None, flags=0, exclude=None, reserved=None):
    if not os.path.lexists(dst) or not os.path.lexists(src):
        return 0                                  # ERROR_FILE_NOT_FOUND
    os.rename(src, dst)
    if backup:
        return 0                                  # (backups are not simulated)
    return 1


def _move_file_ex(src, dst, flags=0):
    if os.path.lexists(dst) and not (flags & 1):  # MOVEFILE_REPLACE_EXISTING
        return 0
    try:
        os.rename(src, dst)
    except OSError:
        return 0
    return 1


def _fake_ctypes():
    import types

    class _Box:
        def __init__(self, value=None):
            self.value = value
    ct = types.ModuleType('ctypes')
    wt = types.ModuleType('ctypes.wintypes')
    for n in ('c_wchar_p', 'c_char_p', 'c_void_p', 'c_int', 'c_uint', 'c_ulong', 'c_bool'):
        setattr(ct, n, type(n, (_Box,), {}))
    for n in ('DWORD', 'LPVOID', 'BOOL', 'LPCWSTR', 'LPWSTR', 'HANDLE'):
        setattr(wt, n, type(n, (_Box,), {}))
    k32 = types.SimpleNamespace(ReplaceFile=_WinApi('ReplaceFile', _replace_file), ReplaceFileW=_WinApi('ReplaceFileW', _replace_file),
                                MoveFileExW=_WinApi('MoveFileExW', _move_file_ex), MoveFileEx=_WinApi('MoveFileEx', _move_file_ex))
    ct.windll = types.SimpleNamespace(kernel32=k32)
    ct.WinDLL = lambda *a, **k: k32
    ct.WinError = lambda *a, **k: OSError(errno.EIO, 'simulated Windows error')
    ct.get_last_error = ct.GetLastError = lambda: 2
    ct.FormatError = lambda *a: 'simulated Windows error'
    ct.wintypes = wt
    return ct, wt


def win_module():
    """boltons/fileutils.py executed as on Windows (cached per process)"""
    if 'mod' in _WIN:
        return _WIN['mod']
    import builtins
    import types
    import boltons.fileutils as fu
    with open(fu.__file__, encoding='utf-8') as fh:
        src = fh.read()
    stub = WinOsStub()
    ct, wt = _fake_ctypes()

    def imp(name, globals=None, locals=None, fromlist=(), level=0):
        if level == 0 and name == 'os':
            return stub
        if level == 0 and name == 'ctypes':
            return ct
        if level == 0 and name == 'ctypes.wintypes':
            return wt if fromlist else ct
        if level == 0 and name in ('fcntl', 'posix', 'pwd', 'grp'):
            raise ImportError('no module named %s on Windows' % name)
        return builtins.__import__(name, globals, locals, fromlist, level)
    mod = types.ModuleType('boltons.fileutils_nt')
    mod.__file__ = fu.__file__
    mod.__package__ = 'boltons'
    b = dict(vars(builtins))
    b['__import__'] = imp
    mod.__dict__['__builtins__'] = b
    exec(compile(src, fu.__file__, 'exec'), mod.__dict__)
    _WIN['mod'], _WIN['stub'] = mod, stub
    return mod


class LinkAware:
    """a destination path that is a symbolic link: the path the link resolves to IS the destination for readers,
    so a save that publishes by replacing the link's target publishes to the destination as well"""
    aliases = ()

    def role(self, p):
        if p in self.aliases:
            return 'dest'
        return super().role(p)


class PosixSpy(LinkAware, Spy):
    pass


class WinSpy(LinkAware, Spy):
    """the recorder, installed into the Windows copy"""

    def install(self):
        fuw = win_module()
        self._installed = fuw
        fuw.os = WinOsProxy(self)
        fuw.open = self._builtin_open
        _WIN['spy'] = self
        return self

    def uninstall(self):
        fuw = self._installed
        if fuw is not None:
            fuw.os = _WIN['stub']
            try:
                del fuw.open
            except AttributeError:
                pass
        _WIN['spy'] = None
        self._installed = None

    def _event(self, rec):
        if rec['call'].startswith('win.'):
            if not rec['ok'] or not rec.get('ret'):
                return 'n'                         # the call reported failure: no effect
            return 'R' if [self.role(q) for q in rec['paths']] == ['part', 'dest'] else '?'
        return super()._event(rec)


def classify(old, new, cur):
    """a absent, o old content, n new content, b both (old == new), X anything else"""
    if cur is None:
        return 'a'
    if old is not None and cur == old:
        return 'b' if cur == new else 'o'
    return 'n' if cur == new else 'X'


class C04(Property):
    PID = 'C04'
    QUICK_BUDGET_S = 40
    THOROUGH_BUDGET_S = 600
    RULE = ('a case is one whole save scenario, run in a forked child (no state leaks between cases): overwrite on/off x '
            'destination absent/present (also read-only / mode 0) x text/binary x write pattern (none, one, many, large) x '
            'block raises or not, the full 2^4 flag grid, stale-part/overwrite_part, file_perms, rm_part_on_exc=False, buffer '
            'sizes 0/1/2/16/4096/1M, an explicit part_file name, a pathlib / relative destination (and a body that changes '
            'the directory), AtomicSaver used directly; BODIES given as op sequences: write, writelines, flush, own fsync, tell, '
            'read back, rewind, and bodies that CLOSE or detach the part file themselves (close(), `with fo:`, a TextIOWrapper / '
            'closing() wrapper) before / after writing, raising afterwards or not; blocks left through an Exception, '
            'KeyboardInterrupt / SystemExit / GeneratorExit / another BaseException, or an exception whose instance is falsy; '
            'a SECOND WRITER entering the same destination while the first is inside its block; the SAME saver object used '
            'again after a completed or a raising save; a save that follows a FAILED save of another saver in the same process '
            '(every call x 10 errnos probed); the publishing primitives atomic_rename / _atomic_rename / replace called directly; '
            'one injected OS failure at every call of eleven (thorough: 59) base saves where every errno of a 40-member family '
            '(thorough: every errno of the platform) is probed in a recorded run and each errno after which the save BEHAVES '
            'differently gets its own case, a second failure at every later call (first three bases; thorough: all), Ctrl-C '
            '(KeyboardInterrupt) raised at every call of three saves; the NAME of the part file (12 destination names x 15 part_file '
            'arguments - absent, empty, the destination itself, plain names, paths - judged by the Lean model C04.partName, and whole saves '
            'whose part_file names the destination); the WINDOWS branch (the current source executed as on Windows against stand-ins for '
            'os.rename / ReplaceFile: flag grid, stale part, closing bodies, the primitives called directly); destinations that are SYMBOLIC '
            'LINKS (to a file, to nothing) and a part name taken by a symbolic link to the destination (judged on the link-aware Lean model); '
            'and (seeded) random write patterns / op sequences. After every real kill the directory listing and the hard-link identity of '
            'part and destination are compared with the model, and a reader that opened the destination before the save reads it at the end. For each case '
            'the recorded event trace is judged by the Lean SafeTrace predicate and the save is re-run in a child process that '
            'is killed immediately before every recorded call (and after the last). Non-trivial = the trace contains a '
            'publishing event and at least one kill point on each side of it; distinct = distinct case.')
    ASSUMPTIONS = ['process death is exhibited for real (os._exit in a child at every recorded call); power loss '
                   'cannot be exhibited: it is covered only by the theorem over the abstract file system '
                   '(fsync makes the page cache durable; rename/link are atomic; directory operations reach the disk in order)',
                   'kill points are the recorded calls (os.*, file.write/flush/close); a death inside a call is '
                   'covered by the model only through the atomicity of the kernel operations',
                   'POSIX branch of atomic_rename/replace for real; the Windows branch is executed from the current source against stand-ins written in '
                   'the harness (os.rename never replaces: EEXIST; ReplaceFile fails without a destination, else is this machine\'s rename): that the real '
                   'ReplaceFile is one atomic directory operation is assumed',
                   'part_file arguments that are paths rather than file names are outside the documented use; they are only checked not to alias the destination',
                   'a body that closes or detaches the part file itself has taken the file away from the saver: refusing that save '
                   'with the ValueError of the closed file and an untouched destination is accepted (as is completing it correctly)',
                   'a second writer is simulated in the same process (a second saver entered while the first is inside its block), '
                   'with overwrite_part=False: with overwrite_part=True taking the part file away is documented behaviour']
    CORRESPONDENCE_NAME = ('C04.Driver: SafeTrace acceptance of the observed event trace + model process-death outcomes '
                           'vs real kill-at-every-call outcomes of boltons.fileutils.atomic_save')

    def __init__(self, tier, seed):
        super().__init__(tier, seed)
        self._cache = {}

    # ------------------------------------------------------------------ translator hook
    def regen(self):
        """constants of the current source the model relies on: the open flags of the part file"""
        import boltons.fileutils as fu
        txt, binf = fu._TEXT_OPENFLAGS, fu._BIN_OPENFLAGS
        def b(x):
            return 'true' if x else 'false'
        src = ('/- generated by harness/bv/props/c04.py regen() from boltons/fileutils.py - do not edit -/\n'
               'namespace C04.Gen\n'
               'def textFlagsExcl : Bool := %s\ndef textFlagsCreat : Bool := %s\ndef textFlagsTrunc : Bool := %s\n'
               'def binFlagsExcl : Bool := %s\ndef binFlagsCreat : Bool := %s\ndef binFlagsTrunc : Bool := %s\n'
               '/-- what `AtomicSaver(dest)` appends to the destination path for the default part file name\n'
               '    (evaluated: part_path of a saver constructed on a probe path, minus its dest_path) -/\n'
               'def partSuffix : List Char := [%s]\n'
               'end C04.Gen\n') % (b(txt & os.O_EXCL), b(txt & os.O_CREAT), b(txt & os.O_TRUNC),
                                    b(binf & os.O_EXCL), b(binf & os.O_CREAT), b(binf & os.O_TRUNC),
                                    ', '.join('Char.ofNat %d' % ord(c) for c in self.part_suffix(fu)))
        return {'C04_Consts.lean': src}

    @staticmethod
    def part_suffix(fu):
        """the default part file name is the destination path plus this suffix ('' when the current source
        does not build it that way: the obligation `source_part_suffix` then fails)"""
        try:
            sv = fu.AtomicSaver('/bv-probe-dir/bv-probe-name')
            dp, pp = os.fspath(sv.dest_path), os.fspath(sv.part_path)
            return pp[len(dp):] if pp.startswith(dp) else ''
        except Exception:
            return ''

    # ------------------------------------------------------------------ generation
    PATTERNS = {'none': [], 'one': [5], 'many': [3, 1, 4, 1, 5, 9, 2, 6], 'large': [300000]}
    BASE = dict(ow=1, owp=0, rm=1, txt=0, perms=None, umask=0o022, dest=None, part=0, raises=0, sizes=[5], buffering=-1)
    PRESENT = [0o644, 11]

    @staticmethod
    def with_ops(case, ops):
        return dict(case, ops=list(ops), sizes=ops_sizes(ops))

    def errnos(self):
        if self.thorough:
            return sorted(errno.errorcode)
        return sorted({getattr(errno, n) for n in ERRNO_NAMES if hasattr(errno, n)})

    def plain_cases(self):
        """round 1's grid of plain saves (also what the saverTrace diagnostic is run on)"""
        for ow, dest, txt, pat, raises in itertools.product((1, 0), (None, self.PRESENT), (0, 1), ('none', 'one', 'many', 'large'), (0, 1)):
            yield dict(self.BASE, ow=ow, dest=dest, txt=txt, sizes=self.PATTERNS[pat], raises=raises)

    def body_cases(self):
        """bodies that do more than write (small, adversarial: first in the stream)"""
        base, W = self.BASE, self.with_ops
        # the body closes / detaches the part file before the block ends: directly, through the file's own context
        # manager, through a wrapper that closes the underlying stream; before / after / between writes; then raises or not
        closers = (['w5', 'close'], ['w3', 'w70000', 'close'], ['close'], ['w5', 'with'], ['wrap5'], ['w3', 'wrap70000'],
                   ['w5', 'flush', 'close'], ['w5', 'fsync', 'close'], ['w5', 'close', 'close'], ['w5', 'rb', 'close'],
                   ['w5', 'seek0', 'close'], ['w5', 'detach'], ['w70000', 'detach'])
        for dest, ops in itertools.product((None, self.PRESENT), closers):
            for txt in (0, 1):
                yield W(dict(base, dest=dest, txt=txt), ops)
        for ops in (['w5', 'close'], ['wrap5'], ['w5', 'with']):
            yield W(dict(base, ow=0), ops)
            yield W(dict(base, dest=self.PRESENT, raises=1), ops)
            yield W(dict(base, dest=self.PRESENT, raises=2), ops)
            yield W(dict(base, dest=self.PRESENT, rm=0), ops)
            yield W(dict(base, dest=self.PRESENT, perms=0o600, buffering=0), ops)
            yield W(dict(base, dest=self.PRESENT, part=1, owp=1), ops)
        # flush / fsync / tell / read back / writelines in the middle of the writes
        mids = (['w5', 'flush', 'w3'], ['w5', 'fsync'], ['w5', 'fsync', 'w70000'], ['w3', 'rb', 'w4'], ['w70000', 'rb', 'w1'],
                ['wl6', 'w1'], ['w5', 'tell', 'w5', 'seek0'], ['flush'], ['fsync'], ['w5', 'flush', 'flush', 'fsync', 'seek0'])
        for dest, txt, ops in itertools.product((None, self.PRESENT), (0, 1), mids):
            yield W(dict(base, dest=dest, txt=txt), ops)
        yield W(dict(base, ow=0), ['w5', 'fsync'])
        yield W(dict(base, dest=self.PRESENT, buffering=0), ['w5', 'fsync', 'w3', 'seek0'])
        # the block left through an exception whose instance is falsy
        for dest, sizes, ow in itertools.product((None, self.PRESENT), ([5], [3, 70000]), (1, 0)):
            yield dict(base, dest=dest, raises=6, sizes=sizes, ow=ow)
        yield dict(base, dest=self.PRESENT, raises=6, txt=1, rm=0)

    def instance_cases(self):
        """several savers / several uses of one saver / unusual-but-legal ways of naming the destination"""
        base, W = self.BASE, self.with_ops
        # a second writer tries to save the same destination while the first one is inside its block
        for dest, txt, ops in itertools.product((None, self.PRESENT), (0, 1),
                                                (['w5', 'intrude'], ['intrude', 'w5'], ['w3', 'intrude', 'w70000', 'intrude', 'w1'],
                                                 ['w5', 'flush', 'intrude'])):
            yield W(dict(base, dest=dest, txt=txt), ops)
        yield W(dict(base, ow=0), ['w5', 'intrude'])
        yield W(dict(base, dest=self.PRESENT, raises=1), ['w5', 'intrude'])
        yield W(dict(base, dest=self.PRESENT, perms=0o600, pname='custom.tmp'), ['w5', 'intrude', 'w2'])
        # the same saver object used again, after a completed and after a raising save
        for reuse, dest, txt, sizes, raises in itertools.product((1, 2), (None, self.PRESENT), (0, 1), ([5], [3, 70000], []), (0, 1)):
            yield dict(base, reuse=reuse, dest=dest, txt=txt, sizes=sizes, raises=raises)
        yield W(dict(base, reuse=1), ['w5', 'seek0'])
        yield W(dict(base, reuse=1, dest=self.PRESENT), ['w5', 'close'])
        yield dict(base, reuse=2, ow=0)
        yield dict(base, reuse=1, perms=0o600, buffering=0, sizes=[4, 70000])
        # an explicit part file name; a pathlib.Path; a relative path (and a body that changes the directory)
        for dest, raises in itertools.product((None, self.PRESENT), (0, 1)):
            yield dict(base, dest=dest, raises=raises, pname='custom.tmp')
            yield dict(base, dest=dest, raises=raises, pname='.dest.txt.swp', ow=0)
            yield dict(base, dest=dest, raises=raises, pathlib=1)
            yield dict(base, dest=dest, raises=raises, rel=1, sizes=[3, 70000])
            yield W(dict(base, dest=dest, raises=raises, rel=1), ['w5', 'chdir', 'w3'])
            yield W(dict(base, dest=dest, raises=raises, rel=1, ow=0, pathlib=1), ['chdir', 'w5'])
        yield dict(base, dest=self.PRESENT, pname='custom.tmp', part=1, owp=1)
        yield dict(base, dest=self.PRESENT, pname='custom.tmp', part=1, owp=0)
        # the publishing primitives called directly on a finished part file
        for fn, ow, dest in itertools.product(('atomic_rename', '_atomic_rename', 'replace'), (1, 0), (None, self.PRESENT, [0o600, 0])):
            if fn == 'replace' and not ow:
                continue
            yield dict(base, kind='mv', fn=fn, ow=ow, dest=dest, sizes=[7])
        # buffer sizes (1 = line buffered text)
        for buffering, txt in itertools.product((1, 2, 16, 4096, 1 << 20), (0, 1)):
            if buffering == 1 and not txt:
                continue
            yield dict(base, buffering=buffering, txt=txt, sizes=[3, 70000, 1], dest=self.PRESENT)
            yield dict(base, buffering=buffering, txt=txt, sizes=[5], post='seek0')

    NAMES = ('dest.txt', 'a', 'data.json.part', '.hidden', 'x.part', 'part', 'd\u00e9st.txt', 'a b'.replace(' ', '_'), 'UPPER.TXT', '-', '~', 'x' * 60)

    def name_cases(self):
        """the NAME of the part file: what `AtomicSaver(dest, part_file=...)` chooses, against the Lean model
        `C04.partName`; and whole saves whose part_file names the destination itself"""
        for d in self.NAMES:
            pfs = [None, '', d, d + '.part', '.part', 'x.tmp', d[:-1] or 'q', d + 'x', d.upper(), '.' + d]
            for pf in pfs:
                yield {'kind': 'pp', 'dname': d, 'pf': pf}
            # part_file arguments that are paths, not names (outside the Lean model: oracle only)
            for pf in ('./' + d, 'sub/../' + d, 'sub/' + d, '../' + d, d + '/'):
                yield {'kind': 'pp', 'dname': d, 'pf': pf}
        base = self.BASE
        for dest, owp, raises in itertools.product((None, self.PRESENT), (0, 1), (0, 1)):
            yield dict(base, dest=dest, owp=owp, raises=raises, pname=DEST)
        yield dict(base, dest=self.PRESENT, pname='./' + DEST, owp=1, raises=1)
        yield dict(base, dest=None, pname=DEST, ow=0, txt=1, sizes=[3, 70000])

    def win_cases(self):
        """the Windows branch of replace() / atomic_rename(), run from the current source against stand-ins for the
        Windows `os.rename` (never replaces) and `ReplaceFile` (see win_module)"""
        base, W = self.BASE, self.with_ops
        for ow, dest, raises, txt, sizes in itertools.product((1, 0), (None, self.PRESENT), (0, 1), (0, 1), ([5], [3, 70000])):
            yield dict(base, win=1, ow=ow, dest=dest, raises=raises, txt=txt, sizes=sizes)
        for dest in (None, self.PRESENT, [0o444, 11]):
            yield dict(base, win=1, dest=dest, part=1, owp=1)
            yield dict(base, win=1, dest=dest, rm=0, raises=1)
            yield dict(base, win=1, dest=dest, perms=0o600, sizes=[])
            yield dict(base, win=1, dest=dest, cls=1, pname='custom.tmp')
            yield dict(base, win=1, dest=dest, reuse=1)
            yield W(dict(base, win=1, dest=dest), ['w5', 'close'])
            yield W(dict(base, win=1, dest=dest), ['w5', 'fsync', 'w3', 'seek0'])
        # the publishing primitives of the Windows branch called directly
        for fn, ow, dest in itertools.product(('atomic_rename', '_atomic_rename', 'replace'), (1, 0), (None, self.PRESENT)):
            if fn == 'replace' and not ow:
                continue
            yield dict(base, win=1, kind='mv', fn=fn, ow=ow, dest=dest, sizes=[7])

    def symlink_cases(self):
        """the destination path is a symbolic link (to a regular file with the old content / to nothing); the part
        file's name is taken by a symbolic link that points at the destination"""
        base, W = self.BASE, self.with_ops
        for ow, raises, txt, sizes in itertools.product((1, 0), (0, 1), (0, 1), ([5], [3, 70000])):
            yield dict(base, sym='file', dest=self.PRESENT, ow=ow, raises=raises, txt=txt, sizes=sizes)
            yield dict(base, sym='dangling', dest=None, ow=ow, raises=raises, txt=txt, sizes=sizes)
        for sym, dest in (('file', [0o600, 4]), ('file', [0o444, 11]), ('dangling', None)):
            yield dict(base, sym=sym, dest=dest, perms=0o640)
            yield dict(base, sym=sym, dest=dest, rm=0, raises=1)
            yield dict(base, sym=sym, dest=dest, rel=1, pathlib=1)
            yield dict(base, sym=sym, dest=dest, win=1)
            yield W(dict(base, sym=sym, dest=dest), ['w5', 'close'])
            yield W(dict(base, sym=sym, dest=dest), ['w5', 'intrude', 'w3'])
        for dest, owp, raises, sym in itertools.product((None, self.PRESENT), (0, 1), (0, 1), (None, 'file')):
            if sym and dest is None:
                continue
            yield dict(base, dest=dest, part=1, psym=1, owp=owp, raises=raises, **({'sym': sym} if sym else {}))
        yield dict(base, dest=self.PRESENT, part=1, psym=1, owp=1, ow=0)
        yield dict(base, dest=None, part=1, psym=1, owp=1, ow=0, txt=1, sizes=[70000])

    def fault_cases(self, fb, second):
        """one operating-system failure at every call of the save `fb`, for every errno of the family that makes
        the save behave differently; `second`: also a second failure at every later call"""
        calls = self.impl(fb, kills=False)['calls']
        fam = self.errnos()
        for k, name in enumerate(calls):
            must = list(FAULT_ERRNO.get(name, (5,)))
            seen = set()
            tries = [dict(fb, fault=[k, e]) for e in must + [x for x in fam if x not in must]]
            for c, o in zip(tries, self.probe(tries)):
                e = c['fault'][1]
                out = 'os:injected' if o['out'] == 'os:%d' % e else o['out']
                sig = (tuple(o['events']), tuple(o['calls']), out, o['final'], o['part'], tuple(o['extra']))
                fresh = sig not in seen
                seen.add(sig)
                self.stats['fault_probes'] = self.stats.get('fault_probes', 0) + 1
                if not (fresh or e in must):
                    continue
                if fresh and e not in must:
                    self.stats['errno_sensitive_sites'] = self.stats.get('errno_sensitive_sites', 0) + 1
                yield c
                if second and fresh:
                    for j in range(k + 1, len(o['calls'])):
                        yield dict(c, fault2=[j, FAULT_ERRNO.get(o['calls'][j], (5,))[0]])

    PRIOR_ERRNOS = ('EINVAL', 'ENOTSUP', 'ENOSYS', 'EPERM', 'EIO', 'ENOSPC', 'EXDEV', 'EINTR', 'EROFS', 'EACCES')

    def prior_cases(self):
        """a save that follows a FAILED save of another saver object in the same process: every call of the earlier
        save x a family of errnos is probed in a recorded run; the recorded save must behave as if nothing had happened
        (a handful is always swept with kills, plus every probe after which it behaves differently)"""
        base = self.BASE
        fam = [getattr(errno, n) for n in self.PRIOR_ERRNOS if hasattr(errno, n)]
        for fb in (dict(base, dest=self.PRESENT), dict(base, ow=0, sizes=[3, 4])):
            o0 = self.impl(fb, kills=False)
            ref = (tuple(o0['events']), o0['out'], o0['final'], o0['part'])
            must = {(o0['calls'].index(name), e) for name, e in (('os.fsync', errno.EINVAL), ('os.fsync', errno.ENOTSUP), ('file.flush', errno.ENOSPC),
                                                                   ('os.rename', errno.EXDEV), ('os.link', errno.EPERM), ('os.open', errno.EACCES))
                    if name in o0['calls']}
            for k in range(len(o0['calls'])):
                for e in fam:
                    c = dict(fb, prior=[k, e])
                    o = self.probe([c])[0] if self.thorough or (k, e) in must else None
                    # (quick: each probe in a child of its own costs a fork; the errnos of one call share a child below)
                    if o is not None:
                        self.stats['prior_probes'] = self.stats.get('prior_probes', 0) + 1
                        if (k, e) in must or (tuple(o['events']), o['out'], o['final'], o['part']) != ref:
                            yield c
                if not self.thorough:
                    # one child per call of the earlier save: a leak shows in the recorded save of the FIRST errno that
                    # causes it (later ones in the same child may be affected as well: then they are swept too)
                    tries = [dict(fb, prior=[k, e]) for e in fam if (k, e) not in must]
                    for c, o in zip(tries, self.probe(tries)):
                        self.stats['prior_probes'] = self.stats.get('prior_probes', 0) + 1
                        if (tuple(o['events']), o['out'], o['final'], o['part']) != ref:
                            yield c

    def cases(self, budget_s):
        rng = self.rng
        base = dict(self.BASE)
        # ---- round 2, small and adversarial first
        yield from self.body_cases()
        yield from self.instance_cases()
        yield from self.name_cases()
        yield from self.win_cases()
        yield from self.symlink_cases()
        # read-only / mode-0 destinations (replacing them needs no write permission on the file itself)
        for mode, ow, raises in itertools.product((0o444, 0o400, 0), (1, 0), (0, 1)):
            yield dict(base, dest=[mode, 11], ow=ow, raises=raises, sizes=[3, 4])
        yield dict(base, dest=[0o444, 11], txt=1, sizes=[70000], perms=0o600)
        yield dict(base, dest=[0o444, 11], part=1, owp=1)
        yield from self.prior_cases()
        # Ctrl-C (KeyboardInterrupt) arriving at every call of the save, also inside __exit__
        for fb in (dict(base, dest=[0o644, 11], sizes=[3, 70000]), dict(base, ow=0, txt=1, sizes=[3, 4]), dict(base, dest=[0o600, 4], raises=1, rm=0)):
            for k in range(len(self.impl(fb, kills=False)['calls'])):
                yield dict(fb, fault=[k, 'K'])
        # every combination of the four flags on a plain two-write save that exits normally
        for ow, owp, rm, txt, dest in itertools.product((1, 0), (0, 1), (1, 0), (0, 1), (None, [0o644, 11])):
            yield dict(base, ow=ow, owp=owp, rm=rm, txt=txt, dest=dest, part=owp, sizes=[3, 4])
        # the class used directly instead of the atomic_save() function
        for dest, ow, raises in itertools.product((None, [0o644, 11]), (1, 0), (0, 1)):
            yield dict(base, cls=1, dest=dest, ow=ow, raises=raises, sizes=[3, 70000])
        yield self.with_ops(dict(base, cls=1, dest=[0o644, 11]), ['w5', 'close'])
        yield dict(base, cls=1, reuse=1, txt=1)
        # the with-block left through a BaseException that is not an Exception (Ctrl-C, sys.exit(), generator close)
        for dest, raises, sizes in itertools.product((None, [0o644, 11]), (2, 3, 4, 5), ([5], [3, 70000])):
            yield dict(base, dest=dest, raises=raises, sizes=sizes)
        yield dict(base, dest=[0o644, 11], ow=0, raises=2)
        yield dict(base, dest=None, txt=1, raises=3, rm=0)
        # bodies that do more than write: rewind, read back what they wrote, ask for the position
        for dest, txt, post, sizes in itertools.product((None, [0o644, 11]), (0, 1), ('seek0', 'readback', 'tell'), ([5], [3, 70000], [])):
            yield dict(base, dest=dest, txt=txt, post=post, sizes=sizes)
        yield dict(base, dest=[0o644, 11], ow=0, post='seek0')
        yield dict(base, dest=[0o644, 11], post='readback', raises=1)
        # one operating-system failure at every call of the save (the destination must stay old-or-complete-new,
        # and a failed flush / fsync / close must not be followed by publication), errno family per call;
        # for the first three base saves also a second failure at every later call
        fbases = [dict(base, dest=[0o644, 11]), dict(base, dest=None, ow=0, sizes=[3, 4]), dict(base, dest=[0o600, 4], txt=1, perms=0o640, sizes=[70000])]
        fmore = [dict(base, dest=None, ow=0, txt=1, sizes=[70000]), dict(base, dest=[0o644, 11], raises=2, sizes=[3, 70000]),
                 dict(base, dest=[0o644, 11], buffering=0, sizes=[4, 70000]), self.with_ops(dict(base, dest=[0o644, 11]), ['w5', 'close']),
                 dict(base, dest=None, part=1, owp=1, perms=0o600), dict(base, dest=None, ow=0, post='seek0'),
                 dict(base, dest=[0o644, 11], reuse=1, sizes=[3, 4]), dict(base, dest=None, ow=0, rm=0, pname='custom.tmp')]
        if self.thorough:
            fmore += [dict(base, ow=ow, dest=dest, txt=txt, sizes=sizes, raises=raises) for ow, dest, txt, sizes, raises in
                      itertools.product((1, 0), (None, [0o644, 11]), (0, 1), ([], [5], [3, 1, 70000]), (0, 1, 2))]
        for fb in fbases:
            yield from self.fault_cases(fb, second=True)
        for fb in fmore:
            yield from self.fault_cases(fb, second=self.thorough)
        for fn, ow, dest in (('atomic_rename', 0, None), ('atomic_rename', 1, [0o644, 11]), ('replace', 1, None)):
            yield from self.fault_cases(dict(base, kind='mv', fn=fn, ow=ow, dest=dest, sizes=[7]), second=True)
        # ---- round 1
        yield from self.plain_cases()
        # stale part file, explicit permissions, rm_part_on_exc off, unbuffered
        for dest in (None, [0o600, 4]):
            yield dict(base, dest=dest, part=1, owp=1)
            yield dict(base, dest=dest, part=1, owp=0)
            yield dict(base, dest=dest, perms=0o600)
            yield dict(base, dest=dest, perms=0o644, ow=0)
            yield dict(base, dest=dest, rm=0, raises=1)
            yield dict(base, dest=dest, buffering=0, sizes=[4, 70000, 1])
            yield dict(base, dest=dest, sizes=[8192, 8192, 1], txt=1)
        # old content == new content, empty old file
        yield dict(base, dest=[0o644, 5], sizes=[5])
        yield dict(base, dest=[0o644, 0], sizes=[])
        yield dict(base, dest=[0o644, 0], sizes=[2])
        # syscall view (strace -f): the same acceptance on what the kernel saw
        sys_cases = [dict(base, dest=None, sizes=[5, 70000]), dict(base, dest=[0o644, 11], ow=0, sizes=[3]),
                     dict(base, dest=[0o600, 4], txt=1, sizes=[2, 2], raises=1), dict(base, dest=[0o644, 11], perms=0o600, part=1, owp=1),
                     self.with_ops(dict(base, dest=[0o644, 11]), ['w5', 'close']), self.with_ops(dict(base, dest=None), ['w3', 'fsync', 'w70000', 'seek0'])]
        if self.thorough:
            sys_cases += [dict(base, ow=ow, dest=dest, txt=txt, sizes=self.PATTERNS[pat], raises=raises)
                          for ow, dest, txt, pat, raises in itertools.product((1, 0), (None, [0o644, 11]), (0, 1), ('none', 'one', 'many', 'large'), (0, 1))]
            sys_cases += [c for c in self.body_cases() if c['dest'] is not None and not c['txt']][:30]
        if self.have_strace():
            for c in sys_cases:
                yield dict(c, kind='sys')
        n = 800 if self.thorough else 60
        for i in range(n):
            yield self.random_case(rng, i)

    OPS_POOL = ('w1', 'w7', 'w100', 'w4096', 'w8193', 'w70000', 'wl6', 'flush', 'fsync', 'tell', 'rb', 'intrude')
    OPS_END = (None, None, 'seek0', 'close', 'with', 'wrap5', 'detach', 'seek0')

    def random_case(self, rng, i):
        k = rng.choice([0, 1, 2, 3, 5, 8, 20] + ([200] if self.thorough and i % 10 == 0 else []))
        sizes = [rng.choice([0, 1, 2, 7, 100, 4096, 8192, 8193, 70000]) for _ in range(k)]
        if self.thorough and i % 25 == 0:
            sizes.append(5_000_000)
        c = dict(self.BASE, ow=rng.randrange(2), owp=rng.randrange(2), rm=rng.randrange(2), txt=rng.randrange(2),
                 perms=rng.choice([None, 0o600, 0o640, 0]), umask=rng.choice([0o022, 0o077, 0]),
                 dest=rng.choice([None, [0o644, 11], [0o600, 3]]), part=rng.randrange(2),
                 raises=rng.choice([1, 1, 2, 3, 4, 5, 6]) if rng.random() < 0.3 else 0, sizes=sizes, buffering=rng.choice([-1, -1, -1, 0, 16]),
                 post=rng.choice([None, None, None, 'seek0', 'readback', 'tell']))
        if i % 3 == 2:
            # a random op sequence instead of the plain write list
            ops = [rng.choice(self.OPS_POOL) for _ in range(rng.choice([1, 2, 3, 5, 8]))]
            end = rng.choice(self.OPS_END)
            if end == 'detach' and c['buffering'] == 0 and not c['txt']:
                end = 'close'
            if end:
                ops.append(end)
            if 'intrude' in ops:
                c['owp'] = 0        # with overwrite_part the intruder is DOCUMENTED to take the part file away
            c = self.with_ops(dict(c, post=None), ops)
            reuse = rng.choice([0, 0, 1, 2])
            if reuse:
                c.update(reuse=reuse, ow=1, part=0)
        return c

    def deep_cases(self, budget_s):
        for c in self.cases(budget_s):
            yield c
        rng = self.rng
        i = 0
        while True:
            i += 1
            yield self.random_case(rng, i)

    # ------------------------------------------------------------------ running the real code
    @staticmethod
    def contents(case):
        old = None if case['dest'] is None else b'\x07' * case['dest'][1]
        if case.get('reuse') == 1:
            old = b'\x07' * 11          # what the earlier save through the same saver object has put there
        new = b'\x01' * sum(case['sizes'])
        return old, new

    @staticmethod
    def stale(case):
        """a part file is in the way when the recorded save starts: prepared, or left behind by the earlier raising
        save of the same saver object with rm_part_on_exc=False"""
        return 1 if (case['part'] or (case.get('reuse') == 2 and not case['rm'])) else 0

    _default_part = None

    def pname(self, case):
        """the name of the part file of this case: the explicit part_file, else what the CURRENT source chooses for
        the destination's name (evaluated on a probe directory; the statement does not fix the name)"""
        if case.get('pname'):
            return case['pname']
        if C04._default_part is None:
            name = PART
            try:
                import boltons.fileutils as fu
                sv = fu.AtomicSaver(os.path.join('/bv-probe-dir', DEST))
                if os.path.dirname(os.fspath(sv.part_path)) == '/bv-probe-dir':
                    name = os.path.basename(os.fspath(sv.part_path))
            except Exception:
                pass
            C04._default_part = name
        return C04._default_part

    def part_path(self, case, dest):
        """where the part file of this case lies: the explicit part_file in the destination's directory, else what the
        CURRENT source chooses for this very destination (the constructor is evaluated; it touches nothing)"""
        if case.get('pname'):
            return os.path.join(os.path.dirname(dest), case['pname'])
        try:
            if case.get('win'):
                fu = win_module()
            else:
                import boltons.fileutils as fu
            return os.fspath(fu.AtomicSaver(dest).part_path)
        except Exception:
            return os.path.join(os.path.dirname(dest), self.pname(case))

    def prepare(self, case):
        d = tempfile.mkdtemp(prefix='bvC04-')
        dest = os.path.join(d, DEST)
        if case['dest'] is not None:
            # sym='file': the destination path is a symbolic link to a regular file holding the old content
            real = os.path.join(d, TARGET) if case.get('sym') == 'file' else dest
            with open(real, 'wb') as f:
                f.write(b'\x07' * case['dest'][1])
            os.chmod(real, case['dest'][0])
            if real != dest:
                os.symlink(TARGET, dest)
        elif case.get('sym') == 'dangling':
            os.symlink(NOWHERE, dest)      # a link to nothing: readers find no file, the NAME exists
        if case['part'] and case.get('psym'):
            # the part file's name is taken by a symbolic link pointing at the destination
            os.symlink(DEST, self.part_path(case, dest))
        elif case['part']:
            with open(self.part_path(case, dest), 'wb') as f:
                f.write(b'\x09\x09')
            os.chmod(self.part_path(case, dest), 0o640)
        if case.get('kind') == 'mv':    # a finished part file, to be published by atomic_rename / replace
            with open(os.path.join(d, PART), 'wb') as f:
                f.write(b'\x01' * sum(case['sizes']))
                f.flush()
                os.fsync(f.fileno())
        return d, dest

    def do_save(self, fu, dest, case, spy):
        if case.get('sym'):
            spy.aliases = (os.path.realpath(dest),)
        if case.get('kind') == 'mv':
            spy.part_path = os.path.abspath(dest + '.part')
        elif self.stale(case):
            # a part file already lies there under its documented name: calls on it count from the start
            # (otherwise the recorder learns the part path from the first open for writing)
            spy.part_path = os.path.abspath(self.part_path(case, os.path.abspath(dest)))
        if case.get('prior'):
            # an EARLIER save in the same process (another saver object, another destination in the same directory)
            # suffered an operating-system failure: nothing of it may leak into the recorded save
            other = dest + '.prior'
            sp = Spy(other, plan={case['prior'][0]: case['prior'][1]})
            sp.install()
            try:
                with fu.atomic_save(other, overwrite=bool(case['ow'])) as f:
                    f.write(b'zz')
            except Exception:
                pass
            finally:
                sp.uninstall()
        held = []

        def start():
            # a reader opens the destination just before the recorded save begins and keeps the descriptor
            try:
                held.append(open(dest, 'rb'))
            except PermissionError:
                held.append(None)           # not readable by this user: nothing to compare
            except OSError:
                pass
            spy.install()
        try:
            _NS['run_save'](fu, dest, case, start)
        finally:
            spy.uninstall()
            spy.held = None
            if not held and not spy.log and os.path.isfile(dest):
                # the recorded save never began (refused by the constructor): the reader opens now
                try:
                    held.append(open(dest, 'rb'))
                except OSError:
                    held.append(None)
            if held and held[0] is None:
                spy.held = 'unreadable'
            elif held:
                try:
                    spy.held = held[0].read()
                finally:
                    held[0].close()

    @staticmethod
    def look(path):
        # what a READER of the path finds (symbolic links are followed; a link to nothing reads as no file)
        try:
            st = os.stat(path)
        except OSError:
            return None
        if not stat.S_ISREG(st.st_mode):
            return b'?notreg'
        with open(path, 'rb') as fh:
            return fh.read()

    def dir_letter(self, d, dest, case):
        """what a listing of the directory shows besides the destination (the harness owns the directory: any other
        name is the part file, whatever the current source calls it): - nothing, p a part file,
        l a part file that is a hard link to the inode readers of the destination reach (the window between link and unlink)"""
        try:
            names = [n for n in os.listdir(d) if n not in (DEST, TARGET, NOWHERE) and not n.startswith(DEST + '.prior')]
        except OSError:
            return '-'
        if not names:
            return '-'
        try:
            sd = os.stat(dest)
        except OSError:
            return 'p'
        for n in names:
            try:
                sp = os.lstat(os.path.join(d, n))
            except OSError:
                continue
            if (sp.st_ino, sp.st_dev) == (sd.st_ino, sd.st_dev):
                return 'l'
        return 'p'

    _strace = None

    def have_strace(self):
        if C04._strace is None:
            exe = shutil.which('strace')
            ok = False
            if exe:
                try:
                    ok = subprocess.run([exe, '-f', '-o', os.devnull, '-e', 'trace=write', sys.executable, '-c', 'pass'],
                                        stdout=subprocess.DEVNULL, stderr=subprocess.DEVNULL, timeout=20).returncode == 0
                except Exception:
                    ok = False
            C04._strace = exe if ok else False
            self.stats['strace'] = 'available' if ok else 'not available (syscall view skipped)'
        return C04._strace

    def impl_sys(self, case):
        from bv.common import REPO
        old, new = self.contents(case)
        obs = {'events': [], 'calls': [], 'out': 'ok', 'kills': None, 'final': '?', 'part': 0, 'extra': []}
        d = None
        try:
            d, dest = self.prepare(case)
            tr = os.path.join(d, 'bv-strace.txt')
            cj = json.dumps({k: v for k, v in case.items() if k != 'kind'})
            p = subprocess.run([self.have_strace(), '-f', '-s', '16', '-o', tr, '-e', 'trace=' + SYS_TRACE,
                                sys.executable, '-c', SYS_CHILD, REPO, dest, cj],
                               stdout=subprocess.PIPE, stderr=subprocess.PIPE, text=True, timeout=60)
            obs['out'] = (p.stdout.strip().splitlines() or ['exc:NoOutput'])[-1]
            with open(tr) as f:
                parsed = sys_events(f.read(), dest)
            os.unlink(tr)
            if parsed is None:
                obs['out'] = 'exc:NoTrace'
            else:
                obs['events'], obs['calls'] = parsed
            obs['final'] = classify(old, new, self.look(dest))
            names = sorted(os.listdir(d))
            pp = self.part_path(case, dest)
            obs['part'] = 1 if os.path.lexists(pp) else 0
            obs['extra'] = [n for n in names if n not in (DEST, TARGET, NOWHERE, os.path.basename(pp))]
        except subprocess.TimeoutExpired:
            obs['out'] = 'exc:CaseTimeout'
        finally:
            if d:
                shutil.rmtree(d, ignore_errors=True)
        self._cache[self.key(case)] = obs['events']
        return obs

    # every run of the real code happens in a forked child: whatever a save leaves behind in the process (module
    # or class attributes, the working directory, the umask) cannot leak into the cases that follow, so every
    # case - and every replay - is self-contained
    @staticmethod
    def in_child(fn):
        r, w = os.pipe()
        pid = os.fork()
        if pid == 0:
            try:
                os.close(r)
                try:
                    with time_limit(45):
                        res = fn()
                except CaseTimeout:
                    res = {'__timeout__': 1}
                except BaseException as e:
                    res = {'__error__': '%s: %s' % (type(e).__name__, e)}
                with os.fdopen(w, 'w') as fh:
                    json.dump(res, fh)
            finally:
                os._exit(0)
        os.close(w)
        try:
            with os.fdopen(r) as fh:
                data = fh.read()
            os.waitpid(pid, 0)
        except BaseException:
            try:
                os.kill(pid, 9)
                os.waitpid(pid, 0)
            except OSError:
                pass
            raise
        if not data:
            raise ChildDied()
        res = json.loads(data)
        if isinstance(res, dict) and res.get('__timeout__'):
            raise CaseTimeout()
        if isinstance(res, dict) and res.get('__error__'):
            raise RuntimeError('C04 harness child failed: ' + res['__error__'])
        return res

    def recorded(self, case):
        """(in a child) one recorded run of the case; returns the observation without the kill outcomes"""
        import boltons.fileutils as fu
        old, new = self.contents(case)
        os.umask(case['umask'])
        obs = {'events': [], 'calls': [], 'out': 'ok', 'kills': '', 'final': '?', 'part': 0, 'extra': []}
        d, dest = self.prepare(case)
        try:
            plan = {f[0]: f[1] for f in (case.get('fault'), case.get('fault2')) if f} or None
            if case.get('win'):
                fu = win_module()
            spy = (WinSpy if case.get('win') else PosixSpy)(dest, plan=plan)
            try:
                self.do_save(fu, dest, case, spy)
            except BODY_EXC:
                obs['out'] = 'body'
            except OSError as e:
                obs['out'] = 'os:%s' % (e.errno,)
            except CaseTimeout:
                raise
            except Exception as e:
                obs['out'] = 'exc:' + exc_name(e)
            obs['events'] = spy.events()
            obs['calls'] = spy.calls()
            hr = getattr(spy, 'held', None)
            obs['held'] = '-' if old is None else ('o' if hr == old or hr == 'unreadable' else 'X')
            obs['fired'] = int(any(r.get('injected') for r in spy.log))
            obs['final'] = classify(old, new, self.look(dest))
            names = sorted(os.listdir(d))
            pp = self.part_path(case, dest)
            obs['part'] = 1 if (os.path.lexists(pp) and not part_is_dest(case)) else 0
            obs['extra'] = [n for n in names if n not in (DEST, TARGET, NOWHERE, os.path.basename(pp)) and not n.startswith(DEST + '.prior')]
            obs['n_calls'] = spy.n
        finally:
            os.chdir('/')
            shutil.rmtree(d, ignore_errors=True)
        return obs

    def probe(self, cases):
        """recorded runs (no kills) of several cases, one after the other in ONE child"""
        if not cases:
            return []
        try:
            with time_limit(120):
                return self.in_child(lambda: [self.recorded(c) for c in cases])
        except (CaseTimeout, ChildDied) as e:
            return [{'events': [], 'calls': [], 'out': 'exc:' + exc_name(e), 'kills': '', 'final': '?', 'part': 0, 'extra': []} for _ in cases]

    def impl_pp(self, case):
        """what the constructor chooses as part path (public attributes dest_path / part_path)"""
        import boltons.fileutils as fu
        obs = {'pp': 'ok', 'same_dir': 0, 'name': '', 'is_dest': 0}
        try:
            with time_limit(10):
                kw = {} if case['pf'] is None else {'part_file': case['pf']}
                sv = fu.AtomicSaver(os.path.join('/bv-no-such-dir', case['dname']), **kw)
                dp, pp = os.fspath(sv.dest_path), os.fspath(sv.part_path)
                obs['same_dir'] = int(os.path.dirname(pp) == os.path.dirname(dp))
                obs['name'] = os.path.basename(pp)
                obs['is_dest'] = int(os.path.normpath(pp) == os.path.normpath(dp))
        except CaseTimeout:
            obs['pp'] = 'exc:CaseTimeout'
        except Exception as e:
            obs['pp'] = 'exc:' + exc_name(e)
        return obs

    def impl(self, case, kills=True):
        if case.get('kind') == 'sys':
            return self.impl_sys(case)
        if case.get('kind') == 'pp':
            return self.impl_pp(case)
        import boltons.fileutils as fu
        old, new = self.contents(case)
        obs = {'events': [], 'calls': [], 'out': 'ok', 'kills': '', 'final': '?', 'part': 0, 'extra': []}
        dirs = []
        pids = []
        try:
            with time_limit(60):
                # 1. recorded run
                obs = self.in_child(lambda: self.recorded(case))
                n_calls = obs.pop('n_calls')
                plan = {f[0]: f[1] for f in (case.get('fault'), case.get('fault2')) if f} or None
                # 2. the same save killed immediately before call k, k = 0..N (k = N: never killed)
                kills_l = []
                dirs_l = []
                running = []

                def drain():
                    for pid, dk, destk in running:
                        os.waitpid(pid, 0)
                        pids.remove(pid)
                        kills_l.append(classify(old, new, self.look(destk)))
                        dirs_l.append(self.dir_letter(dk, destk, case))
                        shutil.rmtree(dk, ignore_errors=True)
                    del running[:]
                for k in (range(n_calls + 1) if kills else ()):
                    dk, destk = self.prepare(case)
                    dirs.append(dk)
                    pid = os.fork()
                    if pid == 0:
                        try:
                            try:
                                os.umask(case['umask'])
                                if case.get('win'):
                                    self.do_save(win_module(), destk, case, WinSpy(destk, kill_at=k, plan=plan))
                                else:
                                    self.do_save(fu, destk, case, PosixSpy(destk, kill_at=k, plan=plan))
                            except BaseException:
                                pass
                        finally:
                            os._exit(0)
                    pids.append(pid)
                    running.append((pid, dk, destk))
                    if len(running) >= 8:       # the children are independent (a directory each): a few at a time
                        drain()
                drain()
                obs['kills'] = ''.join(kills_l)
                obs['dirs'] = ''.join(dirs_l)
        except ChildDied:
            obs['out'] = 'exc:ProcessEnded'
        except CaseTimeout:
            obs['out'] = 'exc:CaseTimeout'
            for pid in pids:
                try:
                    os.kill(pid, 9)
                    os.waitpid(pid, 0)
                except OSError:
                    pass
        finally:
            for d in dirs:
                shutil.rmtree(d, ignore_errors=True)
        self._cache[self.key(case)] = obs['events']
        return obs

    # ------------------------------------------------------------------ model line: the OBSERVED trace
    def line(self, case):
        if case.get('kind') == 'mv':
            return None            # the publishing primitive alone: no save for the automaton to judge (oracle-only)
        if case.get('kind') == 'pp':
            if not plain_name(case['dname']) or not (case['pf'] in (None, '') or plain_name(case['pf'])):
                return None        # a path, not a name: outside the model `C04.partName` (oracle-only)
            return 'P %s %s' % (hx(case['dname']), 'N' if case['pf'] is None else hx(case['pf']))
        k = self.key(case)
        if k not in self._cache:
            self.impl(case)
        evs = self._cache[k]
        dest = '-' if case['dest'] is None else '%d:%d' % tuple(case['dest'])
        if case.get('reuse') == 1:
            dest = '420:11'        # left by the earlier save through the same saver object
        elif case.get('sym'):
            dest = 'L' + dest      # the destination path is a symbolic link: the driver runs the link-aware model
        return ' '.join(['S' if case.get('kind') == 'sys' else 'A', str(case['umask']), dest, str(self.stale(case))] + evs)

    def render(self, case, obs):
        if case.get('kind') == 'pp':
            # any exception of the constructor is "refused" (class and message are not the statement's business)
            if obs['pp'] != 'ok':
                return 'refused'
            return 'ok %s' % hx(obs['name']) if obs['same_dir'] else 'ok outside-the-directory'
        # what a safe, feasible trace must give; the letters are the REAL kill outcomes
        return 'safe=1 exec=ok proc=%s power=ok final=%s part=%d dirs=%s held=%s' % (
            '-' if obs['kills'] is None else obs['kills'], obs['final'], obs['part'],
            '-' if obs.get('dirs') is None else obs['dirs'], '-' if obs['kills'] is None else obs.get('held', '-'))

    # ------------------------------------------------------------------ oracle: C04 restated on trace + kills
    def oracle(self, case, obs):
        st = self.stats
        if case.get('kind') == 'pp':
            # the part file must be a directory entry of its own: an accepted part_file never IS the destination
            st['part_name_cases'] = st.get('part_name_cases', 0) + 1
            self._nt = obs['pp'] == 'ok' and case['pf'] not in (None, '')
            if obs['pp'] == 'exc:CaseTimeout':
                return Failure('unexpected-exception', 'AtomicSaver() did not return')
            if obs['pp'] == 'ok' and obs['is_dest']:
                return Failure('part-is-destination', 'AtomicSaver(%r, part_file=%r) accepts a part file that is the destination itself: '
                               'the destination is created empty and written in place' % (case['dname'], case['pf']))
            if obs['pp'] != 'ok' and (case['pf'] in (None, '') or (plain_name(case['pf']) and case['pf'] != case['dname'])):
                return Failure('unexpected-exception', 'AtomicSaver(%r, part_file=%r) raised %s' % (case['dname'], case['pf'], obs['pp'][4:]))
            if obs['pp'] == 'ok' and plain_name(case['pf'] or 'x') and not obs['same_dir']:
                return Failure('part-not-exclusive', 'the part file is not created in the directory of the destination')
            return None
        st['saves'] = st.get('saves', 0) + 1
        st['kill_points'] = st.get('kill_points', 0) + len(obs['kills'] or '')
        if case.get('kind') == 'sys':
            st['syscall_view_cases'] = st.get('syscall_view_cases', 0) + 1
        for e in obs['events']:
            st['ev:' + e[0]] = st.get('ev:' + e[0], 0) + 1
        self._nt = False
        # a body that closes (detaches) the part file itself takes the file away from the saver: the save may then be
        # refused with the ValueError of the closed file (destination untouched) - or be completed, correctly
        closed_refusal = body_closes(case) and obs['out'] == 'exc:ValueError'
        # a part_file that names the destination itself: the constructor refuses (nothing has been called yet)
        alias_refusal = part_is_dest(case) and obs['out'].startswith('exc:') and obs['out'] not in ('exc:CaseTimeout', 'exc:ProcessEnded') and not obs['events']
        if alias_refusal:
            st['part_named_as_destination_refused'] = st.get('part_named_as_destination_refused', 0) + 1
        if obs['out'].startswith('exc:') and not closed_refusal and not alias_refusal:
            return Failure('unexpected-exception', 'atomic_save raised %s' % obs['out'][4:])
        if body_closes(case):
            st['closing_bodies'] = st.get('closing_bodies', 0) + 1
        for key in ('reuse', 'rel', 'pathlib', 'pname', 'fault2', 'prior', 'cls', 'win', 'sym', 'psym'):
            if case.get(key):
                st['with:' + key] = st.get('with:' + key, 0) + 1
        if 'intrude' in (case.get('ops') or ()):
            st['overlapping_writers'] = st.get('overlapping_writers', 0) + 1
        if case.get('kind') == 'mv':
            st['direct_rename_calls'] = st.get('direct_rename_calls', 0) + 1
        evs = obs['events']
        old, new = self.contents(case)
        old_letter = classify(old, new, old)
        # the destination is touched only by a single publishing event
        touch = [i for i, e in enumerate(evs) if e[0] in 'TWD?']
        if touch:
            return Failure('dest-touched', 'call #%d (%s: %s) modifies the destination or the part file outside the protocol'
                           % (touch[0], obs['calls'][touch[0]], evs[touch[0]]))
        pubs = [i for i, e in enumerate(evs) if e in ('R', 'L')]
        if len(pubs) > 1:
            return Failure('dest-touched', 'destination published %d times' % len(pubs))
        writes = [i for i, e in enumerate(evs) if e[0] == 'w']
        opens = [i for i, e in enumerate(evs) if e[0] == 'o']
        for i in opens:
            if not evs[i].startswith('o11:'):
                return Failure('part-not-exclusive', 'part file opened without O_CREAT|O_EXCL or outside the destination directory (%s)' % evs[i])
        if len(opens) > 1:
            return Failure('part-not-exclusive', 'the part file was created %d times during one save (calls #%s): two writers share one part file name'
                           % (len(opens), ', #'.join(map(str, opens))))
        if writes and (not opens or opens[0] > writes[0]):
            return Failure('dest-touched', 'a write precedes the creation of the part file')
        if pubs:
            p = pubs[0]
            if any(w > p for w in writes):
                return Failure('order', 'a write follows the publishing event')
            if writes:
                lw = writes[-1]
                fl = [i for i, e in enumerate(evs) if e in ('f', 'x') and lw < i < p]
                if not fl:
                    return Failure('order', 'no flush between the last write and the publishing event')
                sy = [i for i, e in enumerate(evs) if e == 's' and fl[0] < i < p]
                if not sy:
                    return Failure('order', 'no fsync between the flush and the publishing event')
        # kill results: old (or still absent) before the publishing call has run, complete new content after
        kills = obs['kills']
        if kills is None:
            kills = ''         # syscall view: no kill outcomes
        elif len(kills) != len(evs) + 1:
            return Failure('kill-harness', 'expected %d kill outcomes, got %d' % (len(evs) + 1, len(kills)))
        for k, letter in enumerate(kills):
            if letter not in (old_letter, 'n', 'b'):
                return Failure('partial-destination', 'killed before call #%d (%s): destination is %s' % (
                    k, obs['calls'][k] if k < len(obs['calls']) else 'end',
                    {'a': 'gone', 'X': 'neither the old nor the complete new content', 'o': 'old'}.get(letter, letter)))
            published = bool(pubs) and k > pubs[0]
            if letter != 'b':
                if published and letter != 'n':
                    return Failure('not-published', 'killed after the publishing call: destination still %s' % letter)
                if not published and letter == 'n' and old_letter != 'n':
                    return Failure('early-publication', 'new content visible when killed before call #%d, before the publishing event' % k)
        # a with-block that exits normally leaves the complete new content and no part file
        refused = (not case['ow']) and (case['dest'] is not None or case.get('reuse') == 1)
        if (not case['ow']) and case.get('sym') == 'dangling' and obs['out'] != 'ok':
            # overwrite=False over a link to nothing: the NAME exists, no file does - refusing is as good as saving
            refused = True
        blocked = self.stale(case) and not case['owp']
        if obs.get('fired'):
            if case.get('fault') and case['fault'][1] == 'K':
                st['interrupted_saves'] = st.get('interrupted_saves', 0) + 1
            # an operating-system failure was injected at one call (what the caller is told is C05's business):
            # the destination is the old one, or the complete new content put there by a publishing event
            st['faulted_saves'] = st.get('faulted_saves', 0) + 1
            if obs['final'] not in (old_letter, 'n', 'b'):
                return Failure('partial-destination', 'after a failed %s the destination is %s' % (
                    ' and a failed '.join(obs['calls'][f[0]] for f in (case.get('fault'), case.get('fault2')) if f and f[0] < len(obs['calls'])),
                    obs['final']))
            if obs['final'] == 'n' and old_letter != 'n' and not pubs:
                return Failure('dest-touched', 'new content at the destination without a publishing event')
        elif alias_refusal:
            if obs['final'] != old_letter:
                return Failure('partial-destination', 'the saver refused its arguments but the destination is %s' % obs['final'])
        elif closed_refusal:
            if obs['final'] != old_letter:
                return Failure('partial-destination', 'the save was refused (the body had closed the part file) but the destination is %s' % obs['final'])
        elif not case['raises'] and not refused and not blocked:
            if obs['out'] != 'ok':
                return Failure('normal-exit', 'a save with nothing in its way raised %s' % obs['out'])
            if obs['final'] not in ('n', 'b'):
                return Failure('normal-exit', 'after a normal exit the destination is %s, not the new content' % obs['final'])
            if obs['part'] or obs['extra']:
                return Failure('normal-exit', 'after a normal exit a part file is left: %s' % ([PART] * obs['part'] + obs['extra']))
        elif obs['final'] != old_letter:
            return Failure('partial-destination', 'the save did not complete but the destination is %s' % obs['final'])
        self._nt = bool(pubs) and 0 < pubs[0] < len(evs)
        return None

    def finding_part_file_is_destination(self, case, failure):
        """C04-part-file-is-destination: ONLY cases whose part_file argument resolves to the destination's own directory
        entry (the name cases judged `part-is-destination`, and whole saves run with such a part_file)"""
        if case.get('kind') == 'pp':
            return failure.tag == 'part-is-destination'
        return part_is_dest(case) and failure.tag in ('dest-touched', 'partial-destination', 'early-publication', 'normal-exit')

    def nontrivial(self, case, obs):
        return getattr(self, '_nt', False)

    # ------------------------------------------------------------------ diagnostic: observed trace vs the model's saverTrace
    def extra_checks(self):
        try:
            drv = Driver(self.PID)
            if not drv.available():
                return []
            cases = [c for c in itertools.islice(self.plain_cases(), 40)]
            # ... and bodies that close the part file, against the model's saverTraceClosed
            cases += [self.with_ops(dict(self.BASE, dest=dest, txt=txt, rm=rm, raises=raises), ops)
                      for dest, txt, rm, raises, ops in itertools.product((None, self.PRESENT), (0, 1), (1, 0), (0, 1),
                                                                          (['w5', 'close'], ['w3', 'w70000', 'with'], ['close']))]
            # ... and the Windows copy against the model's saverTraceNt
            cases += [dict(self.BASE, win=1, ow=ow, dest=dest, raises=raises, rm=rm, sizes=[3, 4])
                      for ow, dest, raises, rm in itertools.product((1, 0), (None, self.PRESENT), (0, 1), (1, 0))]
            lines, obs_ev = [], []
            for c in cases:
                o = self.impl(c, kills=False)
                if (not c['ow'] and c['dest'] is not None) or (c['part'] and not c['owp']):
                    continue
                dest = '-' if c['dest'] is None else '%d:%d' % tuple(c['dest'])
                lines.append(' '.join(['T', '%d%d%d%d' % (c['ow'], c['owp'], c['rm'], c['txt']),
                                       '-' if c['perms'] is None else str(c['perms']), str(c['umask']), dest,
                                       str(c['part']), str(min(c['raises'], 1)), ','.join(map(str, c['sizes'])) or '-']
                                      + (['closed'] if body_closes(c) else []) + (['nt'] if c.get('win') else [])))
                obs_ev.append(' '.join(e for e in o['events'] if e != 'n'))
            outs = drv.query(lines)
            same = sum(1 for a, b in zip(outs, obs_ev) if ' '.join(t for t in a.split() if t != 'n') == b)
            self.stats['observed_trace_identical_to_saverTrace'] = '%d/%d' % (same, len(outs))
        except Exception as e:  # diagnostic only
            self.stats['observed_trace_identical_to_saverTrace'] = 'n/a (%s)' % exc_name(e)
        return []

    def shrink(self, case):
        if case.get('kind') == 'pp':
            return
        if case.get('fault2'):
            yield {k: v for k, v in case.items() if k != 'fault2'}
        if case.get('ops'):
            ops = case['ops']
            for i in range(len(ops)):
                yield self.with_ops(case, ops[:i] + ops[i + 1:])
            for i, op in enumerate(ops):
                m = re.match(r'(w|wl|wrap)(\d+)$', op)
                if m and int(m.group(2)) > 6:
                    yield self.with_ops(case, ops[:i] + [m.group(1) + '6'] + ops[i + 1:])
            if not any(op in CLOSERS or op.startswith('wrap') or op in ('intrude', 'chdir') for op in ops):
                yield {k: v for k, v in dict(case, sizes=ops_sizes(ops)).items() if k != 'ops'}
            for key in ('reuse', 'rel', 'pathlib', 'pname', 'prior', 'cls', 'win'):
                if case.get(key):
                    yield {k: v for k, v in case.items() if k != key}
            return
        for key in ('reuse', 'rel', 'pathlib', 'pname', 'prior', 'cls'):
            if case.get(key) and not (key == 'reuse' and not case['ow']):
                yield {k: v for k, v in case.items() if k != key}
        if len(case['sizes']) > 1:
            yield dict(case, sizes=case['sizes'][:1])
            yield dict(case, sizes=case['sizes'][1:])
        if case['sizes'] and max(case['sizes']) > 5:
            yield dict(case, sizes=[min(s, 5) for s in case['sizes']])
        if case['txt']:
            yield dict(case, txt=0)
        if case['raises']:
            yield dict(case, raises=0)
        if case['raises'] > 1:
            yield dict(case, raises=1)
        if case.get('post'):
            yield dict(case, post=None)
        if case['part']:
            yield dict(case, part=0, owp=0)
        if case['perms'] is not None:
            yield dict(case, perms=None)
        if case.get('buffering', -1) != -1:
            yield dict(case, buffering=-1)
        if case['umask'] != 0o022:
            yield dict(case, umask=0o022)


PROPERTY = C04
