"""C13 - funcutils.wraps / update_wrapper / FunctionBuilder: signature and call behaviour preserved.

A case is one wrapped function plus everything observed about it:
  {'args': [1,2,3], 'defaults': [12,13], 'varargs': 7|None, 'kwonly': [4,5], 'kwdefaults': [[5,25]],
   'varkw': 9|None, 'ann': [[1,31]], 'ret': 39|None, 'async': 0|1, 'doc': 5|None, 'module': 2|None,
   'injected': [2], 'expected': [[6, None], [8, 41]], 'opts': [inject_to_varkw, hide_wrapped],
   'twice': 1 (the same wraps()/from_func() request is made twice on the same function; the second result is observed),
   'stack': n (the built function is wrapped again, plainly, n-1 more times; default 1),
   'form': 0..5 (how injected/expected are spelled: list / str / dict / update_wrapper() / tuple+list pairs / iterators),
   'calls': [[[101,102], [[4,110]]], ...]}
A case with an 'ops' field instead of injected/expected is a FunctionBuilder history:
from_func(f), then ['r', x] = remove_arg(x), ['a', z, d] = add_arg(z[, d]), ['k', z, d] = add_arg(z[, d], kwonly=True),
then body = 'return _call(<get_invocation_str()>)' and get_func().
A case with a 'session' field is several uses in one process (on a fresh copy of boltons.funcutils): F[0] = the function,
F[1] = the sibling if 'sib' is given ({'defaults','kwdefaults','ann','ret','doc','module'}: same name and parameter names),
then whatever the steps build; a step is ['w', t, injected, expected, opts, form[, share]] (wraps of F[t]; share=1: with the
user wrapper of the previous wraps step), ['b', t, ops] (builder history on F[t]), ['k', t, name, value|None] /
['n', t, name, value|None] (the user sets / pops an entry of F[t].__kwdefaults__ / __annotations__ in place).  Every
function is observed after every step; the calls are made on every built function at the end.
Parameter `n` is spelled `p<n>` in the Python source; values (defaults, annotations, call arguments)
are instances of `V` compared by identity and printed as their number.
"""
import inspect
import itertools
import json
import re

from bv.common import Property, Failure, time_limit, exc_name, CaseTimeout


class V:
    """an opaque value: default, annotation or call argument (identity semantics)"""
    __slots__ = ('n',)

    def __init__(self, n):
        self.n = n

    def __repr__(self):
        return 'V(%d)' % self.n


# value ids with a special meaning: falsy / equal-but-distinct / mutable Python objects as defaults and arguments
class AlwaysEqual:
    """compares equal to everything (a default must still be recognised by identity)"""
    __hash__ = object.__hash__

    def __eq__(self, other):
        return True

    def __ne__(self, other):
        return False


class NoTruth:
    """has no truth value"""

    def __bool__(self):
        raise ValueError('no truth value')


SPECIAL_VALUES = {210: AlwaysEqual, 211: NoTruth, 200: lambda: None, 201: lambda: 0, 202: lambda: False, 203: lambda: '', 204: lambda: (),
                  205: lambda: 0.0, 206: lambda: [], 207: lambda: {}, 208: lambda: 1, 209: lambda: True}


class Vals(dict):
    """value table of one case: id -> object; `rev` maps the identity of every object back to its id"""

    def __init__(self):
        dict.__init__(self)
        self.rev = {}

    def __missing__(self, n):
        v = self[n] = SPECIAL_VALUES[n]() if n in SPECIAL_VALUES else V(n)
        self.rev[id(v)] = n
        return v


CURRENT = [Vals()]
RET = 199       # what the user's wrapper returns when it does not pass the call on


# parameter ids with a special spelling: the names the builder itself uses in the exec namespace
SPECIAL = {90: '_call', 91: '_func', 92: '__call', 93: 'fn', 94: 'self', 95: 'args', 96: 'kwargs', 97: '\u00e9',
           98: 'name', 99: 'body', 89: '_', 88: 'match', 87: 'type', 86: 'case'}
SPECIAL_REV = {v: k for k, v in SPECIAL.items()}
FNAMES = {0: 'fn', 1: '_call', 2: '_func', 3: '<lambda>'}


def pn(n):
    return SPECIAL.get(n) or 'p%d' % n


def name_id(s):
    """inverse of pn; None for anything else"""
    if s in SPECIAL_REV:
        return SPECIAL_REV[s]
    if isinstance(s, str) and s[:1] == 'p' and s[1:].isdigit():
        return int(s[1:])
    return None


def vnum(x):
    """number of a value for the canonical text, by IDENTITY (a copy of a default is not that default);
    anything else gets a marker that never matches"""
    vals = CURRENT[0]
    n = vals.rev.get(id(x))
    if n is not None and vals.get(n) is x:
        return n
    return '?%s' % type(x).__name__


EMPTY = inspect.Parameter.empty
POK = inspect.Parameter.POSITIONAL_OR_KEYWORD
KINDS = {inspect.Parameter.POSITIONAL_ONLY: 'po', POK: 'pk', inspect.Parameter.VAR_POSITIONAL: 'va',
         inspect.Parameter.KEYWORD_ONLY: 'ko', inspect.Parameter.VAR_KEYWORD: 'vk'}


# every case compiles its functions at a line offset of its own: code objects compare by VALUE, and two
# cases must not look like "the same function again" to anything boltons might remember between them
# (within a case the pristine twin - and a sibling with the same docstring - do have equal code objects)
LINE_OFFSET = [0]


def source_of(case):
    """Python source of the wrapped function described by the case (uses tables D = defaults, A = annotations)"""
    return '\n' * LINE_OFFSET[0] + source_text(case)


def source_text(case):
    args, dfl = case['args'], case['defaults']
    ann = dict(map(tuple, case['ann']))
    kwd = dict(map(tuple, case['kwdefaults']))

    def named(n, default=None):
        s = pn(n)
        if n in ann:
            s += ': A[%d]' % ann[n]
        if default is not None:
            s += (' = ' if n in ann else '=') + 'D[%d]' % default
        return s
    parts = []
    first = len(args) - len(dfl)
    for i, a in enumerate(args):
        parts.append(named(a, dfl[i - first] if i >= first else None))
    if case['varargs'] is not None:
        parts.append('*' + named(case['varargs']))
    elif case['kwonly']:
        parts.append('*')
    for k in case['kwonly']:
        parts.append(named(k, kwd.get(k)))
    if case['varkw'] is not None:
        parts.append('**' + named(case['varkw']))
    if case.get('fname', 0) == 3:      # a lambda: no annotations, no docstring, not async
        return 'fn = lambda %s: dict(locals())\n' % ', '.join(parts)
    head = '%sdef %s(%s)%s:\n' % ('async ' if case['async'] else '', FNAMES[case.get('fname', 0)], ', '.join(parts),
                                  ' -> A[%d]' % case['ret'] if case['ret'] is not None else '')
    body = ''
    if case['doc'] is not None:
        body += '    "doc%d"\n' % case['doc']
    body += '    return dict(locals())\n'
    return head + body


def drive(x, is_async):
    """result of a call; coroutines are run to completion by hand"""
    if not is_async:
        return x
    try:
        x.send(None)
    except StopIteration as e:
        return e.value
    finally:
        x.close()
    raise RuntimeError('coroutine did not finish')


def dump_locals(d, case):
    """the locals a function saw -> JSON-able {'pos': [[n, v]...], 'star': [...]|None, 'kwo': ..., 'dstar': ...}"""
    if not isinstance(d, dict):
        return {'notdict': type(d).__name__}
    out = {'named': [], 'star': None, 'dstar': None}
    for k, v in d.items():
        n = name_id(k)
        if n is None:
            out.setdefault('odd', []).append(str(k))
            continue
        if n == case['varargs'] and isinstance(v, tuple):
            out['star'] = [n, [vnum(x) for x in v]]
        elif n == case['varkw'] and isinstance(v, dict):
            out['dstar'] = [n, [[str(kk), vnum(x)] for kk, x in v.items()]]
        else:
            out['named'].append([n, vnum(v)])
    return out


def dump_sig(fn):
    try:
        sig = inspect.signature(fn, follow_wrapped=False)
    except Exception as e:  # noqa
        return {'exc': exc_name(e)}
    ps = []
    for p in sig.parameters.values():
        ps.append([p.name, KINDS[p.kind], None if p.default is EMPTY else vnum(p.default),
                   None if p.annotation is EMPTY else vnum(p.annotation)])
    return {'params': ps, 'ret': None if sig.return_annotation is EMPTY else vnum(sig.return_annotation)}


def readded_ops(ops):
    """names a builder history removes and adds again later on (parameter ids): the statement says nothing
    about the annotation such a parameter ends up with, so the correspondence does not compare it"""
    out = []
    for i, op in enumerate(ops):
        if op[0] == 'r' and any(o[0] != 'r' and o[1] == op[1] for o in ops[i + 1:]):
            out.append(op[1])
    return out


def readded_w(inj, exp):
    """the same for wraps(injected, expected): every injected name comes before every expected one"""
    names = [z for z, _d in exp]
    return [x for x in inj if x in names]


class C13(Property):
    PID = 'C13'
    QUICK_BUDGET_S = 40
    THOROUGH_BUDGET_S = 600
    RULE = ('a case is one function signature (positional-or-keyword parameters with a suffix of defaults, '
            '*args, keyword-only parameters with/without defaults, **kw, annotations, return annotation, '
            'sync/async, docstring or none, module or none) plus ONE OF: (a) an injected list, an expected list, the '
            'options and the spelling of the request (list / str / dict / update_wrapper / tuple+list pairs / iterators); '
            '(b) a history of FunctionBuilder.remove_arg / add_arg(kwonly) calls; (c) a SESSION: a list of steps run in '
            'one process on a fresh copy of the module, each aimed at any function existing at that moment (the '
            'function, an optional sibling with the same name, parameter names and - half of the time - an equal code '
            'object but other defaults / annotations, or anything built by an earlier step): a wraps / update_wrapper '
            'request, a builder history, or an in-place edit by the user of a built function\'s __kwdefaults__ / '
            '__annotations__; equal requests of a session pass the very same list / dict object, some steps reuse the '
            'user wrapper of the previous step, some requests raise after the builder was already edited; every '
            'function is observed after EVERY step. And a list of call shapes (k positional values x a subset of '
            'keyword names incl. unknown ones); every call is made on the wrapped function (a pristine twin) directly '
            'and through the built function(s). Order of generation (small adversarial families first): names the '
            'builder itself uses (_call, _func, __call, soft keywords) as parameter / function names; every spelling x '
            'every special default value (None, falsy, always-equal, no truth value); sessions - for 7 signatures every '
            'ordered pair of ~20 requests on the same function followed by a plain wraps, chains x edits x re-wraps, '
            'sibling interleavings; then exhaustive: all signatures with <=3 positional / <=2 keyword-only (thorough '
            '<=4 / <=2) x {plain, every single injected name, missing name, expected with/without default, clashes, '
            'inject+expect} x all call shapes, sync and async; all builder histories of <=2 ops over a 9-12 letter '
            'alphabet on signatures with <=2 positional; by a rotating counter: annotations, docstring, module, special '
            'default values (compared by identity), decorators stacked 2-3 deep, the same request made twice, six '
            'spellings; a lambda; random: up to 6 positional / 4 keyword-only, multi-step injected+expected, histories '
            'of <=6 ops, stacks <=4, sessions of 2-7 steps. '
            'Non-trivial = the builder produced a function and either the call list contains both an accepted and a '
            'rejected call or the signature was modified, or (session) at least two steps with a function built; '
            'distinct = distinct case.')
    ASSUMPTIONS = ['no positional-only parameters; the wrapped object is a plain function (no partial / '
                   'classmethod / builtin); names are numbers in the model; the exec namespace and update_wrapper\'s '
                   'call-name loop are modelled for _call / __call / _func as parameter and function names (the '
                   'function name travels in the line as an `F<k>` token)',
                   'the annotation of a parameter that the SAME request removes and adds again (injected and expected, '
                   'remove_arg then add_arg) is not constrained by the statement: both sides print `*` for it, also in '
                   'everything built from that function later in a session',
                   'values (defaults, annotations, arguments) are compared by identity',
                   'source text is modelled at the granularity of comma-separated items; the text of '
                   'get_sig_str / get_invocation_str is compared character by character via __source__',
                   'sessions: single-threaded; a builder is not used again after get_func(); the user edits dicts of '
                   'built functions only (what follows for functions built FROM an edited one is left open); the '
                   'return value and the number of calls of the user\'s wrapper are judged by the oracle only']
    CORRESPONDENCE_NAME = 'C13.Driver (FunctionBuilder / update_wrapper / argument-binding model; sessions on the heap model) vs boltons.funcutils.wraps'

    # ------------------------------------------------------------------ translator
    def regen(self):
        """the text FunctionBuilder.get_sig_str(with_annotations=False) / get_invocation_str() produce NOW, for every
        builder shape with <=2 positional parameters, *args or none, <=2 keyword-only parameters, **kw or none (36
        shapes; the functions are evaluated - whether they use inspect_formatargspec and the _KWONLY_MARKER regex or
        anything else does not matter).  Props.lean proves (`generated_text_agrees`, by evaluation in the kernel)
        that the character-level model of Text.lean - join with ', ', the scanner for the regex - yields the same
        text modulo white space on each of them."""
        from boltons import funcutils
        ok = set('abcdefghijklmnopqrstuvwxyzABCDEFGHIJKLMNOPQRSTUVWXYZ0123456789_ ,*=()\t')
        rows = []
        for args in ([], [1], [1, 2]):
            for va in (None, 7):
                for kwo in ([], [4], [4, 5]):
                    for vk in (None, 9):
                        fb = funcutils.FunctionBuilder('fn', args=['p%d' % a for a in args],
                                                       varargs=None if va is None else 'p%d' % va,
                                                       varkw=None if vk is None else 'p%d' % vk,
                                                       kwonlyargs=['p%d' % k for k in kwo])
                        sig, inv = fb.get_sig_str(with_annotations=False), fb.get_invocation_str()
                        for t in (sig, inv):
                            if not isinstance(t, str) or not set(t) <= ok:
                                raise ValueError('get_sig_str / get_invocation_str returned %r' % (t,))
                        opt = lambda x: 'none' if x is None else 'some %d' % x   # noqa: E731
                        rows.append('  ((%s, %s, %s, %s), "%s", "%s")' % (args, opt(va), kwo, opt(vk),
                                                                           sig.replace('\t', '\\t'), inv.replace('\t', '\\t')))
        src = ('/- GENERATED by harness/bv/props/c13.py (regen) from boltons/funcutils.py - do not edit -/\n'
               'namespace C13.Gen\n'
               '/-- ((args, varargs, kwonlyargs, varkw), get_sig_str(with_annotations=False), get_invocation_str()) -/\n'
               'def textTable : List ((List Nat × Option Nat × List Nat × Option Nat) × String × String) := [\n'
               + ',\n'.join(rows) + ']\n'
               'end C13.Gen\n')
        return {'C13_Text.lean': src}

    # ------------------------------------------------------------------ generation
    def base_sigs(self, maxpos, kwo_cfgs):
        for npos in range(maxpos + 1):
            for ndef in range(npos + 1):
                for va in (None, 7):
                    for kwonly, kwd in kwo_cfgs:
                        for vk in (None, 9):
                            args = [1, 12, 3, 4][:npos]       # p1 is a prefix of p12 / p14 / p15
                            yield {'args': args, 'defaults': [10 + a for a in args[npos - ndef:]],
                                   'varargs': va, 'kwonly': list(kwonly), 'kwdefaults': [list(p) for p in kwd],
                                   'varkw': vk}

    def decorate(self, sig, i):
        """annotations / async / doc / module chosen by the bits of a counter (covering, not a full product)"""
        names = sig['args'] + ([sig['varargs']] if sig['varargs'] is not None else []) + sig['kwonly'] + \
            ([sig['varkw']] if sig['varkw'] is not None else [])
        mode = i % 4
        if mode == 0:
            ann = []
        elif mode == 1:
            ann = [[n, 30 + n] for n in names]
        else:
            ann = [[n, 30 + n] for j, n in enumerate(names) if (j + mode) % 2 == 0]
        if (i // 32) % 2:     # falsy default values: None, '', 0 / False
            sig = dict(sig, defaults=[[200, 203, 201, 210, 211][(j + i // 64) % 5] for j in range(len(sig['defaults']))],
                       kwdefaults=[[k, 202 if j % 2 else 200] for j, (k, _d) in enumerate(sig['kwdefaults'])])
        return dict(sig, ann=ann, ret=(39 if (i // 4) % 2 else None), doc=(5 if (i // 8) % 2 == 0 else None),
                    module=(2 if (i // 16) % 2 == 0 else None), **{'async': (i // 2) % 2})

    def call_shapes(self, sig, extra_names=(), removed=()):
        names = [n for n in sig['args'] + sig['kwonly'] if n not in removed] + list(extra_names) + [8]
        npos = len(sig['args']) + len(extra_names)
        calls = []
        sizes = range(len(names) + 1)
        if len(names) > 6:      # wide signatures: small and nearly-complete keyword sets only
            sizes = [r for r in sizes if r <= 2 or r >= len(names) - 1]
        for k in range(npos + 2):
            for r in sizes:
                for ks in itertools.combinations(names, r):
                    calls.append([[100 + j for j in range(k)], [[n, 110 + n] for n in ks]])
        return calls

    def plans(self, sig):
        """(injected, expected) variants worth enumerating for a signature"""
        yield [], []
        for n in sig['args'] + sig['kwonly']:
            yield [n], []
        yield [6], []                                   # missing name (varkw catches it, or MissingArgument)
        if sig['args']:
            yield [6, sig['args'][0]], []               # a missing name must not stop the later ones
        if sig['varargs'] is not None:
            yield [sig['varargs']], []                  # not an argument name
        yield [], [[6, None]]
        yield [], [[6, 41]]
        yield [], ([[6, None], [3, 43]] if 3 not in sig['args'] else [[6, 41], [16, None]])
        if sig['args']:
            yield [], [[sig['args'][-1], None]]         # ExistingArgument
            yield [sig['args'][0]], [[6, None]]
            yield [sig['args'][-1]], [[sig['args'][-1], 44]]   # remove, then re-add with another default
        if sig['kwonly']:
            yield [], [[sig['kwonly'][0], 42]]          # ExistingArgument
            yield [sig['kwonly'][0]], [[6, 41]]
        if sig['varkw'] is not None:
            yield [], [[sig['varkw'], None]]            # duplicate name in the def -> SyntaxError

    def cases(self, budget_s):
        rng = self.rng
        if self.thorough:
            kwo_cfgs = [((), ()), ((14,), ()), ((14,), ((14, 24),)), ((15, 14), ()), ((15, 14), ((14, 24),)),
                        ((15, 14), ((15, 25),)), ((15, 14), ((14, 24), (15, 25)))]
            maxpos = 4
        else:
            kwo_cfgs = [((), ()), ((14,), ()), ((14,), ((14, 24),)), ((15, 14), ((15, 25),))]
            maxpos = 3
        # small, adversarial families first: a slow machine never loses them.  They run on a fresh copy of
        # the module each ('fresh' / sessions), so the first failing input found reproduces on its own.
        for c in self.hygiene_cases():
            yield dict(c, fresh=1)
        for c in self.spelling_cases():
            yield dict(c, fresh=1)
        for c in self.session_cases(rng):
            yield c
        i = rng.randrange(64)
        for sig in self.base_sigs(maxpos, kwo_cfgs):
            for inj, exp in self.plans(sig):
                calls = self.call_shapes(sig, [z for z, _ in exp if z not in sig['args'] + sig['kwonly']],
                                         [x for x in inj if x not in [z for z, _ in exp]])
                for asy in (0, 1):
                    i += 1
                    c = self.decorate(sig, i)
                    c.update(injected=inj, expected=exp, opts=[1, 0], form=i % 6)
                    c['async'] = asy
                    if 6 in inj and i % 3 == 0:
                        c['opts'] = [0, 0]
                    if not inj and not exp and i % 5 == 0:
                        c['opts'] = [1, 1]
                    if i % 3 == 1:
                        c['stack'] = 2 + (i // 3) % 2       # decorators stacked 2 or 3 deep
                    if i % 2:
                        c['twice'] = 1                      # the same request was made before
                    c['calls'] = calls
                    yield c
        for c in self.history_cases(rng, 2 if self.thorough else 1):
            yield c
        n_rand = 20000 if self.thorough else 1500
        for j in range(n_rand):
            yield self.random_case(rng, big=(j % 4 == 0))
            if j % 3 == 0:
                yield self.random_history(rng, big=(j % 12 == 0))
            if j % 2 == 0:
                yield self.random_session(rng, big=(j % 8 == 0))

    # ------------------------------------------------------------------ sessions
    SESSION_SIGS = [
        {'args': [1, 12], 'defaults': [22], 'varargs': None, 'kwonly': [14, 15], 'kwdefaults': [[14, 24]], 'varkw': None},
        {'args': [1], 'defaults': [], 'varargs': 7, 'kwonly': [15, 14], 'kwdefaults': [[15, 25], [14, 24]], 'varkw': 9},
        {'args': [], 'defaults': [], 'varargs': None, 'kwonly': [14], 'kwdefaults': [[14, 24]], 'varkw': None},
        {'args': [1, 12, 3], 'defaults': [22, 23], 'varargs': None, 'kwonly': [], 'kwdefaults': [], 'varkw': 9},
        {'args': [1], 'defaults': [11], 'varargs': None, 'kwonly': [14], 'kwdefaults': [], 'varkw': None},
        {'args': [], 'defaults': [], 'varargs': None, 'kwonly': [], 'kwdefaults': [], 'varkw': None},
        {'args': [1, 12], 'defaults': [], 'varargs': 7, 'kwonly': [], 'kwdefaults': [], 'varkw': None},
    ]

    def session_calls(self, sig, extra=()):
        """a handful of call shapes with accepted and rejected ones for the signature and its neighbours"""
        args, kwo = sig['args'], sig['kwonly']
        nreq = len(args) - len(sig['defaults'])
        kwd = {k for k, _d in sig['kwdefaults']}
        req_kw = [[k, 110 + k] for k in kwo if k not in kwd]
        calls = [[[], []],
                 [[100 + j for j in range(len(args))], req_kw],
                 [[], [[n, 110 + n] for n in args + kwo]],
                 [[100 + j for j in range(nreq)], req_kw],
                 [[100 + j for j in range(nreq)], req_kw + [[8, 118]]],
                 [[100 + j for j in range(len(args) + 1)], req_kw],
                 [[100 + j for j in range(nreq)], [[k, 110 + k] for k in kwo]]]
        for z in extra:
            calls.append([[100 + j for j in range(nreq)], req_kw + [[z, 110 + z]]])
        out = []
        for c in calls:
            if c not in out:
                out.append(c)
        return out

    def session_alphabet(self, sig, t, full=True):
        """requests aimed at F[t]"""
        names = sig['args'] + sig['kwonly']
        alpha = [['w', t, [], [], [1, 0], 0]]
        alpha += [['w', t, [n], [], [1, 0], 0] for n in names]
        alpha += [['w', t, [], [[6, None]], [1, 0], 0], ['w', t, [], [[6, 41]], [1, 0], 0]]
        alpha += [['b', t, [['r', n]]] for n in sig['kwonly'] + sig['args'][-1:]]
        alpha += [['b', t, [['k', 8, 42]]], ['b', t, [['k', 8, None]]]]
        if full:
            alpha += [['w', t, [6], [], [1, 0], 0], ['w', t, [], [], [1, 1], 0], ['b', t, [['a', 6, None]]], ['b', t, []]]
            if sig['kwonly']:
                k = sig['kwonly'][0]
                alpha += [['b', t, [['r', k], ['k', k, 43]]], ['w', t, [k], [[k, 44]], [1, 0], 0]]
            # requests that raise AFTER the builder has been edited (MissingArgument / ExistingArgument / SyntaxError)
            last = (sig['kwonly'] + sig['args'])[:1]
            alpha += [['w', t, last + [6], [], [0, 0], 0], ['w', t, last, [[6, 41], [6, None]], [1, 0], 0],
                      ['b', t, [['r', n] for n in last] + [['k', 8, 42], ['r', 6]]]]
        return alpha

    def session_case(self, sig, i, steps, sib=None, extra=()):
        c = self.decorate(sig, i)
        c['session'] = [list(s) for s in steps]
        for j, s in enumerate(c['session']):
            if s[0] == 'w':
                s[5] = (i + len(s[2]) + 2 * len(s[3])) % 6   # the spelling rotates; equal requests of a session are spelled alike
        if sib is not None:
            c['sib'] = dict(sib, doc=c['doc']) if i % 2 else sib     # same docstring: the code objects are EQUAL
        c['calls'] = self.session_calls(sig, extra)
        return c

    def session_cases(self, rng, quick=True):
        """the same function (and what was built from it) used several times in one process"""
        i = rng.randrange(64)
        for sig in self.SESSION_SIGS:
            # (1) every ordered pair of requests on the same function, then a plain wraps of it
            alpha = self.session_alphabet(sig, 0)
            for x in alpha:
                for y in alpha:
                    i += 1
                    yield self.session_case(sig, i, [x, y, ['w', 0, [], [], [1, 0], 0] + ([1] if i % 4 == 0 else [])], extra=(6,))
            # (2) chains, and in-place edits by the user of what was built
            edit_names = sig['kwonly'] + sig['args'][-1:] + [8]
            edits = [[kind, 1, n, v] for n in edit_names for kind, v in (('k', 77), ('k', None), ('n', 88), ('n', None))]
            small = self.session_alphabet(sig, 1, full=False)
            for x in self.session_alphabet(sig, 0, full=False):
                for q, y in enumerate(small):
                    i += 1
                    e1 = edits[(i + q) % len(edits)]
                    e2 = [edits[(i * 7 + q) % len(edits)][0], 2] + edits[(i * 7 + q) % len(edits)][2:]
                    # F[1] = x(F[0]); F[2] = y(F[1]); edit F[1]; F[3] = wraps(F[0]); F[4] = wraps(F[1]); edit F[2]; F[5] = wraps(F[2])
                    yield self.session_case(sig, i, [x, y, e1, ['w', 0, [], [], [1, 0], 0], ['w', 1, [], [], [1, 0], 0], e2,
                                                     ['w', 2, [], [], [1, 0], 0]], extra=(6,))
                    if q % 3 == 0:      # the edit comes first: what is built afterwards sees the edited function
                        yield self.session_case(sig, i, [x, e1, y, ['w', 1, [], [], [1, 0], 0], ['w', 0, [], [], [1, 0], 0]], extra=(6,))
            # (3) a sibling: same name, same parameter names, other defaults / annotations / docstring
            sib = {'defaults': [60 + a for a in sig['args'][1:]] if len(sig['args']) > 1 else [],
                   'kwdefaults': [[k, 70 + k] for k in sig['kwonly'][-1:]],
                   'ann': [[n, 50 + n] for n in (sig['args'] + sig['kwonly'])[:2]], 'ret': None if i % 2 else 59,
                   'doc': 6 if i % 3 else None, 'module': 2 if i % 2 else 3}
            a0 = self.session_alphabet(sig, 0, full=False)
            a1 = self.session_alphabet(sig, 1, full=False)
            for x in a0:
                for y in a1:
                    i += 1
                    order = [[x, y], [y, x]][i % 2]
                    yield self.session_case(sig, i, order + [['w', 0, [], [], [1, 0], 0], ['w', 1, [], [], [1, 0], 0],
                                                             ['w', 2, [], [], [1, 0], 0]], sib=sib, extra=(6,))

    def random_session(self, rng, big=False):
        c = self.random_case(rng, big)
        for key in ('injected', 'expected', 'opts', 'form', 'stack', 'twice'):
            c.pop(key, None)
        args, kwonly = c['args'], c['kwonly']
        taken = set(args + kwonly + [n for n in (c['varargs'], c['varkw']) if n is not None])
        fresh = [n for n in range(1, 34) if n not in taken][:4]
        if rng.random() < 0.3 and c.get('fname', 0) != 3:
            nd = rng.randint(0, len(args))
            c['sib'] = {'defaults': [60 + a for a in args[len(args) - nd:]],
                        'kwdefaults': [[k, 70 + k] for k in kwonly if rng.random() < 0.5],
                        'ann': [[n, 50 + n] for n in args + kwonly if rng.random() < 0.3], 'ret': rng.choice([None, 59]),
                        'doc': rng.choice([None, 6, c['doc']]), 'module': rng.choice([None, 2, 3])}
        nbase = 2 if c.get('sib') else 1
        nfun = nbase
        steps = []
        for _ in range(rng.randint(2, 7)):
            t = rng.randrange(nfun) if rng.random() < 0.9 else nfun + 1
            q = rng.random()
            if q < 0.3:
                steps.append(['w', t, [], [], [1, 1 if rng.random() < 0.15 else 0], rng.randrange(6)])
                nfun += 1
            elif q < 0.6:
                inj = [rng.choice(args + kwonly + fresh[:1]) for _ in range(rng.randint(0, 2))] if args + kwonly else []
                exp = [[rng.choice(fresh), rng.choice([None, 90])] for _ in range(rng.randint(0, 1 if inj else 2))]
                steps.append(['w', t, inj, exp, [0 if rng.random() < 0.15 else 1, 0], rng.randrange(6)])
                nfun += 1
            elif q < 0.8:
                ops = []
                for _ in range(rng.randint(0, 3)):
                    if rng.random() < 0.5 and args + kwonly:
                        ops.append(['r', rng.choice(args + kwonly)])
                    else:
                        ops.append([rng.choice('akk'), rng.choice(fresh + kwonly[:1]), rng.choice([None, 91])])
                steps.append(['b', t, ops])
                nfun += 1
            elif nfun > nbase:
                t = rng.randrange(nbase, nfun)
                steps.append([rng.choice('kn'), t, rng.choice(args + kwonly + fresh[:1]), rng.choice([None, 77, 200])])
        c['session'] = steps
        c['calls'] = c['calls'][:8]
        return c

    def history_cases(self, rng, maxkwo):
        """FunctionBuilder histories: every op sequence of length <= 2 over a small alphabet, small signatures"""
        kwo_cfgs = [((), ()), ((14,), ()), ((14,), ((14, 24),)), ((15, 14), ((15, 25),))][:2 + maxkwo]
        i = rng.randrange(64)
        for sig in self.base_sigs(2, kwo_cfgs):
            alpha = [['r', n] for n in sig['args'] + sig['kwonly']] + [['r', 6]]
            alpha += [['a', 6, None], ['a', 6, 41], ['k', 8, None], ['k', 8, 42], ['a', 8, 43]]
            if sig['args']:
                alpha.append(['a', sig['args'][0], None])
                alpha.append(['a', sig['args'][-1], None])      # after a removal: re-added without its old default
            if sig['kwonly']:
                alpha.append(['k', sig['kwonly'][0], None])
            seqs = [[]] + [[a] for a in alpha] + [[a, b] for a in alpha for b in alpha]
            names = sig['args'] + sig['kwonly'] + [6, 8]
            for ops in seqs:
                i += 1
                c = self.decorate(sig, i)
                c['ops'] = ops
                if i % 2:
                    c['twice'] = 1
                c['calls'] = self.random_calls(rng, names, len(sig['args']) + 2, len(sig['args']) - len(sig['defaults']), 6)
                yield c

    def random_calls(self, rng, names, total_pos, nreq, n):
        calls = []
        for _ in range(n):
            k = max(0, rng.choice([rng.randint(0, total_pos + 1), rng.randint(0, total_pos + 1), nreq, total_pos - 1]))
            ks = [m for m in dict.fromkeys(names) if rng.random() < (0.5 if rng.random() < 0.7 else 0.15)]
            rng.shuffle(ks)
            calls.append([[100 + j for j in range(k)], [[m, 150 + m] for m in ks]])
        return calls

    def random_history(self, rng, big=False):
        c = self.random_case(rng, big)
        present = c['args'] + c['kwonly']
        fresh = [n for n in range(1, 34) if n not in present and n not in (c['varargs'], c['varkw'])][:5]
        for key in ('injected', 'expected', 'opts', 'form', 'fname', 'stack'):
            c.pop(key, None)
        ops = []
        for _ in range(rng.randint(0, 6)):
            q = rng.random()
            pool = present + fresh
            if q < 0.45 and pool:
                ops.append(['r', rng.choice(present) if present and rng.random() < 0.85 else rng.choice(pool)])
            else:
                z = rng.choice(fresh) if rng.random() < 0.85 else rng.choice(pool + [n for n in (c['varargs'], c['varkw']) if n is not None])
                ops.append([rng.choice(['a', 'a', 'k']), z, rng.choice([None, 80 + z])])
        c['ops'] = ops
        c['calls'] = self.random_calls(rng, present + fresh[:3], len(c['args']) + 3, len(c['args']) - len(c['defaults']),
                                       rng.randint(5, 20))
        return c

    def hygiene_cases(self):
        """parameters / functions spelled like the names the builder puts into the exec namespace"""
        sigs = [
            {'args': [90], 'defaults': [], 'varargs': None, 'kwonly': [], 'kwdefaults': [], 'varkw': None},
            {'args': [1, 90], 'defaults': [60], 'varargs': 92, 'kwonly': [91], 'kwdefaults': [], 'varkw': None},
            {'args': [91, 93], 'defaults': [], 'varargs': None, 'kwonly': [90], 'kwdefaults': [[90, 61]], 'varkw': 92},
            {'args': [1], 'defaults': [], 'varargs': 90, 'kwonly': [], 'kwdefaults': [], 'varkw': 91},
            {'args': [1, 2], 'defaults': [12], 'varargs': None, 'kwonly': [4], 'kwdefaults': [], 'varkw': 90},
        ]
        i = 0
        for sig in sigs:
            for fname in (0, 1, 2, 3):
                for inj, exp in ([], []), ([sig['args'][0]], []), ([], [[6, None]]), ([], [[90, 45]]), ([], [[6, 200]]):
                    i += 1
                    c = self.decorate(sig, i)
                    c.update(injected=inj, expected=exp, opts=[1, 0], form=0, fname=fname)
                    if fname == 3:
                        c.update(ann=[], ret=None, doc=None, **{'async': 0})
                    c['calls'] = self.call_shapes(sig, [z for z, _ in exp if z not in sig['args'] + sig['kwonly']],
                                                  inj)
                    yield c

    def spelling_cases(self):
        """every documented spelling of injected / expected x every special default value (None, falsy,
        always-equal, no truth value): a value- or spelling-sensitive slip in the request parser shows early"""
        sigs = [{'args': [1, 12], 'defaults': [22], 'varargs': None, 'kwonly': [14], 'kwdefaults': [[14, 24]], 'varkw': None},
                {'args': [], 'defaults': [], 'varargs': 7, 'kwonly': [], 'kwdefaults': [], 'varkw': 9}]
        i = 0
        for sig in sigs:
            for form in range(6):
                for d in sorted(SPECIAL_VALUES) + [41]:
                    for inj, exp in (([], [[6, d]]), ([sig['args'][0]] if sig['args'] else [6], [[6, d]]),
                                     ([], [[6, None], [16, d]]), ([], [[16, d], [6, d]])):
                        i += 1
                        c = self.decorate(sig, i % 32)
                        c.update(injected=inj, expected=exp, opts=[1, 0], form=form)
                        c['calls'] = self.session_calls(sig, extra=(6, 16))
                        yield c

    def deep_cases(self, budget_s):
        rng = self.rng
        kwo_cfgs = [((), ()), ((14,), ()), ((14,), ((14, 24),)), ((15, 14), ((15, 25),)), ((15, 14), ((14, 24),))]
        i = 0
        for sig in self.base_sigs(3, kwo_cfgs):
            for inj, exp in self.plans(sig):
                i += 1
                c = self.decorate(sig, i)
                c.update(injected=inj, expected=exp, opts=[1, 0], form=i % 6)
                c['calls'] = self.call_shapes(sig, [z for z, _ in exp if z not in sig['args'] + sig['kwonly']],
                                              [x for x in inj if x not in [z for z, _ in exp]])
                yield c
        for c in self.session_cases(rng):
            yield c
        while True:
            yield self.random_case(rng, big=rng.random() < 0.5)
            yield self.random_history(rng, big=rng.random() < 0.5)
            yield self.random_session(rng, big=rng.random() < 0.5)

    def random_case(self, rng, big=False):
        npos = rng.randint(0, 6 if big else 3)
        nkwo = rng.randint(0, 4 if big else 2)
        pool = list(range(1, 30))
        if rng.random() < 0.1:
            pool += [86, 87, 88, 89, 90, 91, 92, 93, 94, 95, 96, 97, 98, 99]
        rng.shuffle(pool)
        args = pool[:npos]
        kwonly = pool[npos:npos + nkwo]
        va = pool[npos + nkwo] if rng.random() < 0.5 else None
        vk = pool[npos + nkwo + 1] if rng.random() < 0.5 else None
        fresh = pool[npos + nkwo + 2:npos + nkwo + 6]
        ndef = rng.randint(0, npos)
        sig = {'args': args, 'defaults': [40 + a for a in args[npos - ndef:]], 'varargs': va, 'kwonly': kwonly,
               'kwdefaults': [[k, 70 + k] for k in kwonly if rng.random() < 0.5], 'varkw': vk}
        if rng.random() < 0.25:     # falsy / equal-but-distinct / mutable / shared default values
            special = [rng.choice(range(200, 212)) for _ in range(3)]
            sig['defaults'] = [rng.choice(special) if rng.random() < 0.7 else d for d in sig['defaults']]
            sig['kwdefaults'] = [[k, rng.choice(special) if rng.random() < 0.7 else d] for k, d in sig['kwdefaults']]
        c = self.decorate(sig, rng.randrange(64))
        inj, exp = [], []
        r = rng.random()
        if r < 0.6:
            present = args + kwonly
            for _ in range(rng.randint(0, 3)):
                q = rng.random()
                if q < 0.8 and present:
                    inj.append(rng.choice(present))          # may repeat -> second removal is "missing"
                elif q < 0.9:
                    inj.append(rng.choice(fresh))
                elif va is not None:
                    inj.append(va)
            for _ in range(rng.randint(0, 3)):
                q = rng.random()
                if q < 0.8:
                    z = rng.choice(fresh)
                elif q < 0.9 and (args + kwonly):
                    z = rng.choice(args + kwonly)
                else:
                    z = rng.choice([n for n in (va, vk) if n is not None] or fresh)
                exp.append([z, rng.choice([None, None, 90 + z, rng.choice(range(200, 212))])])
        c.update(injected=inj, expected=exp, form=rng.randrange(6), fname=(rng.randrange(4) if rng.random() < 0.08 else 0),
                 opts=[0 if rng.random() < 0.15 else 1, 1 if rng.random() < 0.15 else 0])
        # calls: mostly near-valid
        names = args + kwonly + [z for z, _ in exp] + fresh[:1]
        total_pos = len(args) + len(exp)
        calls = []
        for _ in range(rng.randint(5, 40 if big else 20)):
            k = rng.choice([rng.randint(0, total_pos + 1), rng.randint(0, total_pos + 1), len(args) - ndef, len(args)])
            k = max(0, k)
            ks = [n for n in dict.fromkeys(names) if rng.random() < (0.5 if rng.random() < 0.7 else 0.15)]
            rng.shuffle(ks)
            calls.append([[100 + j for j in range(k)], [[n, 150 + n] for n in ks]])
        if rng.random() < 0.2:      # falsy / special argument values
            calls = [[[rng.choice(range(200, 212)) if rng.random() < 0.5 else v for v in pos],
                      [[n, rng.choice(range(200, 212)) if rng.random() < 0.5 else v] for n, v in kws]] for pos, kws in calls]
        c['calls'] = calls
        if c['fname'] == 3:         # a lambda
            c.update(ann=[], ret=None, doc=None, **{'async': 0})
        if rng.random() < 0.25:
            c['stack'] = rng.choice([2, 2, 3, 4])
        if rng.random() < 0.3:
            c['twice'] = 1
        return c

    # ------------------------------------------------------------------ model line
    def line(self, case):
        ln = self.line0(case)
        fname = case.get('fname', 0)
        return 'F%d %s' % (fname, ln) if fname else ln

    def line0(self, case):
        def nl(l):
            return ','.join(str(x) for x in l) or '-'

        def prs(l):
            return ','.join('%d:%s' % (k, '-' if v is None else v) for k, v in l) or '-'

        def on(x):
            return '-' if x is None else str(x)

        def ops_txt(ops):
            return ','.join(('r%d' % op[1]) if op[0] == 'r' else '%s%d:%s' % (op[0], op[1], on(op[2])) for op in ops) or '-'
        if 'session' in case:
            sib = case.get('sib')
            toks = ['W', nl(case['args']), nl(case['defaults']), on(case['varargs']), nl(case['kwonly']),
                    prs(case['kwdefaults']), on(case['varkw']), prs(case['ann']), on(case['ret']),
                    str(case['async']), on(case['doc']), on(case['module']),
                    ';'.join([nl(sib['defaults']), prs(sib['kwdefaults']), prs(sib['ann']), on(sib['ret']),
                              on(sib['doc']), on(sib['module'])]) if sib else '-']
            for st in case['session']:
                if st[0] == 'w':
                    toks.append('w%d|%s|%s|%d%d' % (st[1], nl(st[2]), prs(st[3]), st[4][0], st[4][1]))
                elif st[0] == 'b':
                    toks.append('b%d|%s' % (st[1], ops_txt(st[2])))
                else:
                    toks.append('%s%d|%d|%s' % (st[0], st[1], st[2], on(st[3])))
            for pos, kws in case['calls']:
                toks.append('%s/%s' % (nl(pos), prs(kws)))
            return ' '.join(toks)
        if 'ops' in case:
            ops = ','.join(('r%d' % op[1]) if op[0] == 'r' else '%s%d:%s' % (op[0], op[1], on(op[2]))
                           for op in case['ops']) or '-'
            toks = ['B', nl(case['args']), nl(case['defaults']), on(case['varargs']), nl(case['kwonly']),
                    prs(case['kwdefaults']), on(case['varkw']), prs(case['ann']), on(case['ret']),
                    str(case['async']), on(case['doc']), on(case['module']), ops]
            for pos, kws in case['calls']:
                toks.append('%s/%s' % (nl(pos), prs(kws)))
            return ' '.join(toks)
        toks = [nl(case['args']), nl(case['defaults']), on(case['varargs']), nl(case['kwonly']),
                prs(case['kwdefaults']), on(case['varkw']), prs(case['ann']), on(case['ret']),
                str(case['async']), on(case['doc']), on(case['module']), nl(case['injected']),
                prs(case['expected']), '%d%d' % tuple(case['opts']) + ('%d' % case['stack'] if case.get('stack', 1) > 1 else '')]
        for pos, kws in case['calls']:
            toks.append('%s/%s' % (nl(pos), prs(kws)))
        return ' '.join(toks)

    # ------------------------------------------------------------------ implementation
    def spell(self, case, injected=None, expected=None, form=None):
        """how injected / expected are passed (all spellings the API documents)"""
        NO_DEFAULT = self._fu.NO_DEFAULT
        form = case.get('form', 0) if form is None else form
        inj = [pn(x) for x in (case['injected'] if injected is None else injected)]
        exp = case['expected'] if expected is None else expected
        vals = self._vals
        if form == 1 and len(inj) == 1:
            inj_arg = inj[0]
        elif form == 2:
            inj_arg = tuple(inj)
        elif form in (4, 5):
            inj_arg = iter(inj)
        else:
            inj_arg = inj if (inj or form == 3) else None
        if form == 1 and len(exp) == 1 and exp[0][1] is None:
            exp_arg = pn(exp[0][0])
        elif form == 2 and exp and all(d is not None for _, d in exp) and len({z for z, _ in exp}) == len(exp):
            exp_arg = {pn(z): vals[d] for z, d in exp}
        elif form == 3:
            exp_arg = [(pn(z), NO_DEFAULT if d is None else vals[d]) for z, d in exp]
        elif form == 4:
            exp_arg = tuple(pn(z) if d is None else [pn(z), vals[d]] for z, d in exp)
        elif form == 5:
            exp_arg = (pn(z) if d is None else (pn(z), vals[d]) for z, d in exp)
        else:
            exp_arg = [pn(z) if d is None else (pn(z), vals[d]) for z, d in exp] if exp else None
        return inj_arg, exp_arg

    _fu_code = None

    def fresh_funcutils(self):
        """a NEW copy of the boltons.funcutils module (its source executed again): whatever the library
        remembers between uses (module / class level state) starts empty, so a session case depends on
        nothing that ran before it and its replay reproduces"""
        import types
        from boltons import funcutils
        if C13._fu_code is None:
            with open(funcutils.__file__) as fh:
                C13._fu_code = compile(fh.read(), funcutils.__file__, 'exec')
        m = types.ModuleType('boltons.funcutils')
        m.__file__ = funcutils.__file__
        m.__package__ = 'boltons'
        exec(C13._fu_code, m.__dict__)
        return m

    def impl(self, case):
        from boltons import funcutils
        try:
            if 'session' in case or case.get('fresh'):
                funcutils = self.fresh_funcutils()
            self._fu = funcutils
            with time_limit(10):
                return self._impl(case, funcutils)
        except CaseTimeout:
            return {'exc': 'CaseTimeout', 'stage': 'case'}
        except Exception as e:  # harness-level surprise: recorded, judged by the oracle
            return {'exc': exc_name(e), 'stage': 'case', 'msg': str(e)[:200]}

    def _impl(self, case, funcutils):
        self._vals = vals = CURRENT[0] = Vals()
        LINE_OFFSET[0] = (LINE_OFFSET[0] + 1) % 2000
        is_async = bool(case['async'])
        if 'session' in case:
            return self._impl_session(case, funcutils, vals, is_async)
        history = 'ops' in case
        plain = not history and not case['injected'] and not case['expected']
        ns = {'D': vals, 'A': vals}
        if case['module'] is not None:
            ns['__name__'] = 'mod%d' % case['module']
        ns0 = dict(ns)
        exec(source_of(case), ns)
        fkey = 'fn' if case.get('fname', 0) == 3 else FNAMES[case.get('fname', 0)]
        fn = ns[fkey]
        ns_ref = dict(ns0)
        exec(source_of(case), ns_ref)
        fn_ref = ns_ref[fkey]          # pristine twin, never shown to boltons: the reference for direct calls
        rec = []
        if plain and is_async:
            async def wrapper(*a, **k):
                rec.append((a, k))
                return await fn(*a, **k)
        elif plain:
            def wrapper(*a, **k):
                rec.append((a, k))
                return fn(*a, **k)
        elif is_async:
            async def wrapper(*a, **k):
                rec.append((a, k))
                return vals[RET]
        else:
            def wrapper(*a, **k):
                rec.append((a, k))
                return vals[RET]
        obs = {'fsig': dump_sig(fn_ref), 'fmeta': [fn_ref.__name__, fn_ref.__doc__, fn_ref.__module__],
               'fasync': int(inspect.iscoroutinefunction(fn_ref))}
        self._fn_ref = fn_ref
        if history:
            try:
                if case.get('twice'):       # the same function handed to the builder before: nothing may be remembered
                    fb0 = funcutils.FunctionBuilder.from_func(fn)
                    for op in case['ops']:
                        try:
                            fb0.remove_arg(pn(op[1])) if op[0] == 'r' else fb0.add_arg(pn(op[1]))
                        except ValueError:
                            break
                fb = funcutils.FunctionBuilder.from_func(fn)
                for op in case['ops']:
                    if op[0] == 'r':
                        fb.remove_arg(pn(op[1]))
                    elif op[2] is None:
                        fb.add_arg(pn(op[1]), **({'kwonly': True} if op[0] == 'k' else {}))
                    else:
                        fb.add_arg(pn(op[1]), vals[op[2]], **({'kwonly': True} if op[0] == 'k' else {}))
            except Exception as e:
                obs['exc'] = exc_name(e)
                obs['stage'] = 'ops'
                return obs
            names = list(fb.get_arg_names())
            dd = fb.get_defaults_dict()
            obs['fb'] = {'names': names, 'required': list(fb.get_arg_names(only_required=True)),
                         'dd': [[n, vnum(dd[n]) if n in dd else None] for n in names],
                         'sig_str': fb.get_sig_str(with_annotations=False), 'inv_str': fb.get_invocation_str()}
            # (the harness's own name for the recorder: not one of the SPECIAL spellings)
            fb.body = 'return %s_hcall_(%s)' % ('await ' if fb.is_async else '', fb.get_invocation_str())
            try:
                w = fb.get_func(execdict={'_hcall_': wrapper})
            except Exception as e:
                obs['exc'] = exc_name(e)
                obs['stage'] = 'get_func'
                return obs
            return self.observe(case, obs, fn, w, rec, plain, is_async)
        inj_arg, exp_arg = self.spell(case)
        kw = {}
        if not case['opts'][0]:
            kw['inject_to_varkw'] = False
        if case['opts'][1]:
            kw['hide_wrapped'] = True
        if case.get('twice'):               # the same request made before on the same function: nothing may be remembered
            try:
                funcutils.wraps(fn, injected=inj_arg, expected=exp_arg, **kw)(wrapper)
            except Exception:
                pass
            inj_arg, exp_arg = self.spell(case)
        try:
            if case.get('form', 0) == 3:
                w = funcutils.update_wrapper(wrapper, fn, injected=inj_arg, expected=exp_arg, **kw)
            else:
                w = funcutils.wraps(fn, injected=inj_arg, expected=exp_arg, **kw)(wrapper)
        except Exception as e:
            obs['exc'] = exc_name(e)
            obs['stage'] = 'wraps'
            return obs
        levels = [fn, w]
        try:
            for _lvl in range(case.get('stack', 1) - 1):      # the built function is wrapped again, plainly
                levels.append(funcutils.wraps(levels[-1], **kw)(self.passthrough(levels[-1], is_async)))
        except Exception as e:
            obs['exc'] = exc_name(e)
            obs['stage'] = 'wraps'
            return obs
        self._levels = levels
        return self.observe(case, obs, fn, levels[-1], rec, plain, is_async)

    @staticmethod
    def passthrough(inner, is_async):
        if is_async:
            async def wrapper(*a, **k):
                return await inner(*a, **k)
        else:
            def wrapper(*a, **k):
                return inner(*a, **k)
        return wrapper

    def observe(self, case, obs, fn, w, rec, plain, is_async):
        vals = self._vals
        obs['wsig'] = dump_sig(w)
        obs['wmeta'] = [getattr(w, '__name__', None), getattr(w, '__doc__', None), getattr(w, '__module__', None)]
        obs['wasync'] = int(inspect.iscoroutinefunction(w))
        levels = getattr(self, '_levels', None) if 'ops' not in case else None
        if hasattr(w, '__wrapped__'):
            below = [i + 1 for i, x in enumerate(levels or [fn]) if x is w.__wrapped__ and x is not w]
            obs['wrapped'] = below[0] if below else '?'      # 1 = the wrapped function, k = the k-th function of a stack
        else:
            obs['wrapped'] = None
        src = getattr(w, '__source__', None)
        obs['source'] = src if isinstance(src, str) else None
        outs = []
        wsig = None if plain else self.own_sig(w)
        for pos, kws in case['calls']:
            a = [vals[v] for v in pos]
            k = {pn(n): vals[v] for n, v in kws}
            o = {}
            # the wrapped function called directly
            try:
                o['direct'] = dump_locals(drive(self._fn_ref(*a, **k), is_async), case)
            except TypeError:
                o['direct'] = 'TypeError'
            except Exception as e:
                o['direct'] = {'exc': exc_name(e)}
            del rec[:]
            if not plain:
                o['own'] = self.own_bind(wsig, a, k)
            try:
                res = drive(w(*a, **k), is_async)
                o['via'] = dump_locals(res, case) if plain else None
                if not plain:
                    o['ret'] = vnum(res)
            except TypeError:
                o['via'] = 'TypeError'
            except Exception as e:
                o['via'] = {'exc': exc_name(e)}
            if rec:
                ra, rk = rec[0]
                o['recv'] = [[vnum(x) for x in ra], [[str(kk), vnum(x)] for kk, x in rk.items()]]
                o['nrecv'] = len(rec)
            else:
                o['recv'] = None
            outs.append(o)
        obs['calls'] = outs
        obs['fsig_after'] = dump_sig(fn)
        return obs

    @staticmethod
    def own_sig(w):
        """the function's OWN signature object (follow_wrapped=False - what a call is really checked against)"""
        try:
            return inspect.signature(w, follow_wrapped=False)
        except Exception:  # noqa
            return None

    @staticmethod
    def own_bind(sig, a, k):
        """does that signature bind this call?  'ok' / 'TypeError' / '?...'"""
        if sig is None:
            return '?nosig'
        try:
            sig.bind(*a, **k)
            return 'ok'
        except TypeError:
            return 'TypeError'
        except Exception as e:  # noqa
            return '?' + exc_name(e)

    # ------------------------------------------------------------------ sessions: several uses in one process
    @staticmethod
    def snap(x, F):
        """what the public API shows of one function right now"""
        if hasattr(x, '__wrapped__'):
            below = [i + 1 for i, y in enumerate(F) if y is x.__wrapped__]
            wr = below[0] if below else '?'
        else:
            wr = None
        return {'sig': dump_sig(x), 'meta': [getattr(x, '__name__', None), getattr(x, '__doc__', None),
                                             getattr(x, '__module__', None)],
                'wrapped': wr, 'async': int(inspect.iscoroutinefunction(x))}

    def _impl_session(self, case, funcutils, vals, is_async):
        def define(desc):
            ns = {'D': vals, 'A': vals}
            if desc['module'] is not None:
                ns['__name__'] = 'mod%d' % desc['module']
            ns2 = dict(ns)
            exec(source_of(desc), ns)
            exec(source_of(desc), ns2)
            key = 'fn' if desc.get('fname', 0) == 3 else FNAMES[desc.get('fname', 0)]
            return ns[key], ns2[key]
        fn, fn_ref = define(case)
        F, twins = [fn], [fn_ref]           # twins: pristine copies never shown to boltons
        if case.get('sib'):
            sn, sn_ref = define(dict(case, **case['sib']))
            F.append(sn)
            twins.append(sn_ref)
        nbase = len(F)
        root = list(range(nbase))           # which user-defined function each function descends from
        recs = [None] * nbase               # one recorder per built function

        def recorder(rec):
            if is_async:
                async def wrapper(*a, **k):
                    rec.append((a, k))
                    return vals[RET]
            else:
                def wrapper(*a, **k):
                    rec.append((a, k))
                    return vals[RET]
            return wrapper
        spelled = {}                        # the user passes the SAME list / tuple / dict object for the same request
        last = [None, None]                 # the user's wrapper of the previous wraps step (share=1 reuses it)
        obs = {'base': [self.snap(x, twins) for x in twins], 'snaps': [[self.snap(x, F) for x in F]], 'results': []}
        for st in case['session']:
            kind, t = st[0], st[1]
            if t >= len(F):
                res = 'skip'
            elif kind == 'w':
                _k, _t, inj, exp, opts, form = st[:6]
                skey = json.dumps([inj, exp, form])
                if form in (4, 5) or skey not in spelled:     # (iterators are consumed: new ones each time)
                    spelled[skey] = self.spell(case, inj, exp, form)
                inj_arg, exp_arg = spelled[skey]
                kw = {}
                if not opts[0]:
                    kw['inject_to_varkw'] = False
                if opts[1]:
                    kw['hide_wrapped'] = True
                if len(st) > 6 and st[6] and last[0] is not None:
                    rec, user_wrapper = last        # one user wrapper decorating several functions
                else:
                    rec = []
                    user_wrapper = recorder(rec)
                    last[:] = [rec, user_wrapper]
                try:
                    if form == 3:
                        w = funcutils.update_wrapper(user_wrapper, F[t], injected=inj_arg, expected=exp_arg, **kw)
                    else:
                        w = funcutils.wraps(F[t], injected=inj_arg, expected=exp_arg, **kw)(user_wrapper)
                    F.append(w)
                    recs.append(rec)
                    root.append(root[t])
                    res = 'built'
                except Exception as e:
                    res = {'exc': exc_name(e)}
            elif kind == 'b':
                rec = []
                try:
                    fb = funcutils.FunctionBuilder.from_func(F[t])
                    for op in st[2]:
                        if op[0] == 'r':
                            fb.remove_arg(pn(op[1]))
                        elif op[2] is None:
                            fb.add_arg(pn(op[1]), **({'kwonly': True} if op[0] == 'k' else {}))
                        else:
                            fb.add_arg(pn(op[1]), vals[op[2]], **({'kwonly': True} if op[0] == 'k' else {}))
                    fb.body = 'return %s_hcall_(%s)' % ('await ' if fb.is_async else '', fb.get_invocation_str())
                    w = fb.get_func(execdict={'_hcall_': recorder(rec)})
                    F.append(w)
                    recs.append(rec)
                    root.append(root[t])
                    res = 'built'
                except Exception as e:
                    res = {'exc': exc_name(e)}
            else:                           # the user edits a dict of F[t] in place
                _k, _t, name, val = st
                attr = '__kwdefaults__' if kind == 'k' else '__annotations__'
                d = getattr(F[t], attr)
                if d is None:
                    d = {}
                    setattr(F[t], attr, d)
                if val is None:
                    d.pop(pn(name), None)
                else:
                    d[pn(name)] = vals[val]
                res = 'edited'
            obs['results'].append(res)
            obs['snaps'].append([self.snap(x, F) for x in F])
        obs['root'] = root
        # calls: every built function, at the end of the session
        allrecs = list({id(r): r for r in recs if r is not None}.values())
        outs = []
        for j in range(nbase, len(F)):
            w, rec, ref = F[j], recs[j], twins[root[j]]
            wsig = self.own_sig(w)
            row = []
            for pos, kws in case['calls']:
                a = [vals[v] for v in pos]
                k = {pn(n): vals[v] for n, v in kws}
                o = {'own': self.own_bind(wsig, a, k)}
                try:
                    o['direct'] = dump_locals(drive(ref(*a, **k), is_async), case)
                except TypeError:
                    o['direct'] = 'TypeError'
                except Exception as e:
                    o['direct'] = {'exc': exc_name(e)}
                for r in allrecs:
                    del r[:]
                try:
                    o['ret'] = vnum(drive(w(*a, **k), is_async))
                    o['via'] = None
                except TypeError:
                    o['via'] = 'TypeError'
                except Exception as e:
                    o['via'] = {'exc': exc_name(e)}
                o['nrecv'] = len(rec)
                o['foreign'] = sum(len(r) for r in allrecs) - len(rec)
                if rec:
                    ra, rk = rec[0]
                    o['recv'] = [[vnum(x) for x in ra], [[str(kk), vnum(x)] for kk, x in rk.items()]]
                    try:        # what the user-defined function at the root binds when handed what was received
                        o['rebound'] = dump_locals(drive(ref(*ra, **rk), is_async), case)
                    except TypeError:
                        o['rebound'] = 'TypeError'
                    except Exception as e:
                        o['rebound'] = {'exc': exc_name(e)}
                else:
                    o['recv'] = None
                row.append(o)
            outs.append(row)
        obs['calls'] = outs
        return obs

    def render_session(self, case, obs):
        def res_txt(r):
            return {'built': 'b', 'skip': 's', 'edited': 'm'}.get(r) if isinstance(r, str) else 'e%s' % r['exc']
        final = obs['snaps'][-1]
        nbase = len(obs['base'])
        blocks = [','.join(res_txt(r) for r in obs['results']) or '-']
        # per function: the names whose annotation is left open (re-added by its own request, or open in its target)
        masks = [[] for _ in range(nbase)]
        for st, r in zip(case['session'], obs['results']):
            if r == 'built':
                own = readded_w(st[2], st[3]) if st[0] == 'w' else readded_ops(st[2])
                masks.append((masks[st[1]] if st[1] < len(masks) else []) + own)
        for j, sn in enumerate(final):
            if 'exc' in sn['sig']:
                blocks.append('sigerr %s' % sn['sig']['exc'])
                continue
            txt = 'S %s ; M %s ; A %s' % (self.sig_text(sn['sig']),
                                          self.meta_text(case, sn['meta'], sn['wrapped'], sn['async']),
                                          self.anns_text(sn['sig'], masks[j] if j < len(masks) else ()))
            if j >= nbase:
                outs = []
                for o in obs['calls'][j - nbase]:
                    if o['recv'] is None:
                        t = 'E' if o['via'] == 'TypeError' else '!%s' % (o['via'],)
                    else:
                        ra, rk = o['recv']
                        t = 'R%s/%s' % (','.join(map(str, ra)) or '-', self.kw_text(rk))
                        if o['nrecv'] != 1:
                            t += '#%d' % o['nrecv']
                        if o['via'] is not None:
                            t += '=!%s' % (o['via'],)
                    if o['foreign']:
                        t += '!foreign%d' % o['foreign']
                    outs.append(t)
                txt += ' ; C %s' % ','.join(outs)
            blocks.append(txt)
        return ' || '.join(blocks)

    def sig_text(self, ws):
        num = self._num

        def params(kind):
            return [num(name) + ('' if d is None else '=%s' % d) for name, k, d, _a in ws['params'] if k == kind]
        va, vk = params('va'), params('vk')
        sig = '%s *%s %s **%s' % (','.join(params('pk')) or '-', va[0] if va else '-',
                                  ','.join(params('ko')) or '-', vk[0] if vk else '-')
        if [p for p in ws['params'] if p[1] == 'po']:
            sig += ' posonly!'
        return sig

    def anns_text(self, ws, mask=()):
        """annotations of the parameters as inspect.signature shows them; `*` for a parameter the request removed
        and added again (its annotation is not constrained by the statement)"""
        anns = ','.join('%s:%s' % (self._num(p[0]), '*' if name_id(p[0]) in mask else ('-' if p[3] is None else p[3]))
                        for p in ws['params'])
        return anns + ' r:%s' % ('-' if ws['ret'] is None else ws['ret'])

    @staticmethod
    def meta_text(case, meta, wrapped, wasync):
        name, doc, module = meta
        nm = '1' if name == FNAMES[case.get('fname', 0)] else '?%s' % name
        if doc is None:
            dc = '-'
        elif isinstance(doc, str) and doc[:3] == 'doc' and doc[3:].isdigit():
            dc = doc[3:]
        else:
            dc = '?%r' % (doc,)
        if module is None:
            md = '-'
        elif isinstance(module, str) and module[:3] == 'mod' and module[3:].isdigit():
            md = module[3:]
        else:
            md = '?%r' % (module,)
        return '%s %s %s %s %d' % (nm, dc, md, '-' if wrapped is None else str(wrapped), wasync)

    # ------------------------------------------------------------------ canonical text (same as the driver's)
    @staticmethod
    def _num(name):
        n = name_id(name)
        return '?%s' % (name,) if n is None else str(n)

    def render(self, case, obs):
        num = self._num
        hist = 'ops' in case
        if 'exc' in obs and not (hist and obs.get('stage') == 'get_func'):
            return 'err %s' % obs['exc']
        if 'session' in case:
            return self.render_session(case, obs)
        if hist:
            hdr = self.fb_header(obs['fb'])
            if 'exc' in obs:
                return '%s ; err %s' % (hdr, obs['exc'])
        ws = obs['wsig']
        if 'exc' in ws:
            return 'sigerr %s' % ws['exc']

        def params(kind):
            l = []
            for name, k, d, _a in ws['params']:
                if k == kind:
                    l.append(num(name) + ('' if d is None else '=%s' % d))
            return l
        va, vk = params('va'), params('vk')
        odd = [p for p in ws['params'] if p[1] == 'po']
        sig = '%s *%s %s **%s' % (','.join(params('pk')) or '-', va[0] if va else '-',
                                  ','.join(params('ko')) or '-', vk[0] if vk else '-')
        if odd:
            sig += ' posonly!'
        name, doc, module = obs['wmeta']
        nm = '1' if name == FNAMES[case.get('fname', 0)] else '?%s' % name
        if doc is None:
            dc = '-'
        elif isinstance(doc, str) and doc[:3] == 'doc' and doc[3:].isdigit():
            dc = doc[3:]
        else:
            dc = '?%r' % (doc,)
        if module is None:
            md = '-'
        elif isinstance(module, str) and module[:3] == 'mod' and module[3:].isdigit():
            md = module[3:]
        else:
            md = '?%r' % (module,)
        wr = '-' if obs['wrapped'] is None else str(obs['wrapped'])
        meta = '%s %s %s %s %d' % (nm, dc, md, wr, obs['wasync'])
        anns = self.anns_text(ws, readded_ops(case['ops']) if hist else readded_w(case['injected'], case['expected']))
        d_txt, i_txt = [''.join(t.split()) for t in self.source_parts(obs['source'])]   # modulo white space
        i_txt = self.sort_kw_items(i_txt)
        outs = []
        plain = not hist and not case['injected'] and not case['expected']
        for o in obs['calls']:
            if o['recv'] is None:
                outs.append('E' if o['via'] == 'TypeError' else '!%s' % (o['via'],))
                continue
            ra, rk = o['recv']
            txt = 'R%s/%s' % (','.join(map(str, ra)) or '-', self.kw_text(rk))
            if o.get('nrecv', 1) != 1:
                txt += '#%d' % o['nrecv']
            if plain:
                v = o['via']
                if v == 'TypeError':
                    txt += '=E'
                elif isinstance(v, dict) and 'named' in v:
                    txt += '=B' + self.bound_text(case, v)
                else:
                    txt += '=!%s' % (v,)
            elif o['via'] is not None:
                txt += '=!%s' % (o['via'],)
            outs.append(txt)
        if hist:
            return '%s ; S %s ; M %s ; A %s ; %s' % (hdr, sig, meta, anns, ','.join(outs))
        return 'S %s ; M %s ; A %s ; D %s ; I %s ; %s' % (sig, meta, anns, d_txt, i_txt, ','.join(outs))

    def fb_header(self, fb):
        num = self._num

        def ident(mm):
            n = name_id(mm.group(0))
            return mm.group(0) if n is None else 'p%d' % n

        def txt(t):
            return re.sub(r'[^\W\d]\w*', ident, ''.join(t.split())) if isinstance(t, str) else '?%r' % (t,)
        return 'N %s ; Q %s ; DD %s ; D %s ; I %s' % (
            ','.join(num(n) for n in fb['names']) or '-', ','.join(num(n) for n in fb['required']) or '-',
            ','.join('%s:%s' % (num(n), '-' if d is None else d) for n, d in fb['dd']), txt(fb['sig_str']),
            self.sort_kw_items('(' + txt(fb['inv_str']) + ')'))

    def kw_text(self, pairs):
        """keyword arguments sorted by parameter id (the order keywords are spelled in never matters for binding)"""
        ps = [(name_id(k), k, v) for k, v in pairs]
        ps.sort(key=lambda t: (t[0] is None, t[0] if t[0] is not None else 0, str(t[1])))
        return ','.join('%s:%s' % (self._num(k), v) for _n, k, v in ps) or '-'

    @staticmethod
    def sort_kw_items(txt):
        """`(p1,*p7,p15=p15,p14=p14,**p9)` -> the k=v items sorted in place by parameter id"""
        if not (txt.startswith('(') and txt.endswith(')')) or '(' in txt[1:-1]:
            return txt
        items = txt[1:-1].split(',') if txt[1:-1] else []
        kws = sorted((it for it in items if '=' in it),
                     key=lambda it: int(it.split('=')[0][1:]) if it.split('=')[0][1:].isdigit() else -1)
        it_kws = iter(kws)
        return '(' + ','.join(next(it_kws) if '=' in it else it for it in items) + ')'

    def bound_text(self, case, loc):
        """locals of the wrapped function -> `pos|star|kwo|dstar` in signature order"""
        named = dict((n, v) for n, v in loc['named'])
        pos = ','.join('%d:%s' % (n, named[n]) for n in case['args'] if n in named) or '-'
        kwo = ','.join('%d:%s' % (n, named[n]) for n in case['kwonly'] if n in named) or '-'
        extra = [n for n in named if n not in case['args'] and n not in case['kwonly']]
        st = '~' if loc['star'] is None else (','.join(map(str, loc['star'][1])) or '-')
        ds = '~' if loc['dstar'] is None else self.kw_text(loc['dstar'][1])
        txt = '%s|%s|%s|%s' % (pos, st, kwo, ds)
        if extra or loc.get('odd'):
            txt += '!extra'
        return txt

    @staticmethod
    def source_parts(src):
        """(`(def items)`, `(invocation items)`) out of the generated source text; identifiers are
        rewritten to p<id> so that the text is the driver's"""
        if not isinstance(src, str):
            return '?nosource', '?nosource'
        lines = [ln for ln in src.split('\n') if ln.strip()]
        m = re.match(r'^(?:async )?def \w+\s*(\(.*\))\s*:\s*$', lines[0]) if lines else None
        d_txt = m.group(1) if m else '?' + (lines[0] if lines else '')
        # the body: `return [await] <the name the user's wrapper goes by>(<invocation>)`
        m = re.match(r'^\s*return\s+(?:await\s+)?\w+\s*(\(.*\))\s*$', lines[1]) if len(lines) == 2 else None
        i_txt = m.group(1) if m else '?' + '|'.join(lines[1:])

        def ident(mm):
            n = name_id(mm.group(0))
            return mm.group(0) if n is None else 'p%d' % n
        return re.sub(r'[^\W\d]\w*', ident, d_txt), re.sub(r'[^\W\d]\w*', ident, i_txt)

    # ------------------------------------------------------------------ oracle (independent of the model)
    def oracle(self, case, obs):
        st = self.stats
        self._nt = False
        if obs.get('stage') == 'case':
            return Failure('harness', 'case could not be run: %s %s' % (obs['exc'], obs.get('msg')))
        if 'session' in case:
            return self.oracle_session(case, obs)
        hist = 'ops' in case
        inj, exp = ([], []) if hist else (case['injected'], case['expected'])
        plain = not hist and not inj and not exp
        fparams = obs['fsig'].get('params')
        if fparams is None:
            return Failure('harness', 'inspect.signature failed on the wrapped function itself')
        # which outcome does the request call for?  (simulated on names only)
        if hist:
            steps = [('r', pn(op[1]), None, None) if op[0] == 'r' else ('a', pn(op[1]), op[2], op[0] == 'k') for op in case['ops']]
        else:
            steps = [('r', pn(x), None, None) for x in inj] + [('a', pn(z), d, None) for z, d in exp]
        state, must_succeed = self.simulate(steps, [pn(n) for n in case['args'] + case['kwonly']],
                                            {pn(n) for n in (case['varargs'], case['varkw']) if n is not None},
                                            not hist and case['varkw'] is not None and case['opts'][0])
        if 'exc' in obs:
            st['wraps_exc_' + obs['exc']] = st.get('wraps_exc_' + obs['exc'], 0) + 1
            if must_succeed:
                return Failure('wraps_raises', '%s raised %s on a valid request'
                               % ('builder history %r' % (case['ops'],) if hist else
                                  'wraps(injected=%r, expected=%r)' % (inj, exp), obs['exc']))
            return None
        if not must_succeed:
            return None                   # caller error region (missing / existing / clashing name): the statement promises nothing
        ws = obs['wsig']
        if 'exc' in ws:
            return Failure('signature', 'inspect.signature(wrapper) raised %s' % ws['exc'])
        if obs.get('fsig_after') != obs['fsig']:
            return Failure('wrapped_changed', 'the wrapped function itself was modified: signature %r, was %r'
                           % (obs.get('fsig_after'), obs['fsig']))
        wparams = ws['params']
        st['built'] = st.get('built', 0) + 1
        # --- metadata
        if obs['wmeta'] != obs['fmeta']:
            tag = 'doc' if obs['wmeta'][0] == obs['fmeta'][0] and obs['wmeta'][2] == obs['fmeta'][2] else 'meta'
            return Failure(tag, '(__name__, __doc__, __module__) = %r, wrapped function has %r' % (obs['wmeta'], obs['fmeta']))
        if not hist and not case['opts'][1] and obs['wrapped'] != case.get('stack', 1):   # (hide_wrapped=True / bare builder: no demand)
            return Failure('wrapped', '__wrapped__ does not point at the wrapped function')
        if obs['wasync'] != obs['fasync']:
            return Failure('async', 'iscoroutinefunction(wrapper)=%s, wrapped function %s' % (obs['wasync'], obs['fasync']))
        if ws['ret'] != obs['fsig']['ret']:
            return Failure('signature', 'return annotation %r, wrapped function has %r' % (ws['ret'], obs['fsig']['ret']))
        # --- own signature
        if plain:
            if self.canon(wparams) != self.canon(fparams):
                return Failure('signature', 'signature %r differs from the wrapped function\'s %r' % (wparams, fparams))
        else:
            f = self.sig_delta(state, fparams, wparams)
            if f is not None:
                return f
        # --- calls
        acc = rej = 0
        for (pos, kws), o in zip(case['calls'], obs['calls']):
            d, v = o['direct'], o['via']
            if isinstance(v, dict) and 'exc' in v:
                return Failure('call_raises', 'call %r raised %s' % ((pos, kws), v['exc']))
            if plain:
                if (d == 'TypeError') != (v == 'TypeError'):
                    return Failure('accepts', 'call %r: wrapped function %s, wrapper %s' % (
                        (pos, kws), 'raises TypeError' if d == 'TypeError' else 'accepts',
                        'raises TypeError' if v == 'TypeError' else 'accepts'))
                if d != 'TypeError':
                    acc += 1
                    if not self.same_bound(d, v):
                        return Failure('forwarding', 'call %r: wrapped function sees %r through the wrapper, %r directly'
                                       % ((pos, kws), v, d))
                else:
                    rej += 1
            else:
                f = self.own_sig_call(o, (pos, kws))
                if f is not None:
                    return f
                if v == 'TypeError':
                    rej += 1
                else:
                    acc += 1
        st['calls_accepted'] = st.get('calls_accepted', 0) + acc
        st['calls_rejected'] = st.get('calls_rejected', 0) + rej
        mode = 'plain' if plain else ('history' if hist else 'modified')
        st[mode] = st.get(mode, 0) + 1
        self._nt = (acc > 0 and rej > 0) or not plain
        return None

    def oracle_session(self, case, obs):
        """several uses in one process.  Step by step: (1) a request changes NO function that existed before -
        neither the wrapped function nor anything built earlier - except the one function an in-place edit by
        the user is aimed at (functions built FROM the edited one are exempt: the statement does not say whether
        they follow); (2) the function a request builds relates to its target, as the target is at that moment,
        exactly as the statement says (same demands as for a single use).  At the end: every built function obeys
        its own signature and calls its own user wrapper; a chain of plain wraps down to a user-defined function
        accepts the calls that function accepts and hands it the same bound arguments."""
        st = self.stats
        steps, snaps, results = case['session'], obs['snaps'], obs['results']
        nbase = len(obs['base'])
        if snaps[0] != obs['base']:
            return Failure('harness', 'the twins of the user-defined functions differ from them before anything was done')
        parent = {}                # built function -> its target
        edited = set()
        plain_chain = set(range(nbase))
        built = 0
        for i, stp in enumerate(steps):
            before, after, res = snaps[i], snaps[i + 1], results[i]
            kind, t = stp[0], stp[1]
            if res == 'skip':
                continue
            exempt = set()
            if kind in 'kn':
                edited.add(t)
                exempt = {t} | {j for j in range(len(before)) if self.descends(j, t, parent)}
            for j in range(len(before)):
                if j not in exempt and after[j] != before[j]:
                    what = 'the wrapped function' if j < nbase else 'the function built by step %d' % (
                        [k for k in range(i) if results[k] == 'built'][j - nbase] + 1)
                    tag = 'wrapped_changed' if j < nbase else 'interference'
                    return Failure(tag, 'step %d %r changed %s (F[%d]): %r, was %r' % (i + 1, stp, what, j, after[j], before[j]))
            if kind in 'kn':
                continue
            tgt = before[t]
            tparams = tgt['sig'].get('params')
            if tparams is None:
                continue
            names = [p[0] for p in tparams if p[1] in ('pk', 'ko')]
            others = {p[0] for p in tparams if p[1] in ('va', 'vk')}
            has_vk = any(p[1] == 'vk' for p in tparams)
            if kind == 'w':
                inj, exp, opts = stp[2], stp[3], stp[4]
                sim = [('r', pn(x), None, None) for x in inj] + [('a', pn(z), d, None) for z, d in exp]
                missing_ok = has_vk and bool(opts[0])
                plain = not inj and not exp
            else:
                sim = [('r', pn(op[1]), None, None) if op[0] == 'r' else ('a', pn(op[1]), op[2], op[0] == 'k') for op in stp[2]]
                missing_ok = False
                plain = False
            state, must_succeed = self.simulate(sim, names, others, missing_ok)
            if res != 'built':
                st['wraps_exc_' + res['exc']] = st.get('wraps_exc_' + res['exc'], 0) + 1
                if must_succeed:
                    return Failure('wraps_raises', 'step %d %r raised %s on a valid request (target signature %r)'
                                   % (i + 1, stp, res['exc'], tparams))
                continue
            j = len(after) - 1
            parent[j] = t
            built += 1
            if plain and t in plain_chain:
                plain_chain.add(j)
            if not must_succeed:
                continue
            new = after[j]
            ws = new['sig']
            if 'exc' in ws:
                return Failure('signature', 'step %d: inspect.signature(built function) raised %s' % (i + 1, ws['exc']))
            if new['meta'] != tgt['meta']:
                tag = 'doc' if new['meta'][0] == tgt['meta'][0] and new['meta'][2] == tgt['meta'][2] else 'meta'
                return Failure(tag, 'step %d %r: (__name__, __doc__, __module__) = %r, wrapped function has %r'
                               % (i + 1, stp, new['meta'], tgt['meta']))
            if kind == 'w' and not stp[4][1] and new['wrapped'] != t + 1:
                return Failure('wrapped', 'step %d %r: __wrapped__ does not point at the wrapped function' % (i + 1, stp))
            if new['async'] != tgt['async']:
                return Failure('async', 'step %d: iscoroutinefunction %s, wrapped function %s' % (i + 1, new['async'], tgt['async']))
            if ws['ret'] != tgt['sig']['ret']:
                return Failure('signature', 'step %d: return annotation %r, wrapped function has %r' % (i + 1, ws['ret'], tgt['sig']['ret']))
            if plain:
                if self.canon(ws['params']) != self.canon(tparams):
                    return Failure('signature', 'step %d %r: signature %r differs from the wrapped function\'s %r'
                                   % (i + 1, stp, ws['params'], tparams))
            else:
                f = self.sig_delta(state, tparams, ws['params'])
                if f is not None:
                    f.what = 'step %d %r: %s' % (i + 1, stp, f.what)
                    return f
        # --- calls, at the end of the session
        acc = rej = 0
        final = snaps[-1]
        for j in range(nbase, len(final)):
            who = 'the function built by step %d' % ([k for k in range(len(steps)) if results[k] == 'built'][j - nbase] + 1)
            chain = j in plain_chain and not any(x == j or self.descends(j, x, parent) for x in edited)
            for (pos, kws), o in zip(case['calls'], obs['calls'][j - nbase]):
                f = self.own_sig_call(o, (pos, kws), who)
                if f is not None:
                    return f
                if o['via'] == 'TypeError':
                    rej += 1
                else:
                    acc += 1
                if chain:
                    d = o['direct']
                    if (d == 'TypeError') != (o['via'] == 'TypeError'):
                        return Failure('accepts', 'call %r: wrapped function %s, %s (plain wraps all the way down) %s' % (
                            (pos, kws), 'raises TypeError' if d == 'TypeError' else 'accepts', who,
                            'raises TypeError' if o['via'] == 'TypeError' else 'accepts'))
                    if d != 'TypeError' and not self.same_bound(d, o.get('rebound')):
                        return Failure('forwarding', 'call %r through %s: the wrapped function binds %r from what the user\'s '
                                       'wrapper received, %r directly' % ((pos, kws), who, o.get('rebound'), d))
        st['calls_accepted'] = st.get('calls_accepted', 0) + acc
        st['calls_rejected'] = st.get('calls_rejected', 0) + rej
        st['session'] = st.get('session', 0) + 1
        st['session_built'] = st.get('session_built', 0) + built
        self._nt = built >= 2 or (built >= 1 and len(steps) >= 2)
        return None

    @staticmethod
    def descends(j, t, parent):
        """was F[j] built from F[t], directly or through other built functions?"""
        while j in parent:
            j = parent[j]
            if j == t:
                return True
        return False

    @staticmethod
    def simulate(steps, names, others, missing_ok):
        """the request replayed on parameter NAMES only: (state: name -> 'orig' | ('new', default, kwonly),
        whether the request is one the statement makes a promise about).  A missing name to remove
        (MissingArgument unless **kw catches it) or a name to add that exists / clashes with *args, **kw
        (ExistingArgument / duplicate name in the def) is a caller error."""
        state = {n: 'orig' for n in names}
        must_succeed = True
        for kind, n, d, kwonly in steps:
            if kind == 'r':
                if n in state:
                    del state[n]
                elif missing_ok:
                    pass                      # "keyword arg will be caught by the varkw"
                else:
                    must_succeed = False      # MissingArgument is the documented outcome
            else:
                if n in state or n in others:
                    must_succeed = False      # ExistingArgument / duplicate name in the def
                state[n] = ('new', d, kwonly)
        return state, must_succeed

    @staticmethod
    def own_sig_call(o, call, who='the built function'):
        """a function the builder compiled (any injected / expected / history): a call its OWN signature
        binds reaches the user's wrapper exactly once (and nobody else's); a call it does not bind raises
        TypeError and reaches nobody"""
        own, v = o.get('own'), o['via']
        if own not in ('ok', 'TypeError'):
            return None
        if isinstance(v, dict) and 'exc' in v:
            return Failure('call_raises', 'call %r raised %s' % (call, v['exc']))
        if own == 'ok' and v == 'TypeError':
            return Failure('own_sig_calls', 'call %r binds against the own signature of %s (inspect.signature(..., '
                           'follow_wrapped=False).bind succeeds) but calling it raises TypeError' % (call, who))
        if own == 'TypeError' and v != 'TypeError':
            return Failure('own_sig_calls', 'call %r does not bind against the own signature of %s but calling it '
                           'raises no TypeError' % (call, who))
        n = o.get('nrecv', 1 if o.get('recv') is not None else 0)
        if own == 'ok' and n != 1:
            return Failure('recorder', 'call %r: the user\'s wrapper of %s was called %d times' % (call, who, n))
        if own == 'TypeError' and n != 0:
            return Failure('recorder', 'rejected call %r reached the user\'s wrapper of %s' % (call, who))
        if o.get('foreign'):
            return Failure('recorder', 'call %r of %s reached the user\'s wrapper of ANOTHER built function (%d calls)'
                           % (call, who, o['foreign']))
        if own == 'ok' and 'ret' in o and o['ret'] != RET:
            return Failure('returns', 'call %r of %s does not return what the user\'s wrapper returned (got %r)'
                           % (call, who, o['ret']))
        return None

    @staticmethod
    def canon(params):
        """inspect.Signature equality ignores the order of keyword-only parameters"""
        return [p for p in params if p[1] != 'ko'] + sorted((p for p in params if p[1] == 'ko'), key=repr)

    @staticmethod
    def same_bound(d, v):
        if not (isinstance(d, dict) and isinstance(v, dict) and 'named' in d and 'named' in v):
            return False
        dd = lambda l: None if l is None else [l[0], sorted(map(tuple, l[1]))]  # noqa: E731  (dict equality ignores order)
        return (sorted(map(tuple, d['named'])) == sorted(map(tuple, v['named'])) and d['star'] == v['star']
                and dd(d['dstar']) == dd(v['dstar']) and not d.get('odd') and not v.get('odd'))

    def sig_delta(self, state, fparams, wparams):
        """removed / added parameters: the own signature changes by exactly those parameters and every
        remaining parameter keeps its kind, default, annotation and relative order"""
        kept_names = {n for n, v in state.items() if v == 'orig'}
        added = {n: v for n, v in state.items() if v != 'orig'}
        kept = [p for p in fparams if p[0] in kept_names or p[1] in ('va', 'vk')]
        wkept = [p for p in wparams if p[0] not in added]
        if self.canon(wkept) != self.canon(kept):
            return Failure('sig_delta', 'remaining parameters %r, expected %r (added %r)' % (wkept, kept, sorted(added)))
        wadded = [p for p in wparams if p[0] in added]
        if sorted(p[0] for p in wadded) != sorted(added):
            return Failure('sig_delta', 'added parameters %r, expected exactly %r' % ([p[0] for p in wadded], sorted(added)))
        for p in wadded:
            _new, d, kwonly = added[p[0]]
            if p[2] != d:
                return Failure('sig_delta', 'added parameter %s has default %r, expected %r' % (p[0], p[2], d))
            allowed = ('pk', 'ko') if kwonly is None else (('ko',) if kwonly else ('pk',))
            if p[1] not in allowed:
                return Failure('sig_delta', 'added parameter %s has kind %s' % (p[0], p[1]))
        return None

    def nontrivial(self, case, obs):
        return getattr(self, '_nt', False)

    # ------------------------------------------------------------------ shrinking
    def shrink(self, case):
        calls = case['calls']
        if len(calls) > 1:
            for i in range(len(calls)):
                yield dict(case, calls=[calls[i]])
        if 'session' in case:
            for c in self.shrink_session(case):
                yield c
            if case.get('sib'):
                return
            used = set()
            for st in case['session']:
                if st[0] == 'w':
                    used |= set(st[2]) | {z for z, _ in st[3]}
                elif st[0] == 'b':
                    used |= {op[1] for op in st[2]}
                else:
                    used.add(st[2])
        elif 'ops' in case:
            for i in range(len(case['ops'])):
                yield dict(case, ops=case['ops'][:i] + case['ops'][i + 1:])
            used = {op[1] for op in case['ops']}
        else:
            for key in ('injected', 'expected'):
                for i in range(len(case[key])):
                    yield dict(case, **{key: case[key][:i] + case[key][i + 1:]})
            used = set(case['injected']) | {z for z, _ in case['expected']}
        if case['args'] and case['args'][-1] not in used:
            a = case['args'][-1]
            yield self.without(case, a, args=case['args'][:-1], defaults=case['defaults'][:-1])
        if case['args'] and case['args'][0] not in used and len(case['defaults']) < len(case['args']):
            yield self.without(case, case['args'][0], args=case['args'][1:])
        for i, k in enumerate(case['kwonly']):
            if k not in used:
                yield self.without(case, k, kwonly=case['kwonly'][:i] + case['kwonly'][i + 1:],
                                   kwdefaults=[p for p in case['kwdefaults'] if p[0] != k])
        if case['varargs'] is not None and case['varargs'] not in used:
            yield self.without(case, case['varargs'], varargs=None)
        if case['varkw'] is not None and case['varkw'] not in used and not case.get('injected'):
            yield self.without(case, case['varkw'], varkw=None)
        if case['defaults']:
            yield dict(case, defaults=case['defaults'][1:])
        if case['kwdefaults']:
            yield dict(case, kwdefaults=case['kwdefaults'][1:])
        if case['ann']:
            yield dict(case, ann=[])
        if case['ret'] is not None:
            yield dict(case, ret=None)
        if case['async']:
            yield dict(case, **{'async': 0})
        if case.get('form'):
            yield dict(case, form=0)
        if case.get('stack', 1) > 1:
            yield dict(case, stack=case['stack'] - 1)
        if case.get('twice'):
            yield dict(case, twice=0)
        if len(calls) == 1:
            pos, kws = calls[0]
            if pos:
                yield dict(case, calls=[[pos[:-1], kws]])
            for i in range(len(kws)):
                yield dict(case, calls=[[pos, kws[:i] + kws[i + 1:]]])

    @staticmethod
    def shrink_session(case):
        steps = case['session']
        nbase = 2 if case.get('sib') else 1
        # which function each step builds (assuming every build succeeds; the caller re-checks the failure)
        prod, n = {}, nbase
        for i, st in enumerate(steps):
            if st[0] in 'wb':
                prod[i] = n
                n += 1
        for i in reversed(range(len(steps))):
            gone = prod.get(i)
            if gone is not None and any(st[1] == gone for st in steps[i + 1:]):
                continue                    # something later is aimed at what this step builds
            rest = []
            for st in steps[:i] + steps[i + 1:]:
                st = list(st)
                if gone is not None and st[1] > gone:
                    st[1] -= 1
                rest.append(st)
            yield dict(case, session=rest)
        if case.get('sib') and not any(st[1] == 1 for st in steps):
            c = dict(case, session=[[st[0], st[1] - 1 if st[1] > 1 else st[1]] + list(st[2:]) for st in steps])
            del c['sib']
            yield c
        for i, st in enumerate(steps):      # simpler requests
            if st[0] == 'w':
                for key in (2, 3):
                    for j in range(len(st[key])):
                        new = list(st)
                        new[key] = st[key][:j] + st[key][j + 1:]
                        yield dict(case, session=steps[:i] + [new] + steps[i + 1:])
                if st[5] or st[4] != [1, 0]:
                    yield dict(case, session=steps[:i] + [st[:4] + [[1, 0], 0]] + steps[i + 1:])
            elif st[0] == 'b':
                for j in range(len(st[2])):
                    yield dict(case, session=steps[:i] + [[st[0], st[1], st[2][:j] + st[2][j + 1:]]] + steps[i + 1:])

    @staticmethod
    def without(case, name, **changes):
        c = dict(case, **changes)
        c['ann'] = [p for p in case['ann'] if p[0] != name]
        c['calls'] = [[pos, [kv for kv in kws if kv[0] != name]] for pos, kws in case['calls']]
        return c


PROPERTY = C13
