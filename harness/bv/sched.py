"""Deterministic opcode-level thread scheduler for boltons.cacheutils (C03).

Worker threads are real `threading.Thread`s, but exactly one runs at a time: each worker
traces its own execution (`sys.settrace`, opcode events) inside cacheutils.py and hands
control back to the scheduler before EVERY bytecode instruction executed there.  The
schedule is the list of thread choices made at those points, so every pre-emption point
between bytecode instructions inside cacheutils is reachable and every run is replayable.  Python-level callbacks
reached from C code under a cacheutils frame (`__hash__` / `__eq__` of keys and values) are scheduling points too
(`user_point`).

`cacheutils.RLock` is replaced (for caches created through `run`) by `SLock`, a
scheduler-aware re-entrant lock that records the order of OUTERMOST acquisitions (the
linearisation order of protected operations) and lets a blocked thread yield.

Lock-set acceptance: at every traced instruction that is about to write cache state
(STORE_SUBSCR / DELETE_SUBSCR / STORE_ATTR on the cache or its links, calls of the
ring helpers, `super()` dict mutators) the running thread must own the cache's lock.
This is approximated at call granularity: on every 'call' event of a function defined in
cacheutils whose name is a ring helper, and on every C-level dict mutator reached through
`super()`, we check ownership (see `STATE_FUNCS`).
"""
import sys
import threading

STATE_FUNCS = {'_get_link_and_move_to_front_of_ll', '_set_key_and_add_to_front_of_ll',
               '_set_key_and_evict_last_in_ll', '_remove_from_ll', '_init_ll'}


class Deadlock(Exception):
    pass


class StepLimit(Exception):
    pass


class SLock:
    """scheduler-aware re-entrant lock"""
    sched = None

    def __init__(self):
        self.owner = None
        self.count = 0

    def _tid(self):
        return getattr(threading.current_thread(), 'bv_tid', None)

    def __enter__(self):
        tid = self._tid()
        if tid is None:            # main thread (cache construction / final inspection)
            return self
        s = SLock.sched
        while self.owner is not None and self.owner != tid:
            s.blocked[tid] = self
            s.yield_point(tid)
        s.blocked[tid] = None
        self.owner = tid
        self.count += 1
        if self.count == 1:
            # the linearisation order = outermost acquisitions of the lock the SHARED cache currently carries
            # (locks of thread-private copies / update() arguments are scheduler-aware too, but not logged)
            c = s.cache
            if c is None or getattr(c, '_lock', None) is self:
                s.acquire_log.append(tid)
            else:
                s.foreign_acquires += 1
        return self

    def __exit__(self, *a):
        tid = self._tid()
        if tid is None:
            return False
        self.count -= 1
        if self.count == 0:
            self.owner = None
        return False

    # RLock API used nowhere else in cacheutils, but keep it complete
    def acquire(self, blocking=True, timeout=-1):
        self.__enter__()
        return True

    def release(self):
        self.__exit__()


def user_point():
    """A scheduling point INSIDE user code that C code calls back into - a key's `__hash__` / `__eq__`, a value's
    `__eq__` - while a method of the SHARED cache is on the calling thread's stack (`dict.__eq__`, `dict.update`,
    a subscript, a `**kwargs` lookup … are single bytecode instructions of cacheutils, but the interpreter can switch
    threads inside such a Python-level callback).  The harness's key / value classes call this at the start and at the
    end of their dunder methods; outside a scheduled run, on the main thread, or under a method of a thread-private
    cache it does nothing."""
    s = SLock.sched
    if s is None or not s.live:
        return
    tid = getattr(threading.current_thread(), 'bv_tid', None)
    if tid is None or s.done[tid] or s.in_user[tid]:
        return
    names = []
    f = sys._getframe(1)
    while f is not None and len(names) < 8:
        if f.f_code.co_filename == s.cu_file:
            if not names:
                slf = f.f_locals.get('self')
                if slf is not None and slf is not s.cache and isinstance(slf, s.base_cls):
                    return      # called back from a method of ANOTHER cache (a private copy / update() argument)
            names.append(f.f_code.co_name)
        f = f.f_back
    if not names:
        return                  # no cache operation in progress on this thread
    s.in_user[tid] = True
    try:
        s.where[tid] = names
        s.user_points += 1
        s.yield_point(tid)
    finally:
        s.in_user[tid] = False


class Sched:
    def __init__(self, nthreads, choose, cu_file, max_steps=200000):
        self.n = nthreads
        self.choose = choose
        self.cu_file = cu_file
        self.sems = [threading.Semaphore(0) for _ in range(nthreads)]
        self.main = threading.Semaphore(0)
        self.done = [False] * nthreads
        self.blocked = [None] * nthreads
        self.acquire_log = []          # tids in order of outermost lock acquisition
        self.choices = []              # the schedule actually taken
        self.lockset_violations = []   # (tid, function) state helper entered without the lock
        self.max_steps = max_steps
        self.abort = False
        self.woken = [False] * nthreads
        self.deadlock = False
        self.step_limit = False
        self.step = 0
        self.cache_lock = None
        self.cache = None
        self.foreign_acquires = 0
        self.base_cls = dict
        self.where = [None] * nthreads  # per thread: names of the cacheutils frames on its stack at its pending
        #                                 instruction (innermost first); lets a chooser pre-empt INSIDE a given method
        self.track_stack = False
        self.frozen = False             # step limit hit: the unfinished workers stay parked for good (see dispatch)
        self.live = False               # True while the workers of this run exist (user_point() is a no-op otherwise)
        self.in_user = [False] * nthreads
        self.user_points = 0            # scheduling points taken inside user-level __hash__ / __eq__ callbacks
        self.state_funcs = STATE_FUNCS  # helpers that must only run under the lock (the translator's list, if given)

    # The baton: exactly one worker runs at a time.  At every scheduling point the RUNNING worker itself asks the
    # chooser who goes next; if it is chosen again it simply continues (no thread hand-off - this is what makes
    # long runs of one thread cheap), otherwise it wakes the chosen thread and parks.  One call of `choose` =
    # one instruction (or one attempt to take the lock) executed by the chosen thread, exactly as when a
    # central loop made every choice.
    def runnable(self):
        return [i for i in range(self.n) if not self.done[i]
                and (self.blocked[i] is None or self.blocked[i].owner in (None, i))]

    def _wake_one(self, me):
        """abort mode: the threads are unwound ONE AT A TIME (each raises StepLimit at its scheduling point, unwinds,
        finishes and wakes the next) - never two workers running at once, not even while a run is torn down:
        CPython 3.12 can crash when one thread switches tracing off while another executes instrumented code."""
        for i in range(self.n):
            if i != me and not self.done[i] and not self.woken[i]:
                self.woken[i] = True
                self.sems[i].release()
                return

    def _abort_all(self, me, running=False):
        self.abort = True
        if not running:         # a running worker unwinds first and wakes the next one when it has finished
            self._wake_one(me)

    def dispatch(self, tid, finished=False):
        if self.frozen:
            if finished:
                return
            threading.Event().wait()        # (not reached: nobody wakes a worker of a frozen run)
        if self.abort:
            if finished:
                self._wake_one(tid)
                return
            raise StepLimit()
        runnable = self.runnable()
        if not runnable:
            if not all(self.done):
                self.deadlock = True
                self._abort_all(tid, running=not finished)
            if finished:
                return
            raise StepLimit()
        if self.step >= self.max_steps:
            # a run that does not end (e.g. an unlocked walk over a half-spliced ring that never comes back to the
            # anchor).  The workers are NOT unwound: raising out of a trace function inside the endless loop makes
            # CPython 3.12.1 switch tracing off under a live instrumented frame and crash.  Every unfinished worker
            # stays parked where it is for good (daemon threads, still tracing - so nothing is ever de-instrumented);
            # the main thread is told that the run is over.
            self.step_limit = True
            self.abort = True
            self.frozen = True
            for i in range(self.n):
                if not self.done[i] and i != tid:
                    self.main.release()
            if finished:
                return
            self.main.release()
            threading.Event().wait()        # this worker parks here for the rest of the process
        nxt = self.choose(self.step, runnable)
        if nxt not in runnable:
            nxt = runnable[0]
        self.choices.append(nxt)
        self.step += 1
        if nxt == tid:
            return
        self.sems[nxt].release()
        if finished:
            return
        self.sems[tid].acquire()
        if self.abort:
            raise StepLimit()

    def yield_point(self, tid):
        self.dispatch(tid)

    def tracer(self, tid):
        def local(frame, event, arg):
            if event == 'opcode':
                if self.track_stack:
                    names = []
                    f = frame
                    while f is not None and len(names) < 8:
                        if f.f_code.co_filename == self.cu_file:
                            names.append(f.f_code.co_name)
                        f = f.f_back
                    self.where[tid] = names
                self.yield_point(tid)
            return local

        def glob(frame, event, arg):
            co = frame.f_code
            if co.co_filename == self.cu_file:
                slf = frame.f_locals.get('self')
                if slf is not None and slf is not self.cache and self.cache is not None \
                        and isinstance(slf, self.base_cls):
                    return None     # a method of ANOTHER cache (a thread-private copy / update() argument): its
                    #                 instructions are not pre-emption points of the shared cache's operations
                if co.co_name in self.state_funcs and self.cache is not None and \
                        frame.f_locals.get('self') is self.cache:     # helpers of the SHARED cache only
                    lk = getattr(self.cache, '_lock', None)           # the lock the cache carries NOW
                    if getattr(lk, 'owner', tid) != tid:
                        self.lockset_violations.append((tid, co.co_name))
                frame.f_trace_opcodes = True
                return local
            return None
        return glob


def run(cu, programs, choose, make_cache, max_steps=200000, state_funcs=None):
    """programs: list (one per thread) of lists of callables cache -> value.
    choose(step, runnable) -> tid.  Returns dict with cache, results, schedule, acquire_log, ..."""
    n = len(programs)
    s = Sched(n, choose, cu.__file__, max_steps)
    SLock.sched = s
    if state_funcs:
        s.state_funcs = set(state_funcs)
    if hasattr(choose, 'attach'):      # choosers that look at the threads' positions (focus schedules)
        choose.attach(s)
    old_rlock = cu.RLock
    cu.RLock = SLock            # for the WHOLE run: a lock the code creates while the threads are running (a private
    #                             copy's, or - a defect - a replacement of the shared cache's) must be scheduler-aware
    #                             too, otherwise a worker blocks in C on a real lock while it holds the baton
    try:
        cache = make_cache()
        s.cache_lock = getattr(cache, '_lock', None)
        s.cache = cache
        s.base_cls = getattr(cu, 'LRI', dict)
        results = [[] for _ in range(n)]
        op_log = []   # (tid, op index) in completion order

        def worker(tid):
            s.sems[tid].acquire()
            try:
                if s.abort:
                    return
                sys.settrace(s.tracer(tid))
                for oi, op in enumerate(programs[tid]):
                    try:
                        results[tid].append(['ok', op(cache)])
                    except StepLimit:
                        results[tid].append(['exc', 'StepLimit'])
                        break
                    except Exception as e:  # noqa
                        results[tid].append(['exc', type(e).__name__])
                    op_log.append((tid, oi))
            finally:
                sys.settrace(None)
                s.done[tid] = True
                s.dispatch(tid, finished=True)      # hand the baton on
                s.main.release()

        ths = []
        s.live = True
        for i in range(n):
            t = threading.Thread(target=worker, args=(i,), daemon=True)
            t.bv_tid = i
            t.start()
            ths.append(t)
        s.dispatch(None, finished=True)             # the first choice; from here on the workers schedule themselves
        stuck = False
        for _ in range(n):
            if not s.main.acquire(timeout=60):      # a worker is blocked outside the scheduler's control
                stuck = True
                break
        if stuck:
            s._abort_all(None)
            for _ in range(n):
                s.main.acquire(timeout=5)
        if not s.frozen:
            for t in ths:
                t.join(timeout=5)
            stuck = stuck or any(t.is_alive() for t in ths)
    finally:
        s.live = False
        cu.RLock = old_rlock
    return {'cache': cache, 'results': results, 'steps': s.step, 'schedule': s.choices,
            'acquire_log': s.acquire_log, 'lockset_violations': s.lockset_violations,
            'deadlock': s.deadlock, 'step_limit': s.step_limit, 'op_log': op_log,
            'stuck': stuck, 'foreign_acquires': s.foreign_acquires,
            'user_points': s.user_points}
