"""py2lean_c12 - SOCKET MODE of the source translator (round 3d, C12: boltons.socketutils.BufferedSocket).

Translates the methods of `BufferedSocket` - loops around a wrapped socket and the clock - into Lean 4 definitions over
`lean/BoltonsVerif/PyRtC12.lean`.  Specification: notes/SRCTIE.md, section "Socket mode".  In short:

* `self.sock.recv / settimeout / send` (also through a local alias `sock = self.sock`) and `time.time()` are fields of the
  runtime record `PyRtC12.Net W φ` over an abstract world `W`: a call may change the world and returns a value or raises;
  `φ` carries the `float` values (timeouts, clock readings; the code subtracts them, compares with `0.0`, tests truth);
* `bytes` / `bytearray` values are `PyRtC12.Bytes` (lists of naturals) with Python's slicing, `len`, `+`, `b''.join`, `find`;
* exceptions are values `PyRtC12.Exc`; the classes of the module are checked on the module's AST against `EXC_CLASSES`;
* a statement list is a `PyRtC12.Blk` (falls through / returns / breaks / raises); `seq`, `ite`, `call`, `callm`,
  `tryExcept`, `whileLoop` (fuel `lfuel`, `else:` clause, `break`) are the semantics of the statements;
* `with self._recv_lock:` / `with self._send_lock:` are transparent (locks declared in the spec);
* the object state is a record (spec `state`), the locals of a method are a record (parameters by name, locals by name
  in order of first binding, `<name>_r` after a sentinel resolution, temporaries `tmp<k>` of hoisted calls).

One Python statement = one combinator application.  Anything not handled exactly raises `py2lean.Unsupported`
(the method is then "not translated" and its tie theorem stops checking).
"""
from __future__ import annotations

import ast
import importlib
import inspect
import os
import re

from py2lean import Unsupported, LEAN_RESERVED

RT = 'PyRtC12'

# ------------------------------------------------------------------------------------------------- types
# 'Int' 'Bool' 'Bytes' 'Time' (a float: the carrier φ) 'Msg' (a message string / its argument tuple: erased to Unit)
# 'None' (Unit), ('Option', T) (None | T), ('Unset', T) (_UNSET | T), ('List', 'Bytes')


def parse_type(text):
    text = text.strip()
    for pre, tag in (('Option ', 'Option'), ('Unset ', 'Unset'), ('List ', 'List')):
        if text.startswith(pre):
            return (tag, parse_type(text[len(pre):]))
    if text.startswith('(') and text.endswith(')'):
        return parse_type(text[1:-1])
    if text in ('Int', 'Bool', 'Bytes', 'Time', 'Msg', 'None'):
        return text
    raise ValueError('socket mode: unknown type %r' % text)


def show_type(t, top=True):
    if isinstance(t, tuple) and t[0] == 'MsgArgs':
        return 'Unit'
    if isinstance(t, tuple):
        s = ('List ' if t[0] == 'List' else 'Option ') + show_type(t[1], False)
        return s if top else '(%s)' % s
    return {'None': 'Unit', 'Msg': 'Unit', 'Time': 'φ', 'Bytes': RT + '.Bytes'}.get(t, t)


def lean_field(name):
    f = name.lstrip('_') or name
    return f + '_' if f in LEAN_RESERVED else f


# the exception classes of the module and of the standard library the translated code may name:
#   bases the module's AST must show (None: a builtin), constructor of PyRtC12.Exc when raised by the code (None: not
#   raisable by translated code), handler test
EXC_CLASSES = {
    'socket.timeout': (None, '.sockTimeout', 'isSockTimeout'),
    'Timeout': (['socket.timeout', 'Error'], '.timeout', 'isTimeout'),
    'ConnectionClosed': (['Error'], '.connectionClosed', 'isConnectionClosed'),
    'MessageTooLong': (['Error'], '.messageTooLong', 'isMessageTooLong'),
    'ValueError': (None, '.valueError', None),
    'Exception': (None, None, 'isException'),
}
ERROR_BASES = {'Error': ['socket.error']}


def dotted(node):
    parts = []
    while isinstance(node, ast.Attribute):
        parts.append(node.attr)
        node = node.value
    if isinstance(node, ast.Name):
        parts.append(node.id)
        return '.'.join(reversed(parts))
    return None


def check_module(tree):
    """the facts about the module the translation relies on, read off its AST (else everything is refused)"""
    classes = {n.name: n for n in tree.body if isinstance(n, ast.ClassDef)}
    for name, (bases, _c, _t) in list(EXC_CLASSES.items()) + [(k, (v, None, None)) for k, v in ERROR_BASES.items()]:
        if bases is None:
            continue
        c = classes.get(name)
        if c is None or [dotted(b) for b in c.bases] != bases or c.keywords:
            raise Unsupported(c or 'module', 'exception class %s does not have the bases %s' % (name, bases))
        if sum(1 for n in ast.walk(tree) if isinstance(n, ast.ClassDef) and n.name == name) != 1:
            raise Unsupported(c, 'exception class %s defined more than once' % name)
    imports = set()
    for n in tree.body:
        if isinstance(n, ast.Import):
            for a in n.names:
                if a.asname is None:
                    imports.add(a.name)
    for m in ('time', 'socket'):
        if m not in imports:
            raise Unsupported('module', 'no top-level `import %s`' % m)
    # names the translation interprets must not be rebound anywhere in the module
    fixed = {'time', 'socket', 'len', 'min', 'bytes', 'bytearray', 'Exception', 'ValueError'} | set(EXC_CLASSES) | set(ERROR_BASES)
    for n in ast.walk(tree):
        tg = []
        if isinstance(n, (ast.Assign, ast.AugAssign, ast.AnnAssign)):
            tg = n.targets if isinstance(n, ast.Assign) else [n.target]
        elif isinstance(n, (ast.For, ast.comprehension)):
            tg = [n.target]
        elif isinstance(n, ast.ExceptHandler) and n.name:
            if n.name in fixed:
                raise Unsupported(n, 'rebinds %s' % n.name)
        elif isinstance(n, (ast.FunctionDef, ast.Lambda)):
            a = n.args
            for x in a.posonlyargs + a.args + a.kwonlyargs + [y for y in (a.vararg, a.kwarg) if y]:
                if x.arg in fixed:
                    raise Unsupported(n, 'parameter %s shadows a name the translator interprets' % x.arg)
            if isinstance(n, ast.FunctionDef) and n.name in fixed:
                raise Unsupported(n, 'rebinds %s' % n.name)
        elif isinstance(n, (ast.Global, ast.Nonlocal)):
            if set(n.names) & fixed:
                raise Unsupported(n, 'global/nonlocal of an interpreted name')
        elif isinstance(n, (ast.Import, ast.ImportFrom)):
            for a in n.names:
                if (a.asname or a.name.split('.')[0]) in fixed - {'time', 'socket'}:
                    raise Unsupported(n, 'import rebinds %s' % (a.asname or a.name))
                if (a.asname or a.name.split('.')[0]) in ('time', 'socket') and (
                        not isinstance(n, ast.Import) or a.asname is not None or n not in tree.body):
                    raise Unsupported(n, 'time / socket bound by something else than a top-level `import`')
        for t in tg:
            for x in ast.walk(t):
                if isinstance(x, ast.Name) and x.id in fixed:
                    raise Unsupported(n, 'rebinds %s' % x.id)


def module_constant(tree, name):
    """a module-level integer constant assigned exactly once, by a literal expression of ints / `**` / `*`"""
    hits = [n for n in ast.walk(tree) if isinstance(n, (ast.Assign, ast.AugAssign, ast.AnnAssign)) and any(
        isinstance(x, ast.Name) and x.id == name for t in (n.targets if isinstance(n, ast.Assign) else [n.target])
        for x in ast.walk(t))]
    if len(hits) != 1 or hits[0] not in tree.body or not isinstance(hits[0], ast.Assign) or len(hits[0].targets) != 1:
        raise Unsupported('module', 'constant %s is not assigned exactly once at top level' % name)

    def ev(n):
        if isinstance(n, ast.Constant) and type(n.value) is int:
            return n.value
        if isinstance(n, ast.BinOp) and isinstance(n.op, (ast.Mult, ast.Pow, ast.Add)):
            a, b = ev(n.left), ev(n.right)
            return a * b if isinstance(n.op, ast.Mult) else (a + b if isinstance(n.op, ast.Add) else a ** b)
        raise Unsupported(n, 'constant %s is not an integer literal expression' % name)
    return ev(hits[0].value)


def sentinel_ok(tree, name):
    """`name` is bound at top level only (in the `try: … except ImportError: …` of the module), to a fresh object"""
    for n in ast.walk(tree):
        if isinstance(n, (ast.FunctionDef, ast.Lambda, ast.ClassDef)):
            for x in ast.walk(n):
                if isinstance(x, ast.Name) and x.id == name and isinstance(x.ctx, (ast.Store, ast.Del)):
                    raise Unsupported(x, 'sentinel %s rebound' % name)
                if isinstance(x, (ast.Global, ast.Nonlocal)) and name in x.names:
                    raise Unsupported(x, 'sentinel %s declared global' % name)
    return True


def find_method(tree, clsname, meth):
    cs = [n for n in tree.body if isinstance(n, ast.ClassDef) and n.name == clsname]
    if len(cs) != 1:
        raise Unsupported('module', 'class %s not defined exactly once at top level' % clsname)
    fs = [n for n in cs[0].body if isinstance(n, ast.FunctionDef) and n.name == meth]
    if len(fs) != 1:
        raise Unsupported(cs[0], 'method %s not defined exactly once' % meth)
    if fs[0].decorator_list:
        raise Unsupported(fs[0], 'decorated method')
    for n in ast.walk(cs[0]):          # the method name is not rebound in the class body
        if isinstance(n, ast.Name) and n.id == meth and isinstance(n.ctx, ast.Store):
            raise Unsupported(n, 'method %s rebound' % meth)
    return fs[0]


# ------------------------------------------------------------------------------------------------- flow facts
class Flow:
    """definitely assigned locals, locals known not to be None; `None` in their place = unreachable"""

    def __init__(self, assigned=(), nonnull=()):
        self.assigned, self.nonnull = frozenset(assigned), frozenset(nonnull)

    def add(self, assigned=(), nonnull=(), drop=()):
        return Flow(self.assigned | set(assigned), (self.nonnull - set(drop)) | set(nonnull))


def meet(a, b):
    if a is None:
        return b
    if b is None:
        return a
    return Flow(a.assigned & b.assigned, a.nonnull & b.nonnull)


# ------------------------------------------------------------------------------------------------- the translator
class SockTranslator:
    def __init__(self, fdef, spec, tree, done):
        self.f, self.spec, self.tree = fdef, spec, tree
        self.cls = spec['cls']
        self.done = {sp['py']: sp for sp in done}          # translated methods of the class, by Python name
        self.state = {a: parse_type(t) for a, t in self.cls['state'].items()}
        self.ops = self.cls['ops']                          # 'sock.recv' -> (field, [arg types], result type)
        self.sock_attr = self.cls['sock']
        self.locks = set(self.cls.get('locks', ()))
        self.consts = self.cls.get('consts', ())
        self.sentinel = self.cls.get('sentinel')
        self.rtype = parse_type(spec['result'])
        self.vars = {}            # python name -> (field, type)   (current binding)
        self.fields = []          # [(field, type, comment)]
        self.ntmp = 0
        self.sock_alias = None
        self.list_attrs = {a for a, t in self.state.items() if t == ('List', 'Bytes')}     # mutable list attributes (sbuf)
        self.list_alias = {}      # local name -> list attribute it is the one alias of (`sbuf = self.sbuf`)
        self._drop_ne = False
        self.loop_depth = 0
        self.handler_exc = []     # stack of lean names of the exception a handler caught
        self.uses_fuel = False
        self.fresh = set()        # list / bytearray locals: every use is checked to keep them unaliased
        self.nexc = 0
        self.in_branch = False
        self.breaks = []
        self.param_fields = {}
        self.aux = []             # named definitions of the loops: (name, kind, text)
        self.nloops = 0
        self._check_signature()

    # -- signature
    def _check_signature(self):
        a = self.f.args
        if a.vararg or a.kwarg or a.kwonlyargs or a.posonlyargs:
            raise Unsupported(self.f, 'star / keyword-only / positional-only parameters')
        names = [x.arg for x in a.args]
        if not names or names[0] != 'self':
            raise Unsupported(self.f, 'first parameter is not self')
        want = list(self.spec['params'])
        if names[1:] != want:
            raise Unsupported(self.f, 'parameters %s, the spec declares %s' % (names[1:], want))
        defaults = dict(zip(names[len(names) - len(a.defaults):], a.defaults))
        self.defaults = {}
        for p in want:
            t = parse_type(self.spec['params'][p])
            self.param_fields[self._new_field(p, t, p)] = lean_field(p)
            d = defaults.get(p)
            if d is not None:
                if isinstance(d, ast.Name) and d.id == self.sentinel:
                    if not (isinstance(t, tuple) and t[0] == 'Unset'):
                        raise Unsupported(d, 'default _UNSET of a parameter not declared Unset')
                    self.defaults[p] = 'none'
                elif isinstance(d, ast.Constant) and type(d.value) is int and t == 'Int':
                    self.defaults[p] = '(%d : Int)' % d.value
                elif isinstance(d, ast.Constant) and type(d.value) is bool and t == 'Bool':
                    self.defaults[p] = 'true' if d.value else 'false'
                else:
                    raise Unsupported(d, 'default value of %s' % p)
            elif isinstance(t, tuple) and t[0] == 'Unset':
                raise Unsupported(self.f, 'parameter %s declared Unset has no _UNSET default' % p)
        # a parameter that is rebound at another type is refused by the assignment rule; nested functions are refused
        for n in ast.walk(self.f):
            if n is not self.f and isinstance(n, (ast.FunctionDef, ast.Lambda, ast.ClassDef, ast.AsyncFunctionDef,
                                                    ast.Yield, ast.YieldFrom, ast.Await, ast.Global, ast.Nonlocal)):
                raise Unsupported(n, 'nested definition / generator / global')

    def _new_field(self, pyname, t, comment=None):
        f = lean_field(pyname)
        used = {x[0] for x in self.fields}
        if f in used or f in ('self', 'loc', 'w'):
            k = 1
            while '%s_%d' % (f, k) in used:
                k += 1
            f = '%s_%d' % (f, k)
        self.fields.append((f, t, comment if comment != f else None))
        self.vars[pyname] = (f, t)
        return f

    def _tmp(self, t):
        self.ntmp += 1
        name = 'tmp%d' % self.ntmp
        self.fields.append((name, t, None))
        self.vars[name] = (name, t)
        return name

    # -- expressions (pure, cannot raise): -> (lean text over the frame `s`, type)
    def coerce(self, text, t, want, node, fl):
        if t == want:
            return text
        if isinstance(want, tuple) and want[0] in ('Option', 'Unset') and want[1] == t:
            return '(some %s)' % text
        if isinstance(want, tuple) and want[0] == 'Unset' and isinstance(want[1], tuple) and want[1][0] == 'Option' \
                and want[1][1] == t:
            return '(some (some %s))' % text
        if isinstance(t, tuple) and t[0] == 'Option' and t[1] == want and isinstance(node, ast.Name) \
                and node.id in fl.nonnull:
            return '(%s.unwrap %s)' % (RT, text)
        if t == 'NoneLit' and isinstance(want, tuple) and want[0] == 'Option':
            return 'none'
        if t == 'NoneLit' and isinstance(want, tuple) and want[0] == 'Unset' and isinstance(want[1], tuple) \
                and want[1][0] == 'Option':
            return '(some none)'
        raise Unsupported(node, 'a value of type %s where %s is needed' % (t, want))

    def expr(self, node, fl, want=None):
        text, t = self._expr(node, fl)
        if want is not None:
            text = self.coerce(text, t, want, node, fl)
            t = want
        return text, t

    def list_place(self, node):
        """the list attribute `node` denotes: `self.<attr>` or the method's alias of it (else None)"""
        if isinstance(node, ast.Name) and node.id in self.list_alias:
            return self.list_alias[node.id]
        if isinstance(node, ast.Attribute) and isinstance(node.value, ast.Name) and node.value.id == 'self' \
                and node.attr in self.list_attrs:
            return node.attr
        return None

    def _mark(self, node):
        """`node` is used in a position that keeps no reference to a mutable list (len, join, truth, index, …)"""
        if (isinstance(node, ast.Name) and node.id in self.fresh) or self.list_place(node):
            node._fresh_ok = True

    def _read_var(self, node, fl):
        name = node.id
        if name in self.list_alias:
            if not getattr(node, '_fresh_ok', False):
                raise Unsupported(node, 'list attribute alias %s used where it could be aliased again' % name)
            return 's.self.%s' % lean_field(self.list_alias[name]), ('List', 'Bytes')
        if name in self.vars:
            if name not in fl.assigned:
                raise Unsupported(node, 'local %s may be unbound here' % name)
            f, t = self.vars[name]
            if name in self.fresh and not getattr(node, '_fresh_ok', False):
                raise Unsupported(node, 'mutable local %s used where it could be aliased' % name)
            return 's.loc.%s' % f, t
        if name in self.consts:
            return '(%d : Int)' % module_constant(self.tree, name), 'Int'
        raise Unsupported(node, 'unknown name %s' % name)

    def _expr(self, node, fl):
        if isinstance(node, ast.Name):
            return self._read_var(node, fl)
        if isinstance(node, ast.Constant):
            v = node.value
            if v is None:
                return 'none', 'NoneLit'
            if type(v) is bool:
                return ('true' if v else 'false'), 'Bool'
            if type(v) is int:
                return '(%d : Int)' % v, 'Int'
            if type(v) is bytes:
                return '([%s] : %s.Bytes)' % (', '.join(str(b) for b in v), RT), 'Bytes'
            if type(v) is float and v == 0.0 and str(v) == '0.0':
                return 'net.fzero', 'Time'
            if type(v) is str:
                return '()', 'Msg'
            raise Unsupported(node, 'constant %r' % (v,))
        if isinstance(node, ast.Attribute):
            if isinstance(node.value, ast.Name) and node.value.id == 'self' and node.attr in self.state:
                if node.attr in self.list_attrs and not getattr(node, '_fresh_ok', False):
                    raise Unsupported(node, 'mutable list attribute %s used where it could be aliased' % node.attr)
                return 's.self.%s' % lean_field(node.attr), self.state[node.attr]
            raise Unsupported(node, 'attribute %s' % (dotted(node) or node.attr))
        if isinstance(node, ast.UnaryOp):
            if isinstance(node.op, ast.USub):
                a, _ = self.expr(node.operand, fl, 'Int')
                return '(-%s)' % a, 'Int'
            if isinstance(node.op, ast.Not):
                return '(!%s)' % self.truth(node.operand, fl), 'Bool'
            raise Unsupported(node, 'unary operator')
        if isinstance(node, ast.BinOp):
            if isinstance(node.op, ast.Mod):          # '<literal>' % args : a message; `%s` / `%r` of pure values cannot raise
                return self._percent(node, fl)
            la, ta = self._expr(node.left, fl)
            lb, tb = self._expr(node.right, fl)
            if isinstance(node.op, (ast.Add, ast.Sub)) and ta == 'Int' and tb == 'Int':
                return '(%s %s %s)' % (la, '+' if isinstance(node.op, ast.Add) else '-', lb), 'Int'
            if isinstance(node.op, ast.Add) and ta == 'Bytes' and tb == 'Bytes':
                return '(%s ++ %s)' % (la, lb), 'Bytes'
            if isinstance(node.op, ast.Sub):
                la = self.coerce(la, ta, 'Time', node.left, fl)
                lb = self.coerce(lb, tb, 'Time', node.right, fl)
                return '(net.fsub %s %s)' % (la, lb), 'Time'
            raise Unsupported(node, 'binary operator on %s, %s' % (ta, tb))
        if isinstance(node, ast.Compare):
            return self._compare(node, fl), 'Bool'
        if isinstance(node, ast.BoolOp):
            return self.truth(node, fl), 'Bool'      # only where a truth value is needed (callers check)
        if isinstance(node, ast.Subscript):
            return self._subscript(node, fl)
        if isinstance(node, ast.Call):
            return self._pure_call(node, fl)
        if isinstance(node, ast.JoinedStr):
            for v in node.values:
                if isinstance(v, ast.FormattedValue):
                    if v.conversion != -1 and v.conversion not in (114, 115) or v.format_spec is not None:
                        raise Unsupported(v, 'f-string conversion / format spec')
                    self._msg_arg(v.value, fl)
                elif not (isinstance(v, ast.Constant) and type(v.value) is str):
                    raise Unsupported(v, 'f-string part')
            return '()', 'Msg'
        if isinstance(node, ast.List) and node.elts:      # a new list of byte strings
            if any(isinstance(e, ast.Starred) for e in node.elts):
                raise Unsupported(node, 'starred list display')
            return '([%s] : List %s.Bytes)' % (', '.join(self.expr(e, fl, 'Bytes')[0] for e in node.elts), RT), ('List', 'Bytes')
        if isinstance(node, ast.ListComp):                # [x for x in L if x] : a new list, the non-empty members of L
            g = node.generators
            if len(g) != 1 or g[0].is_async or not isinstance(g[0].target, ast.Name) or len(g[0].ifs) != 1 \
                    or not (isinstance(node.elt, ast.Name) and node.elt.id == g[0].target.id) \
                    or not (isinstance(g[0].ifs[0], ast.Name) and g[0].ifs[0].id == g[0].target.id):
                raise Unsupported(node, 'list comprehension other than [x for x in L if x]')
            self._mark(g[0].iter)
            x, t = self._expr(g[0].iter, fl)
            if t != ('List', 'Bytes'):
                raise Unsupported(node, 'comprehension over %s' % (t,))
            return '(List.filter %s.truthy %s)' % (RT, x), ('List', 'Bytes')
        if isinstance(node, ast.Tuple):      # only as the argument tuple of a `%` message
            for e in node.elts:
                self._msg_arg(e, fl)
            return '()', ('MsgArgs', len(node.elts))
        raise Unsupported(node, 'expression')

    def _msg_arg(self, node, fl):
        """an argument of a message: evaluated (so it must be pure and bound) but its value is erased"""
        if isinstance(node, ast.Name) and node.id in self.fresh:
            node._fresh_ok = True               # str() / repr() of a bytearray does not keep a reference
        _, t = self._expr(node, fl)
        if t not in ('Int', 'Bytes', 'Time', 'Bool', 'Msg', 'NoneLit') and not (isinstance(t, tuple) and t[0] in ('Option', 'Unset')):
            raise Unsupported(node, 'message argument of type %s' % (t,))

    def _percent(self, node, fl):
        if not (isinstance(node.left, ast.Constant) and type(node.left.value) is str):
            raise Unsupported(node, 'percent-format whose left operand is not a string literal')
        specs = re.findall(r'%(.)', node.left.value)
        if any(c not in 'sr' for c in specs):
            raise Unsupported(node, 'percent-format conversion other than s / r')
        if isinstance(node.right, ast.Tuple):
            n = len(node.right.elts)
            for e in node.right.elts:
                self._msg_arg(e, fl)
        else:
            _, t = self._expr(node.right, fl) if not isinstance(node.right, ast.Name) else (None, None)
            if isinstance(node.right, ast.Name):
                _, t = self._read_var(node.right, fl)
            if isinstance(t, tuple) and t[0] == 'MsgArgs':
                n = t[1]
            elif t in ('Int', 'Time', 'Bool'):      # a bytes / tuple right operand would be unpacked or rejected by %
                n = 1
            else:
                raise Unsupported(node, 'percent-format with a right operand of type %s' % (t,))
        if n != len(specs):
            raise Unsupported(node, 'percent-format with %d conversions and %d arguments' % (len(specs), n))
        return '()', 'Msg'

    def _compare(self, node, fl):
        if len(node.ops) != 1:
            raise Unsupported(node, 'chained comparison')
        op, l, r = node.ops[0], node.left, node.comparators[0]
        if isinstance(op, (ast.Is, ast.IsNot)):
            if isinstance(r, ast.Constant) and r.value is None and isinstance(l, ast.Name):
                lt, t = self._read_var(l, fl)
                if isinstance(t, tuple) and t[0] == 'Option':
                    return '(%s.isNone)' % lt if isinstance(op, ast.Is) else '(%s.isSome)' % lt
            if isinstance(r, ast.Name) and r.id == self.sentinel and isinstance(l, ast.Name):
                lt, t = self._read_var(l, fl)
                if isinstance(t, tuple) and t[0] == 'Unset':
                    return '(%s.isNone)' % lt if isinstance(op, ast.Is) else '(%s.isSome)' % lt
            raise Unsupported(node, 'identity test')
        la, ta = self._expr(l, fl)
        lb, tb = self._expr(r, fl)
        sym = {ast.Lt: '<', ast.LtE: '≤', ast.Gt: '>', ast.GtE: '≥', ast.Eq: '=', ast.NotEq: '≠'}.get(type(op))
        if sym is None:
            raise Unsupported(node, 'comparison operator')
        if ta == 'Int' and tb == 'Int':
            return '(decide (%s %s %s))' % (la, sym, lb)
        if isinstance(op, ast.LtE) and 'Time' in (ta, tb):
            la = self.coerce(la, ta, 'Time', l, fl)
            lb = self.coerce(lb, tb, 'Time', r, fl)
            return '(net.fle %s %s)' % (la, lb)
        raise Unsupported(node, 'comparison of %s and %s' % (ta, tb))

    def _bound(self, node, fl):
        return self.expr(node, fl, 'Int')[0]

    def _subscript(self, node, fl):
        attr = self.list_place(node.value)
        if attr is not None:                     # L[0] where the flow facts show L is not empty (else IndexError)
            if not (isinstance(node.slice, ast.Constant) and type(node.slice.value) is int and node.slice.value == 0):
                raise Unsupported(node, 'subscript of a list attribute other than [0]')
            if '#' + attr not in fl.nonnull:
                raise Unsupported(node, '%s[0] where the list may be empty' % attr)
            return '(List.headD s.self.%s [])' % lean_field(attr), 'Bytes'
        if isinstance(node.value, ast.Name) and node.value.id in self.fresh:
            node.value._fresh_ok = True          # a slice of a bytearray is a new object
        base, t = self._expr(node.value, fl)
        if t != 'Bytes' or not isinstance(node.slice, ast.Slice) or node.slice.step is not None:
            raise Unsupported(node, 'subscript other than a slice of a byte string')
        lo, hi = node.slice.lower, node.slice.upper
        if lo is None and hi is None:
            return base, 'Bytes'
        if lo is None:
            return '(%s.sliceTo %s %s)' % (RT, base, self._bound(hi, fl)), 'Bytes'
        if hi is None:
            return '(%s.sliceFrom %s %s)' % (RT, base, self._bound(lo, fl)), 'Bytes'
        return '(%s.slice %s %s %s)' % (RT, base, self._bound(lo, fl), self._bound(hi, fl)), 'Bytes'

    def _pure_call(self, node, fl):
        if node.keywords:
            raise Unsupported(node, 'keyword arguments')
        fn = node.func
        if isinstance(fn, ast.Name) and fn.id == 'len' and len(node.args) == 1:
            a = node.args[0]
            self._mark(a)
            x, t = self._expr(a, fl)
            if t == 'Bytes':
                return '(%s.len %s)' % (RT, x), 'Int'
            if t == ('List', 'Bytes'):
                return '(%s.lenL %s)' % (RT, x), 'Int'
            raise Unsupported(node, 'len of %s' % (t,))
        if isinstance(fn, ast.Name) and fn.id == 'min' and len(node.args) == 2:
            a, _ = self.expr(node.args[0], fl, 'Int')
            b, _ = self.expr(node.args[1], fl, 'Int')
            return '(min %s %s)' % (a, b), 'Int'
        if isinstance(fn, ast.Name) and fn.id in ('bytes', 'bytearray') and len(node.args) == 1:
            a = node.args[0]
            if isinstance(a, ast.Name) and a.id in self.fresh:
                a._fresh_ok = True           # a copy
            x, t = self._expr(a, fl)
            if t != 'Bytes':
                raise Unsupported(node, '%s() of %s' % (fn.id, t))
            return x, 'Bytes'
        if isinstance(fn, ast.Attribute) and fn.attr == 'join' and isinstance(fn.value, ast.Constant) \
                and fn.value.value == b'' and len(node.args) == 1:
            a = node.args[0]
            self._mark(a)
            x, t = self._expr(a, fl)
            if t != ('List', 'Bytes'):
                raise Unsupported(node, "b''.join of %s" % (t,))
            return '(%s.join %s)' % (RT, x), 'Bytes'
        if isinstance(fn, ast.Attribute) and fn.attr == 'find' and len(node.args) == 3:
            recv = fn.value
            if isinstance(recv, ast.Name) and recv.id in self.fresh:
                recv._fresh_ok = True
            x, t = self._expr(recv, fl)
            d, td = self._expr(node.args[0], fl)
            if t != 'Bytes' or td != 'Bytes':
                raise Unsupported(node, 'find on %s / %s' % (t, td))
            return '(%s.find %s %s %s %s)' % (RT, x, d, self._bound(node.args[1], fl), self._bound(node.args[2], fl)), 'Int'
        raise Unsupported(node, 'call of %s' % (dotted(fn) or type(fn).__name__))

    def truth(self, node, fl):
        """truth value of a pure expression"""
        if isinstance(node, ast.BoolOp):
            parts = [self.truth(v, fl) for v in node.values]
            return '(' + (' && ' if isinstance(node.op, ast.And) else ' || ').join(parts) + ')'
        if isinstance(node, ast.UnaryOp) and isinstance(node.op, ast.Not):
            return '(!%s)' % self.truth(node.operand, fl)
        if isinstance(node, ast.Name) and node.id in self.fresh:
            node._fresh_ok = True
        x, t = self._expr(node, fl)
        if t == 'Bool':
            return x
        if t == 'Int':
            return '(decide (%s ≠ 0))' % x
        if t == 'Bytes':
            return '(%s.truthy %s)' % (RT, x)
        if t == 'Time':
            return '(net.ftruthy %s)' % x
        if t == ('Option', 'Time'):
            return '(net.truthyOpt %s)' % x
        raise Unsupported(node, 'truth value of %s' % (t,))

    def narrow(self, test):
        """locals that are not None when `test` is true"""
        if isinstance(test, ast.Name) and test.id in self.vars and self.vars[test.id][1] == ('Option', 'Time'):
            return {test.id}
        return set()

    # -- effects
    def effect_of(self, node):
        """(kind, info) when `node` is a call with an effect: an operation of the socket / clock, or a translated method"""
        if not isinstance(node, ast.Call):
            return None
        d = dotted(node.func)
        if d is None:
            return None
        if d.startswith('self.%s.' % self.sock_attr):
            key = 'sock.' + d.split('.', 2)[2]
        elif self.sock_alias and d.startswith(self.sock_alias + '.'):
            key = 'sock.' + d.split('.', 1)[1]
        elif d == 'time.time':
            key = 'time.time'
        elif d.startswith('self.') and d.count('.') == 1 and d[5:] not in self.state:
            m = d[5:]
            if m in self.done:
                return ('method', self.done[m])
            raise Unsupported(node, 'call of %s, which is not a translated method' % d)
        else:
            return None
        if key not in self.ops:
            raise Unsupported(node, 'operation %s is not declared in the spec' % d)
        return ('op', self.ops[key])

    def has_effect(self, node):
        return any(self.effect_of(n) for n in ast.walk(node))

    def call_text(self, node, fl):
        """-> (lean `fun s => …` operation, result type, is_method)"""
        kind, info = self.effect_of(node)
        if kind == 'op':
            field, argts, rt = info
            if node.keywords or len(node.args) != len(argts):
                raise Unsupported(node, 'arguments of %s' % field)
            args = []
            for a, t in zip(node.args, argts):
                if self.has_effect(a):
                    raise Unsupported(a, 'argument with an effect')
                args.append(self.expr(a, fl, parse_type(t))[0])
            return '(fun s => net.%s%s)' % (field, ''.join(' ' + a for a in args)), parse_type(rt), False
        sp = info
        self._drop_ne = True
        pnames = list(sp['params'])
        given = {}
        if len(node.args) > len(pnames):
            raise Unsupported(node, 'too many arguments')
        for p, a in zip(pnames, node.args):
            given[p] = a
        for kw in node.keywords:
            if kw.arg is None or kw.arg not in pnames or kw.arg in given:
                raise Unsupported(node, 'keyword argument')
            given[kw.arg] = kw.value
        args = []
        for p in pnames:
            t = parse_type(sp['params'][p])
            if p in given:
                if self.has_effect(given[p]):
                    raise Unsupported(given[p], 'argument with an effect')
                args.append(self.expr(given[p], fl, t)[0])
            elif p in sp['_defaults']:
                args.append(sp['_defaults'][p])
            else:
                raise Unsupported(node, 'missing argument %s' % p)
        fuel = ' lfuel' if sp['_fuel'] else ''
        if sp['_fuel']:
            self.uses_fuel = True
        return '(fun s st => %s net%s st%s)' % (self.cls['lean_name'] + '.' + sp['lean_name'].split('.')[-1], fuel,
                                                ''.join(' ' + a for a in args)), parse_type(sp['result']), True

    # -- statements: -> (lean Blk text, flow after / None if unreachable)
    def seq(self, items):
        items = [i for i in items if i != 'Blk.skip'] or ['Blk.skip']
        out = items[-1]
        for it in reversed(items[:-1]):
            out = 'Blk.seq %s\n(%s)' % (_paren(it), out)
        return out

    def block(self, stmts, fl):
        items = []
        for k, st in enumerate(stmts):
            if fl is None:
                raise Unsupported(st, 'unreachable statement')
            if k == 0 and isinstance(st, ast.Expr) and isinstance(st.value, ast.Constant) and type(st.value.value) is str:
                continue
            text, fl = self.stmt(st, fl)
            if self._drop_ne:
                self._drop_ne = False
                if fl is not None:
                    fl = Flow(fl.assigned, {x for x in fl.nonnull if not x.startswith('#')})
            items.append(text)
        return self.seq(items), fl

    def _kills(self, stmts):
        """non-emptiness facts ('#attr') a statement list may invalidate: a slice assignment of a possibly empty list, a
        call of a method of the object"""
        out = set()
        for x in stmts:
            for n in ast.walk(x):
                if isinstance(n, ast.Assign):
                    for t in n.targets:
                        if isinstance(t, ast.Subscript) and self.list_place(t.value) is not None and isinstance(t.slice, ast.Slice) \
                                and not (isinstance(n.value, ast.List) and n.value.elts):
                            out.add('#' + self.list_place(t.value))
                if isinstance(n, ast.Call) and (dotted(n.func) or '').startswith('self.') and (dotted(n.func) or '').count('.') == 1:
                    out |= {'#' + a for a in self.list_attrs}
        return out

    def target(self, t, vt, fl, node):
        """an assignment target receiving a value of type `vt`: -> (update builder, flow change)"""
        if isinstance(t, ast.Name):
            name = t.id
            if name == 'self' or name in self.consts or name == self.sentinel or name == self.sock_alias \
                    or name in self.list_alias:
                raise Unsupported(t, 'assignment to %s' % name)
            if name not in self.vars:
                if vt == 'NoneLit':
                    raise Unsupported(t, 'local bound to None first')
                self._new_field(name, vt, name)
                if vt == ('List', 'Bytes'):
                    self.fresh.add(name)
            f, ft = self.vars[name]
            return ('loc', f, ft, name)
        if isinstance(t, ast.Attribute) and isinstance(t.value, ast.Name) and t.value.id == 'self' and t.attr in self.state:
            if t.attr in self.list_attrs:
                raise Unsupported(t, 'mutable list attribute %s rebound' % t.attr)
            return ('self', lean_field(t.attr), self.state[t.attr], None)
        raise Unsupported(t, 'assignment target')

    def updates(self, pairs):
        """pairs: [(kind, field, value text over s0)] -> `fun s => …` applying them left to right, every value computed
        on the frame before the statement"""
        if len(pairs) == 1:
            k, f, v = pairs[0]
            return '(fun s => { s with %s := { s.%s with %s := %s } })' % (k, k, f, v)
        lets = ' '.join('let v%d := %s;' % (i, v) for i, (_, _, v) in enumerate(pairs))
        upd = ' '.join('let s := { s with %s := { s.%s with %s := v%d } };' % (k, k, f, i) for i, (k, f, _) in enumerate(pairs))
        return '(fun s => %s %s s)' % (lets, upd)

    def assign(self, st, fl):
        if len(st.targets) != 1:
            raise Unsupported(st, 'chained assignment')
        tg, val = st.targets[0], st.value
        pre = []
        # sock = self.sock : an alias of the wrapped socket
        if isinstance(tg, ast.Name) and dotted(val) == 'self.' + self.sock_attr:
            if self.sock_alias or tg.id in self.vars or self.loop_depth or self._stores(tg.id) != 1:
                raise Unsupported(st, 'alias of the socket bound more than once / inside a loop')
            self.sock_alias = tg.id
            return 'Blk.skip', fl
        # sbuf = self.sbuf : THE alias of a mutable list attribute (the attribute is never rebound, see `target`)
        if isinstance(tg, ast.Name) and self.list_place(val) is not None and isinstance(val, ast.Attribute):
            if tg.id in self.list_alias or tg.id in self.vars or self.loop_depth or self.in_branch \
                    or self._stores(tg.id) != 1 or tg.id in self.spec['params'] or tg.id == 'self':
                raise Unsupported(st, 'alias of a list attribute bound more than once / inside a loop or branch')
            if any(isinstance(n, ast.Call) and (dotted(n.func) or '').startswith('self.') and (dotted(n.func) or '').count('.') == 1
                   for n in ast.walk(self.f)):
                raise Unsupported(st, 'alias of a list attribute in a method that calls methods of the object')
            self.list_alias[tg.id] = val.attr
            return 'Blk.skip', fl
        # L[:] = <new list>     L[0] = <bytes>      (L a list attribute / its alias): in-place updates of the one list object
        if isinstance(tg, ast.Subscript) and self.list_place(tg.value) is not None:
            attr = self.list_place(tg.value)
            f = lean_field(attr)
            if self.has_effect(val):
                raise Unsupported(st, 'list item / slice assignment of a call with an effect')
            sl = tg.slice
            if isinstance(sl, ast.Slice) and sl.lower is None and sl.upper is None and sl.step is None:
                if not isinstance(val, (ast.List, ast.ListComp)):
                    raise Unsupported(st, 'slice assignment of something else than a new list')
                v, vt = self._expr(val, fl) if not (isinstance(val, ast.List) and not val.elts) else ('([] : List %s.Bytes)' % RT, ('List', 'Bytes'))
                if vt != ('List', 'Bytes'):
                    raise Unsupported(st, 'slice assignment of %s' % (vt,))
                ne = isinstance(val, ast.List) and len(val.elts) > 0
                fl2 = Flow(fl.assigned, (fl.nonnull - {'#' + attr}) | ({'#' + attr} if ne else set()))
                return 'Blk.assign %s' % self.updates([('self', f, v)]), fl2
            if isinstance(sl, ast.Constant) and type(sl.value) is int and sl.value == 0:
                if '#' + attr not in fl.nonnull:
                    raise Unsupported(st, '%s[0] = … where the list may be empty' % attr)
                v, _ = self.expr(val, fl, 'Bytes')
                return 'Blk.assign %s' % self.updates([('self', f, '(List.set s.self.%s 0 %s)' % (f, v))]), fl
            raise Unsupported(st, 'list item / slice assignment')
        # x = A or <effect>
        if isinstance(val, ast.BoolOp) and isinstance(val.op, ast.Or) and len(val.values) == 2 \
                and not self.has_effect(val.values[0]) and self.effect_of(val.values[1]) and isinstance(tg, ast.Name):
            a, ta = self._expr(val.values[0], fl)
            op, rt, is_m = self.call_text(val.values[1], fl)
            if ta != rt or is_m:
                raise Unsupported(st, '`or` of %s and %s' % (ta, rt))
            k, f, ft, name = self.target(tg, ta, fl, st)
            if ft != ta:
                raise Unsupported(st, 'local %s rebound at another type' % tg.id)
            text = 'Blk.ite (fun s => %s)\n(Blk.assign %s)\n(Blk.call %s (fun s v => { s with loc := { s.loc with %s := v } }))' % (
                self.truth(val.values[0], fl), self.updates([(k, f, a)]), op, f)
            return text, fl.add(assigned=[name], drop=[name])
        # hoist the one effectful call nested in a pure expression (all other leaves are names / constants)
        if self.has_effect(val) and not self.effect_of(val):
            val, fl = self._hoist(val, fl, pre, st)
        if self.effect_of(val):
            if isinstance(tg, ast.Tuple):
                raise Unsupported(st, 'tuple target of a call')
            op, rt, is_m = self.call_text(val, fl)
            k, f, ft, name = self.target(tg, rt, fl, st)
            if ft != rt:
                if isinstance(ft, tuple) and ft[0] == 'Option' and ft[1] == rt:
                    store = '(some v)'
                else:
                    raise Unsupported(st, 'a call result of type %s stored in %s' % (rt, ft))
            else:
                store = 'v'
            text = 'Blk.%s %s (fun s v => { s with %s := { s.%s with %s := %s } })' % (
                'callm' if is_m else 'call', op, k, k, f, store)
            return self.seq(pre + [text]), fl.add(assigned=[name] if name else [], drop=[name] if name else [])
        tgs = tg.elts if isinstance(tg, ast.Tuple) else [tg]
        vals = val.elts if isinstance(tg, ast.Tuple) and isinstance(val, ast.Tuple) else [val]
        if len(tgs) != len(vals) or any(isinstance(x, ast.Starred) for x in tgs + vals):
            raise Unsupported(st, 'tuple assignment of different lengths')
        pairs, names = [], []
        for t, v in zip(tgs, vals):
            # fresh containers
            if isinstance(v, ast.List) and not v.elts:
                vt_text, vt = '([] : List %s.Bytes)' % RT, ('List', 'Bytes')
            elif isinstance(v, ast.Call) and isinstance(v.func, ast.Name) and v.func.id == 'bytearray' and isinstance(t, ast.Name):
                vt_text, vt = self._expr(v, fl)
                if t.id not in self.vars:
                    self.fresh.add(t.id)
            else:
                if isinstance(v, ast.BoolOp):
                    raise Unsupported(v, 'and / or used for its operand value')
                vt_text, vt = self._expr(v, fl)
            k, f, ft, name = self.target(t, vt, fl, st)
            vt_text = self.coerce(vt_text, vt, ft, v, fl) if vt != ft else vt_text
            pairs.append((k, f, vt_text))
            if name:
                names.append(name)
        if len({(k, f) for k, f, _ in pairs}) != len(pairs):
            raise Unsupported(st, 'one target twice in a tuple assignment')
        return self.seq(pre + ['Blk.assign %s' % self.updates(pairs)]), fl.add(assigned=names, drop=names)

    def _stores(self, name):
        return sum(1 for n in ast.walk(self.f) if isinstance(n, ast.Name) and n.id == name and isinstance(n.ctx, (ast.Store, ast.Del)))

    def _hoist(self, val, fl, pre, st):
        calls = [n for n in ast.walk(val) if self.effect_of(n)]
        if len(calls) != 1:
            raise Unsupported(st, 'more than one call with an effect in one expression')
        call = calls[0]
        for n in ast.walk(val):       # everything else: names, constants, arithmetic on them, tuples
            if n is call or any(n is x for x in ast.walk(call)):
                continue
            if not isinstance(n, (ast.Name, ast.Constant, ast.BinOp, ast.UnaryOp, ast.Tuple, ast.operator, ast.unaryop,
                                  ast.expr_context)):
                raise Unsupported(st, 'a call with an effect next to %s' % type(n).__name__)
        op, rt, is_m = self.call_text(call, fl)
        if is_m:
            raise Unsupported(st, 'method call inside an expression')
        tmp = self._tmp(rt)
        pre.append('Blk.call %s (fun s v => { s with loc := { s.loc with %s := v } })' % (op, tmp))

        class R(ast.NodeTransformer):
            def visit_Call(s2, n):
                return ast.copy_location(ast.Name(id=tmp, ctx=ast.Load()), n) if n is call else n
        return R().visit(val), fl.add(assigned=[tmp])

    def stmt(self, st, fl):
        if isinstance(st, ast.Pass):
            return 'Blk.skip', fl
        if isinstance(st, ast.With):
            if len(st.items) != 1 or st.items[0].optional_vars is not None \
                    or dotted(st.items[0].context_expr) not in {'self.' + l for l in self.locks}:
                raise Unsupported(st, 'with of something else than a declared lock')
            return self.block(st.body, fl)           # an RLock: entering / leaving cannot fail, nothing is bound
        if isinstance(st, ast.Assign):
            return self.assign(st, fl)
        if isinstance(st, ast.AugAssign):
            if not isinstance(st.target, ast.Name) or not isinstance(st.op, (ast.Add, ast.Sub)) or self.has_effect(st.value):
                raise Unsupported(st, 'augmented assignment')
            cur, t = self._read_var(st.target, fl)
            if t != 'Int':
                raise Unsupported(st, 'augmented assignment to %s' % (t,))
            v, _ = self.expr(st.value, fl, 'Int')
            f = self.vars[st.target.id][0]
            return 'Blk.assign %s' % self.updates([('loc', f, '(%s %s %s)' % (cur, '+' if isinstance(st.op, ast.Add) else '-', v))]), fl
        if isinstance(st, ast.Expr):
            v = st.value
            if self.effect_of(v):
                op, rt, is_m = self.call_text(v, fl)
                return 'Blk.%s %s (fun s _ => s)' % ('callm' if is_m else 'call', op), fl
            if isinstance(v, ast.Call) and isinstance(v.func, ast.Attribute) and self.list_place(v.func.value) is not None:
                attr = self.list_place(v.func.value)
                f = lean_field(attr)
                if v.func.attr != 'append' or len(v.args) != 1 or v.keywords or self.has_effect(v.args[0]):
                    raise Unsupported(st, 'method of a list attribute other than append(<pure bytes>)')
                a, _ = self.expr(v.args[0], fl, 'Bytes')
                return 'Blk.assign %s' % self.updates([('self', f, '(s.self.%s ++ [%s])' % (f, a))]), fl.add(nonnull=['#' + attr])
            if isinstance(v, ast.Call) and isinstance(v.func, ast.Attribute) and isinstance(v.func.value, ast.Name) \
                    and v.func.value.id in self.fresh and len(v.args) == 1 and not v.keywords \
                    and v.func.value.id in fl.assigned:
                name = v.func.value.id
                f, t = self.vars[name]
                if self.has_effect(v.args[0]):
                    raise Unsupported(st, 'argument with an effect')
                a, _ = self.expr(v.args[0], fl, 'Bytes')
                if v.func.attr == 'append' and t == ('List', 'Bytes'):
                    return 'Blk.assign %s' % self.updates([('loc', f, '(s.loc.%s ++ [%s])' % (f, a))]), fl
                if v.func.attr == 'extend' and t == 'Bytes':
                    return 'Blk.assign %s' % self.updates([('loc', f, '(s.loc.%s ++ %s)' % (f, a))]), fl
            raise Unsupported(st, 'expression statement')
        if isinstance(st, ast.Return):
            if st.value is None:
                if self.rtype != 'None':
                    raise Unsupported(st, 'bare return in a method with a result')
                return 'Blk.ret (fun _ => ())', None
            eff = self.effect_of(st.value)
            if eff and eff[0] == 'method':            # return self.m(args): the call, then the return of its value
                op, rt, _m = self.call_text(st.value, fl)
                if rt != self.rtype:
                    raise Unsupported(st, 'return of a method result of type %s' % (rt,))
                tmp = self._tmp(rt)
                return self.seq(['Blk.callm %s (fun s v => { s with loc := { s.loc with %s := v } })' % (op, tmp),
                                 'Blk.ret (fun s => s.loc.%s)' % tmp]), None
            if self.has_effect(st.value):
                raise Unsupported(st, 'return of a call with an effect')
            v, _ = self.expr(st.value, fl, self.rtype)
            return 'Blk.ret (fun s => %s)' % v, None
        if isinstance(st, ast.Break):
            if not self.loop_depth:
                raise Unsupported(st, 'break outside a loop')
            self.breaks[-1] = meet(self.breaks[-1], fl) if self.breaks[-1] is not False else fl
            return 'Blk.brk', None
        if isinstance(st, ast.Raise):
            return self.raise_stmt(st, fl), None
        if isinstance(st, ast.If):
            return self.if_stmt(st, fl)
        if isinstance(st, ast.While):
            return self.while_stmt(st, fl)
        if isinstance(st, ast.Try):
            return self.try_stmt(st, fl)
        raise Unsupported(st, 'statement')

    def raise_stmt(self, st, fl):
        if st.cause is not None:
            raise Unsupported(st, 'raise … from')
        if st.exc is None:
            if not self.handler_exc or self.handler_exc[-1] is None:
                raise Unsupported(st, 'bare raise outside a handler')
            return 'Blk.raise (fun _ => %s)' % self.handler_exc[-1]
        e = st.exc
        if not isinstance(e, ast.Call) or e.keywords:
            raise Unsupported(st, 'raise of something else than a constructor call')
        cname = dotted(e.func)
        info = EXC_CLASSES.get(cname)
        if info is None or info[1] is None:
            raise Unsupported(st, 'raise of %s' % cname)
        for a in e.args:              # constructor arguments: evaluated, then erased (the class is what is modelled)
            if self.has_effect(a):
                raise Unsupported(a, 'argument with an effect')
            self._msg_arg(a, fl)
        return 'Blk.raise (fun _ => %s)' % info[1]

    def if_stmt(self, st, fl):
        t = st.test
        # sentinel / None resolution:  if P is _UNSET: P = E      if P is None: P = E
        if isinstance(t, ast.Compare) and len(t.ops) == 1 and isinstance(t.ops[0], ast.Is) and isinstance(t.left, ast.Name) \
                and t.left.id in self.vars and not st.orelse and len(st.body) == 1 and isinstance(st.body[0], ast.Assign) \
                and len(st.body[0].targets) == 1 and isinstance(st.body[0].targets[0], ast.Name) \
                and st.body[0].targets[0].id == t.left.id:
            name = t.left.id
            f, vt = self.vars[name]
            c = t.comparators[0]
            tag = 'Unset' if (isinstance(c, ast.Name) and c.id == self.sentinel) else (
                'Option' if (isinstance(c, ast.Constant) and c.value is None) else None)
            if tag and isinstance(vt, tuple) and vt[0] == tag and not (tag == 'Option' and vt[1] == 'Time'):
                if self.loop_depth or self.in_branch:
                    raise Unsupported(st, 'sentinel resolution inside a loop / branch')
                if name not in fl.assigned or self.has_effect(st.body[0].value):
                    raise Unsupported(st, 'sentinel resolution of an unbound name / by a call')
                inner = vt[1]
                e, _ = self.expr(st.body[0].value, fl, inner)
                cur = 's.loc.%s' % f
                nf = self._new_field(name + '_r', inner, '%s after `if %s is %s`' % (name, name, ast.unparse(c)))
                self.vars[name] = (nf, inner)
                del self.vars[name + '_r']
                return 'Blk.assign %s' % self.updates([('loc', nf, '(%s.orDefault %s %s)' % (RT, cur, e))]), fl
        c = self.truth(t, fl)
        saved = self.in_branch
        self.in_branch = True
        a, fa = self.block(st.body, fl.add(nonnull=self.narrow(t)))
        b, fb = self.block(st.orelse, fl) if st.orelse else ('Blk.skip', fl)
        self.in_branch = saved
        out = meet(fa, fb)
        return 'Blk.ite (fun s => %s)\n%s\n%s' % (c, _paren(a), _paren(b)), out

    def while_stmt(self, st, fl):
        const_true = isinstance(st.test, ast.Constant) and st.test.value in (1, True) and type(st.test.value) in (int, bool)
        c = 'true' if const_true else self.truth(st.test, fl)
        if self.handler_exc:
            raise Unsupported(st, 'loop inside an exception handler')
        self.nloops += 1
        base = '%s.loop%d' % (self.def_name(), self.nloops)
        self.loop_depth += 1
        saved, self.in_branch = self.in_branch, True
        self.breaks.append(False)
        # the facts at the loop head are those before the loop (a fixed point: the body can only add to `assigned`;
        # narrowing facts are dropped for everything the body assigns)
        written = {n.id for x in st.body for n in ast.walk(x) if isinstance(n, ast.Name) and isinstance(n.ctx, ast.Store)}
        written |= self._kills(st.body)
        head = Flow(fl.assigned, fl.nonnull - written)
        nfields = len(self.fields)
        body, fb = self.block(st.body, head.add(nonnull=self.narrow(st.test) - written))
        # a local first bound inside the loop must not be read before its binding in a later iteration: the flow above
        # started from `head`, where it is unassigned, so such a read was refused
        brk = self.breaks.pop()
        self.loop_depth -= 1
        if st.orelse:
            if const_true:
                raise Unsupported(st, 'else clause of `while 1`')
            orelse, fe = self.block(st.orelse, head)
        else:
            orelse, fe = 'Blk.skip', (None if const_true else head)
        self.in_branch = saved
        after = fe
        if brk is not False:
            after = meet(after, brk) if after is not None else brk
        if after is not None:
            after = Flow(after.assigned, after.nonnull - written)
        self.uses_fuel = True
        self.aux.append((base + '.cond', 'cond', 'fun s => ' + c))
        self.aux.append((base + '.body', 'blk', body))
        self.aux.append((base + '.orelse', 'blk', orelse))
        return 'Blk.whileLoop (%s.cond net lfuel) (%s.body net lfuel) (%s.orelse net lfuel) lfuel' % (base, base, base), after

    def try_stmt(self, st, fl):
        if st.finalbody:
            raise Unsupported(st, 'try / finally')
        saved, self.in_branch = self.in_branch, True
        body, fb = self.block(st.body, fl)
        # a handler starts from the facts BEFORE the try (the body may have raised anywhere)
        written = {n.id for x in st.body for n in ast.walk(x) if isinstance(n, ast.Name) and isinstance(n.ctx, ast.Store)}
        written |= self._kills(st.body)
        hfl = Flow(fl.assigned, fl.nonnull - written)
        self.nexc += 1
        ev = 'e%d' % self.nexc
        arms, outs, seen = [], [], []
        for h in st.handlers:
            if h.name is not None:
                raise Unsupported(h, 'except … as name')
            cname = dotted(h.type) if h.type is not None else None
            info = EXC_CLASSES.get(cname)
            if info is None or info[2] is None:
                raise Unsupported(h, 'handler for %s' % (cname or 'everything'))
            self.handler_exc.append(ev)
            hb, hf = self.block(h.body, hfl)
            self.handler_exc.pop()
            arms.append('if %s.%s then some %s' % (ev, info[2], _paren(hb)))
            outs.append(hf)
        if not arms:
            raise Unsupported(st, 'try without handlers')
        if st.orelse:
            orelse, fe = self.block(st.orelse, fb) if fb is not None else ('Blk.skip', None)
            if fb is None:
                raise Unsupported(st, 'else clause of a try whose body never falls through')
        else:
            orelse, fe = 'Blk.skip', fb
        self.in_branch = saved
        out = fe
        for hf in outs:
            out = meet(out, hf)
        if out is not None:
            out = Flow(out.assigned, out.nonnull - written)
        handler = '(fun %s => %s\nelse none)' % (ev, '\nelse '.join(arms))
        return 'Blk.tryExcept %s\n%s\n%s' % (_paren(body), handler, _paren(orelse)), out

    def def_name(self):
        return self.cls['lean_name'] + '.' + self.spec['lean_name'].split('.')[-1]

    # -- the definition
    def emit(self):
        params = list(self.spec['params'])
        fl = Flow(assigned=params)
        body, fl = self.block(self.f.body, fl)
        if fl is not None and self.rtype != 'None':
            raise Unsupported(self.f, 'the method may fall off its end but has a result type')
        cn = self.cls['lean_name']
        name = cn + '.' + self.spec['lean_name'].split('.')[-1]
        lines = ['structure %s.L (φ : Type) where' % name]
        if not self.fields:
            lines.append('  mk ::')
        for f, t, c in self.fields:
            lines.append('  %s : %s%s' % (f, show_type(t), ('    -- ' + c) if c else ''))
        fuel = ' (lfuel : Nat)' if self.uses_fuel else ''
        frame = 'Fr (%s.St φ) (%s.L φ) W' % (cn, name)
        out = '\n'.join(lines) + '\n\n'
        for an, kind, text in self.aux:      # the loops, innermost first: condition, body, else clause
            ty = ('%s → Bool' % frame) if kind == 'cond' else 'Blk (%s) %s' % (frame, show_type(self.rtype, False))
            out += 'def %s (net : Net W φ) (lfuel : Nat) : %s :=\n%s\n\n' % (an, ty, indent_lean(text))
        out += 'def %s.body (net : Net W φ)%s : Blk (%s) %s :=\n' % (name, fuel, frame, show_type(self.rtype, False))
        out += indent_lean(body) + '\n\n'
        ps = ''.join(' (%s : %s)' % (lean_field(p), show_type(parse_type(self.spec['params'][p]))) for p in params)
        init = ', '.join('%s := %s' % (f, self.param_fields.get(f, 'default')) for f, t, c in self.fields)
        out += 'def %s (net : Net W φ)%s (self : %s.St φ)%s (w : W) : Except Exc %s × %s.St φ × W :=\n' % (
            name, fuel, cn, ps, show_type(self.rtype, False), cn)
        out += '  runMethod (%s.body net%s) self %s w\n' % (name, ' lfuel' if self.uses_fuel else '',
                                                          ('{ %s }' % init) if self.fields else '⟨⟩')
        self.spec['_fuel'] = self.uses_fuel
        self.spec['_defaults'] = self.defaults
        return out


def _paren(text):
    text = text.strip()
    if text.startswith('(') and _balanced(text):
        return text
    return '(' + text + ')' if (' ' in text or '\n' in text) else text


def _balanced(text):
    depth = 0
    for i, ch in enumerate(text):
        if ch == '(':
            depth += 1
        elif ch == ')':
            depth -= 1
            if depth == 0 and i != len(text) - 1:
                return False
    return depth == 0


def indent_lean(text):
    """indent by bracket depth (two spaces per open parenthesis at the start of the line)"""
    out, depth = [], 0
    for line in text.split('\n'):
        line = line.strip()
        out.append('  ' * (depth + 1) + line)
        for ch in line:
            if ch in '([{':
                depth += 1
            elif ch in ')]}':
                depth -= 1
    return '\n'.join(out)


def class_state_text(cls):
    lines = ['/-- object state of `%s` (the attributes declared in the spec) -/' % cls['name'],
             'structure %s.St (φ : Type) where' % cls['lean_name']]
    for a, t in cls['state'].items():
        f = lean_field(a)
        lines.append('  %s : %s%s' % (f, show_type(parse_type(t)), '' if f == a else '    -- ' + a))
    return '\n'.join(lines) + '\n'


def translate_source(src, specs, module_name, rel):
    tree = ast.parse(src)
    short = specs[0].get('gen_file') or module_name.split('.')[-1]
    parts, infos, head, done, classes = [], [], [], [], []
    module_error = None
    try:
        check_module(tree)
        for sp in specs:
            if sp['cls'].get('sentinel'):
                sentinel_ok(tree, sp['cls']['sentinel'])
    except Unsupported as e:
        module_error = str(e)
    for spec in specs:
        cls = spec['cls']
        if cls['lean_name'] not in classes:
            classes.append(cls['lean_name'])
            parts.append(class_state_text(cls))
            parts.append('section\nvariable {W φ : Type} [Inhabited φ]\n')
    for spec in specs:
        info = {'function': '%s.%s' % (module_name, spec['qualname']), 'source_file': rel, 'lines': None,
                'lean_def': 'Src.%s.%s' % (short, spec['lean_name']), 'lean_pre': None,
                'tie_theorem': spec['tie_theorem']}
        infos.append(info)
        try:
            if module_error:
                raise Unsupported('module', module_error)
            fdef = find_method(tree, spec['cls']['name'], spec['py'])
            info['lines'] = '%d-%d' % (fdef.lineno, fdef.end_lineno)
            text = SockTranslator(fdef, spec, tree, done).emit()
            done.append(spec)
        except (Unsupported, RecursionError) as e:
            info['error'] = str(e) or type(e).__name__
            parts.append('-- NOT TRANSLATED: %s: %s\n' % (spec['qualname'], info['error'].replace('\n', ' ')))
            head.append('  %s -> NOT TRANSLATED' % spec['qualname'])
            continue
        parts.append(text)
        head.append('  %s (lines %s) -> Src.%s.%s' % (spec['qualname'], info['lines'], short, spec['lean_name']))
    parts.append('end\n')
    out = ('/- GENERATED by harness/py2lean_c12.py (socket mode) from %s - do not edit.\n'
           '   Compositional translation of the current source text (rules: notes/SRCTIE.md, "Socket mode"):\n%s\n-/\n'
           'import BoltonsVerif.PyRtC12\n\nnamespace Src.%s\nopen PyRtC12\n\n%s\nend Src.%s\n' % (
               rel, '\n'.join(head), short, '\n'.join(parts), short))
    return out, infos


def translate_module(module_name, specs, repo):
    mod = importlib.import_module(module_name)
    path = os.path.abspath(inspect.getsourcefile(mod))
    if not path.startswith(os.path.abspath(repo) + os.sep):
        raise RuntimeError('%s imported from %s, not from %s' % (module_name, path, repo))
    with open(path) as fh:
        src = fh.read()
    return translate_source(src, specs, module_name, os.path.relpath(path, os.path.abspath(repo)))
