"""py2lean_c06_selftest - validation of harness/py2lean_c06.py against CPython (run by py2lean_selftest.run through
`py2lean_c06.selftest` on every check of C06, on THIS run's source).

 * every translated function of the module under test, and every SNIPPET below (variants of the same functions that
   exercise each construct of the subset: generator expression / explicit loop + append / append alias / try-except /
   `if` rebinding / `not in` / slices), is run in CPython and as the generated Lean definition (a scratch `lean --run`
   driver) on thousands of argument tuples; results must agree exactly.  `nfc` is driven by the text
   `unicodedata.normalize('NFC', text)` computed by CPython (the driver passes `fun _ => that text`).
   Texts with a surrogate code point violate the recorded precondition of `.encode` (`lean_pre`): CPython must raise
   UnicodeEncodeError on them when the function encodes (counted as `pre_false`), otherwise they are compared.
 * the declared operation `to_unicode` is the identity on every sampled str (`op_tests`).
 * REJECT: snippets that violate ONE side condition each must be refused (`Unsupported`).
"""
from __future__ import annotations

import importlib
import os
import random
import shutil
import subprocess
import sys
import tempfile
import time
import types
import unicodedata

sys.path.insert(0, os.path.dirname(os.path.abspath(__file__)))
import py2lean_c06 as T                                           # noqa: E402
import srctie_specs                                               # noqa: E402
from bv import common                                             # noqa: E402

ALPHABET = [0x25, 0x25, 0x25, 0x30, 0x32, 0x39, 0x41, 0x46, 0x61, 0x66, 0x67, 0x47, 0x20, 0x2f, 0x3f, 0x23, 0x5b, 0x5d,
            0x40, 0x3a, 0x26, 0x3d, 0x2b, 0x3b, 0x21, 0x7e, 0x2d, 0x5f, 0x2e, 0x00, 0x7f, 0x80, 0xe9, 0xff, 0x100, 0x65,
            0x301, 0x41, 0x30a, 0x7ff, 0x800, 0x20ac, 0xffff, 0x10000, 0x1F600, 0x10FFFF, 0x212b, 0xfb01]
SURROGATES = [0xD800, 0xDFFF]

# ---- snippets: the same functions written with the other constructs of the subset (also the "harmless refactors")
SNIPPET_HEAD = '''
from unicodedata import normalize
import boltons.urlutils as _U
_PATH_PART_QUOTE_MAP = _U._PATH_PART_QUOTE_MAP
_QUERY_PART_QUOTE_MAP = _U._QUERY_PART_QUOTE_MAP
_PATH_DELIMS = _U._PATH_DELIMS
_QUERY_DELIMS = _U._QUERY_DELIMS
_HEX_CHAR_MAP = _U._HEX_CHAR_MAP
import re
_ASCII_RE = re.compile('([\\x00-\\x7f]+)')
def to_unicode(obj):
    return str(obj)
'''
SNIPPETS = {
    'q_gen': ('''
def q_gen(text, full_quote=True):
    """generator expression, if/else statement"""
    if full_quote:
        data = normalize('NFC', text).encode('utf-8')
        return ''.join(_PATH_PART_QUOTE_MAP[b] for b in data)
    else:
        return ''.join((_PATH_PART_QUOTE_MAP[t] if t in _PATH_DELIMS else t) for t in text)
''', {'text': 'Str', 'full_quote': 'Bool'}, 'Str'),
    'q_loop': ('''
def q_loop(text, full_quote=True):
    out = ['']
    if not full_quote:
        for t in text:
            out.append(_QUERY_PART_QUOTE_MAP[t] if t in _QUERY_DELIMS else t)
        return ''.join(out)
    for b in normalize('NFC', to_unicode(text)).encode('utf8'):
        out.append(_QUERY_PART_QUOTE_MAP[b])
    res = ''.join(out)
    return res
''', {'text': 'Str', 'full_quote': 'Bool'}, 'Str'),
    'u_plain': ('''
def u_plain(string):
    if not string:
        return b''
    data = string.encode('utf-8')
    if b'%' not in data:
        return data
    bits = data.split(b'%')
    res = [bits[0]]
    for item in bits[1:]:
        try:
            code = _HEX_CHAR_MAP[item[:2]]
            res.append(code)
            res.append(item[2:])
        except KeyError:
            res.append(b'%')
            res.append(item)
    return b''.join(res)
''', {'string': 'Str'}, 'Bytes'),
    'u_runs': ('''
def u_runs(string, errors='replace'):
    if errors is None:
        errors = 'strict'
    bits = _ASCII_RE.split(string)
    out = [bits[0]]
    out.append('|')
    for i in range(1, len(bits), 2):
        if bits[i + 1]:
            out.append(bits[i + 1])
        out.append(u_plain(bits[i]).decode('utf8', errors))
        out.append(':')
    return ''.join(out)
''', {'string': 'Str'}, 'Str'),
    'q_empty': ('''
def q_empty(text, full_quote=True):
    out = []
    if full_quote:
        for b in normalize('NFC', to_unicode(text)).encode('utf8'):
            out.append(_PATH_PART_QUOTE_MAP[b])
    else:
        for t in text:
            if t in _PATH_DELIMS:
                out.append(_PATH_PART_QUOTE_MAP[t])
            else:
                out.append(t)
    return ''.join(out)
''', {'text': 'Str', 'full_quote': 'Bool'}, 'Str'),
    'u_rebind': ('''
def u_rebind(string, flag):
    bits = string.split('%')
    res = [bits[0]]
    add = res.append
    if flag:
        add('x')
        bits = bits[1:]
    else:
        add(string[:1])
    for item in bits:
        add(item[1:])
        if len(item) == 2:
            add('=')
    return ''.join(res)
''', {'string': 'Str', 'flag': 'Bool'}, 'Str'),
}

REJECT_HEAD = SNIPPET_HEAD + 'import boltons.urlutils as U\n'
REJECT_CONST = ('constant parameter whose default differs', 'def f(text, errors="strict"):\n    return text\n',
                {'text': 'Str'}, 'Str', {'errors': 'replace'})
REJECT = [
    ('map lookup with an unguarded character', 'def f(text):\n    return "".join([_PATH_PART_QUOTE_MAP[t] for t in text])\n',
     {'text': 'Str'}, 'Str'),
    ('map lookup guarded by the wrong variable',
     'def f(text):\n    return "".join([_PATH_PART_QUOTE_MAP[t] if u in _PATH_DELIMS else t for t in text for u in text])\n',
     {'text': 'Str'}, 'Str'),
    ('map lookup in the else branch of the guard',
     'def f(text):\n    return "".join([t if t in _PATH_DELIMS else _PATH_PART_QUOTE_MAP[t] for t in text])\n',
     {'text': 'Str'}, 'Str'),
    ('undeclared table', 'def f(text):\n    return "".join([U._PATH_PART_QUOTE_MAP[b] for b in text.encode("utf8")])\n',
     {'text': 'Str'}, 'Str'),
    ('table rebound in the function',
     'def f(text):\n    _PATH_PART_QUOTE_MAP = {}\n    return "".join([_PATH_PART_QUOTE_MAP[b] for b in text.encode("utf8")])\n',
     {'text': 'Str'}, 'Str'),
    ('normalize with another form', 'def f(text):\n    return normalize("NFKC", text)\n', {'text': 'Str'}, 'Str'),
    ('encode with another codec', 'def f(text):\n    return text.encode("latin-1")\n', {'text': 'Str'}, 'Bytes'),
    ('encode with an error handler', 'def f(text):\n    return text.encode("utf8", "replace")\n', {'text': 'Str'}, 'Bytes'),
    ('join with a non-empty separator', 'def f(text):\n    return ",".join([t for t in text])\n', {'text': 'Str'}, 'Str'),
    ('split with a two-character separator', 'def f(text):\n    return "".join(text.split("%%"))\n', {'text': 'Str'}, 'Str'),
    ('split without separator', 'def f(text):\n    return "".join(text.split())\n', {'text': 'Str'}, 'Str'),
    ('[0] of a list not known to be non-empty', 'def f(text):\n    l = [t for t in text]\n    return l[0]\n',
     {'text': 'Str'}, 'Str'),
    ('hex lookup outside try', 'def f(b):\n    return _HEX_CHAR_MAP[b.encode("utf8")]\n', {'b': 'Str'}, 'Bytes'),
    ('hex lookup not first in try',
     'def f(s):\n    res = [b""]\n    try:\n        res.append(b"x")\n        res.append(_HEX_CHAR_MAP[s.encode("utf8")])\n'
     '    except KeyError:\n        res.append(b"%")\n    return b"".join(res)\n', {'s': 'Str'}, 'Bytes'),
    ('broad handler',
     'def f(s):\n    res = [b""]\n    try:\n        res.append(_HEX_CHAR_MAP[s.encode("utf8")])\n'
     '    except Exception:\n        res.append(b"%")\n    return b"".join(res)\n', {'s': 'Str'}, 'Bytes'),
    ('return inside the loop', 'def f(text):\n    res = [""]\n    for t in text:\n        return t\n    return "".join(res)\n',
     {'text': 'Str'}, 'Str'),
    ('append alias passed on', 'def f(text):\n    res = [""]\n    a = res.append\n    b = a\n    return "".join(res)\n',
     {'text': 'Str'}, 'Str'),
    ('list rebound after the alias',
     'def f(text):\n    res = [""]\n    a = res.append\n    res = [text]\n    a(text)\n    return "".join(res)\n',
     {'text': 'Str'}, 'Str'),
    ('negative slice bound', 'def f(text):\n    return text[:-1]\n', {'text': 'Str'}, 'Str'),
    ('keyword-only parameter', 'def f(text, *, k=1):\n    return text\n', {'text': 'Str'}, 'Str'),
    ('path without return', 'def f(text):\n    if text:\n        return text\n', {'text': 'Str'}, 'Str'),
    ('regex compiled from another pattern',
     'R2 = re.compile("([a-z]+)")\ndef f(text):\n    bits = R2.split(text)\n    return bits[0]\n', {'text': 'Str'}, 'Str'),
    ('range with another step',
     'def f(text):\n    bits = _ASCII_RE.split(text)\n    res = [bits[0]]\n    for i in range(1, len(bits), 3):\n'
     '        res.append(bits[i])\n    return "".join(res)\n', {'text': 'Str'}, 'Str'),
    ('range over a list not known to have odd length',
     'def f(text):\n    bits = text.split("%")\n    res = [bits[0]]\n    for i in range(1, len(bits), 2):\n'
     '        res.append(bits[i])\n    return "".join(res)\n', {'text': 'Str'}, 'Str'),
    ('index i + 2 in the pair loop',
     'def f(text):\n    bits = _ASCII_RE.split(text)\n    res = [bits[0]]\n    for i in range(1, len(bits), 2):\n'
     '        res.append(bits[i + 2])\n    return "".join(res)\n', {'text': 'Str'}, 'Str'),
    ('decode with errors=strict', 'def f(text):\n    return text.encode("utf8").decode("utf-8", "strict")\n',
     {'text': 'Str'}, 'Str'),
    ('decode with one argument', 'def f(text):\n    return text.encode("utf8").decode("utf-8")\n', {'text': 'Str'}, 'Str'),
    ('loop that appends to the list it iterates',
     'def f(text):\n    res = [text]\n    for x in res:\n        res.append(x)\n    return "".join(res)\n',
     {'text': 'Str'}, 'Str'),
    ('[0] of a list rebound inside a loop',
     'def f(text):\n    bits = text.split("%")\n    res = [text]\n    for x in bits:\n        res = bits[5:]\n'
     '    return res[0]\n', {'text': 'Str'}, 'Str'),
    ('pair loop whose body appends to the walked list',
     'def f(text):\n    bits = _ASCII_RE.split(text)\n    add = bits.append\n    res = [bits[0]]\n'
     '    for i in range(1, len(bits), 2):\n        add(text)\n        res.append(bits[i])\n    return "".join(res)\n',
     {'text': 'Str'}, 'Str'),
    ('str and bytes appended to the same empty list',
     'def f(text):\n    out = []\n    out.append(text)\n    out.append(text.encode("utf8"))\n    return "".join(out)\n',
     {'text': 'Str'}, 'Str'),
    ('empty list that becomes a list of bytes joined as str',
     'def f(text):\n    out = []\n    for b in text.split("%"):\n        out.append(b.encode("utf8"))\n    return "".join(out)\n',
     {'text': 'Str'}, 'Str'),
    ('to_unicode of a bytes', 'def f(text):\n    return to_unicode(text.encode("utf8"))\n', {'text': 'Str'}, 'Str'),
]

_CFG = None


def _cfg():
    global _CFG
    if _CFG is None:
        _CFG = srctie_specs._C06_CFG
    return _CFG


def _spec(name, params, result, consts=None):
    return {'module': 'snippets', 'qualname': name, 'lean_name': name, 'params': params, 'result': result,
            'kind': 'function', 'tie_theorem': '-', 'c06': _cfg(), 'consts': consts or {}}


SNIPPET_CONSTS = {'u_runs': {'errors': 'replace'}}


def reject_tests(verbose=False):
    bad = []
    for what, src, params, result, *cs in REJECT + [REJECT_CONST]:
        text, infos = T.translate_source(REJECT_HEAD + src, [_spec('f', params, result, cs[0] if cs else None)],
                                         'snippets', 'snippets')
        if not infos[0].get('error'):
            bad.append((what, text))
        elif verbose:
            print('refused (%s): %s' % (what, infos[0]['error']))
    return bad


def op_tests(mod, texts):
    bad = []
    for s in texts:
        try:
            if mod.to_unicode(s) != s or type(mod.to_unicode(s)) is not str:
                bad.append(('to_unicode', repr(s)))
        except Exception as e:       # noqa: BLE001
            bad.append(('to_unicode', repr(s) + ' raised %r' % (e,)))
    return bad


def _texts(rng, quick):
    out = ['', '%', '%%', '%4', '%41', '%4g', '%g1', 'a%41', '%41%', '%4%41', '%%41', '%e9', '%E9%', '%c3%a9', 'a/b c?',
           '/?#[]@', ":@!$&'()*+,;=", 'é', 'Å', 'Å', 'ﬁ', '\U0001F600', '%F0%9F%98%80', '\x00\x7f\x80',
           '%4́', '%é', 'é%41', '%2', '%25', '%2%35', '%a', '%aA', '%Aa', '%fF', '%GG', '%  ', '% 4', '%+1', '%0x']
    stress = [0x41, 0x7f, 0x80, 0xbf, 0xc0, 0xc1, 0xc2, 0xdf, 0xe0, 0xa0, 0x9f, 0xed, 0xee, 0xef, 0xf0, 0x90, 0x8f, 0xf4,
              0xf5, 0xff, 0xe2, 0x82, 0xac]
    for _ in range(150 if quick else 1500):      # percent-encoded byte strings that stress the UTF-8 decoder
        k = rng.choice([1, 2, 3, 4, 5, 7])
        t = ''.join(rng.choice(['%%%02X', '%%%02x']) % rng.choice(stress) for _ in range(k))
        if rng.random() < 0.3:
            t = t[:rng.randrange(len(t) + 1)] + rng.choice(['é', 'a', '%', '€%']) + t
        out.append(t)
    n = 300 if quick else 3000
    for _ in range(n):
        k = rng.choice([0, 1, 2, 3, 4, 6, 9, 14])
        cps = [rng.choice(ALPHABET) for _ in range(k)]
        if rng.random() < 0.05 and cps:
            cps[rng.randrange(len(cps))] = rng.choice(SURROGATES)
        out.append(''.join(map(chr, cps)))
    return out


def _enc(cps):
    return [len(cps)] + list(cps)


_DRV_HEAD = r'''
def showNats (l : List Nat) : String := " ".intercalate (l.map toString)
def parseNats (s : String) : Option (List Nat) :=
  (s.trim.splitOn " ").filter (· ≠ "") |>.mapM String.toNat?
def takeN : List Nat → Option (List Nat × List Nat)
  | [] => none
  | n :: r => if r.length < n then none else some (r.take n, r.drop n)
'''
_DRV_TAIL = r'''
partial def loop (h : IO.FS.Stream) (out : IO.FS.Stream) : IO Unit := do
  let line ← h.getLine
  if line.isEmpty then return
  match parseNats line with
  | some l => out.putStrLn ("R " ++ handle l)
  | none => out.putStrLn "R bad-line"
  loop h out

def main : IO Unit := do
  loop (← IO.getStdin) (← IO.getStdout)
'''


def _arm(k, lean_def, spec, uses_nfc):
    """`k <nfc text> <arg>...` -> the result as a list of naturals"""
    pats, lets, args, rest = [], [], [], 'r0'
    body_open = '  | %d :: r =>\n    match takeN r with\n    | some (nf, r0) =>\n' % k
    depth = 3
    text = body_open
    for n, t in spec['params'].items():
        v = 'a_' + n
        if t == 'Bool':
            text += '  ' * depth + 'match %s with\n' % rest + '  ' * depth + '| %s :: %s_r =>\n' % (v, v)
            args.append('(%s != 0)' % v)
        else:
            text += '  ' * depth + 'match takeN %s with\n' % rest + '  ' * depth + '| some (%s, %s_r) =>\n' % (v, v)
            args.append(v)
        rest = v + '_r'
        depth += 1
    call = '%s %s%s' % (lean_def, '(fun _ => nf) ' if uses_nfc else '', ' '.join(args))
    text += '  ' * depth + 'showNats (%s)\n' % call
    for _ in spec['params']:
        depth -= 1
        text += '  ' * depth + ('| _ => "bad"\n')
    text += '    | none => "bad"\n'
    return text


def run(pids, quick=False, seed=0, verbose=True):
    """-> (number of mismatches, report dict); same contract as py2lean_selftest.run"""
    common.ensure_repo_on_path()
    t0 = time.time()
    specs = [sp for pid in pids for sp in srctie_specs.SPECS.get(pid, []) if sp.get('translator') == 'py2lean_c06']
    report = {'_mismatches': []}
    if not specs:
        return 0, report
    module_name = specs[0]['module']
    mod = importlib.import_module(module_name)
    gen_text, infos = T.translate_module(module_name, specs, common.REPO)
    for i in infos:
        if i.get('error'):
            raise common.InfraError('not translated: %s: %s' % (i['function'], i['error']))
    sn_specs = [_spec(n, p, r, SNIPPET_CONSTS.get(n)) for n, (_, p, r) in SNIPPETS.items()]
    sn_src = SNIPPET_HEAD + ''.join(s for s, _, _ in SNIPPETS.values())
    sn_text, sn_infos = T.translate_source(sn_src, sn_specs, 'snippets', 'snippets')
    for i in sn_infos:
        if i.get('error'):
            raise common.InfraError('snippet not translated: %s: %s' % (i['function'], i['error']))
    sn_mod = types.ModuleType('c06_snippets')
    exec(compile(sn_src, 'c06_snippets', 'exec'), sn_mod.__dict__)
    rng = random.Random('py2lean-c06-selftest-%d' % seed)
    texts = _texts(rng, quick)
    fns = [(sp, mod, 'Src.%s.%s' % (module_name.split('.')[-1], sp['lean_name']), i) for sp, i in zip(specs, infos)] + \
          [(sp, sn_mod, 'Src.snippets.%s' % sp['lean_name'], i) for sp, i in zip(sn_specs, sn_infos)]
    arms, lines, meta = [], [], []
    for k, (sp, pymod, lean_def, info) in enumerate(fns):
        uses_nfc = 'nfc' in (info.get('operations') or [])
        arms.append(_arm(k, lean_def, sp, uses_nfc))
        has_bool = [n for n, t in sp['params'].items() if t == 'Bool']
        for s in texts:
            for flags in ([()] if not has_bool else [(True,), (False,)]):
                fl = iter(flags)
                args = [next(fl) if t == 'Bool' else s for t in sp['params'].values()]
                nf = unicodedata.normalize('NFC', s)
                toks = [k] + _enc([ord(c) for c in nf])
                for a in args:
                    toks += [int(a)] if isinstance(a, bool) else _enc([ord(c) for c in a])
                lines.append(' '.join(map(str, toks)))
                meta.append((sp, pymod, args))
    tmp = tempfile.mkdtemp(prefix='py2lean-c06-selftest-')
    try:
        with common.BuildLock():
            rc, out = common._run(['lake', 'build', 'BoltonsVerif.PyRtC06'])
        if rc != 0:
            raise common.InfraError('cannot build BoltonsVerif.PyRtC06: ' + out[-500:])
        drv = os.path.join(tmp, 'C06SelfTest.lean')
        bodies = [t.split('import BoltonsVerif.PyRtC06\n', 1)[1] for t in (gen_text, sn_text)]
        with open(drv, 'w') as fh:
            fh.write('import BoltonsVerif.PyRtC06\n' + '\n'.join(bodies) + _DRV_HEAD
                     + '\ndef handle : List Nat → String\n' + ''.join(arms) + '  | _ => "bad"\n' + _DRV_TAIL)
        t1 = time.time()
        p = subprocess.run(['lake', 'env', 'lean', '--run', drv], cwd=common.LEAN, input='\n'.join(lines) + '\n',
                           stdout=subprocess.PIPE, stderr=subprocess.STDOUT, text=True, timeout=1800)
        t_lean = time.time() - t1
    finally:
        shutil.rmtree(tmp, ignore_errors=True)
    outs = [ln[2:] for ln in p.stdout.split('\n') if ln.startswith('R ')]
    if p.returncode != 0 or len(outs) != len(lines):
        raise common.InfraError('c06 scratch driver failed (rc %s, %d lines for %d inputs): %s' % (
            p.returncode, len(outs), len(lines), p.stdout[-1500:]))
    mismatches = []
    for (sp, pymod, args), got in zip(meta, outs):
        r = report.setdefault(sp['lean_name'], {'cases': 0, 'compared': 0, 'pre_false': 0, 'mismatches': 0})
        r['cases'] += 1
        if got.startswith('bad'):
            raise common.InfraError('driver rejected a line: %s for %r' % (got, args))
        try:
            with common.time_limit(20):
                want = getattr(pymod, sp['qualname'])(*args)
        except UnicodeEncodeError:
            if any(0xD800 <= ord(c) <= 0xDFFF for a in args if isinstance(a, str) for c in a):
                r['pre_false'] += 1      # outside the recorded precondition of `.encode`
                continue
            want = 'raised UnicodeEncodeError'
        except Exception as e:       # noqa: BLE001
            want = 'raised %s' % type(e).__name__
        r['compared'] += 1
        if isinstance(want, (str, bytes)):
            want_s = ' '.join(str(ord(c)) for c in want) if isinstance(want, str) else ' '.join(str(b) for b in want)
        else:
            want_s = str(want)
        if got.strip() != want_s:
            r['mismatches'] += 1
            mismatches.append((sp['lean_name'], repr(args), 'Python %r but Lean [%s]' % (want, got.strip())))
    rj = reject_tests(verbose=False)
    report['_reject_tests'] = {'snippets': len(REJECT) + 1, 'not_refused': [w for w, _ in rj]}
    for what, _ in rj:
        mismatches.append(('reject-test', what, 'snippet outside the subset was translated'))
    ob = op_tests(mod, texts)
    report['_op_tests'] = {'to_unicode': len(texts), 'failed': len(ob)}
    for what, case in ob[:5]:
        mismatches.append(('op-test', case, '%s is not the identity on a str' % what))
    report['_mismatches'] = [{'function': nm, 'case': c, 'what': b} for nm, c, b in mismatches[:5]]
    report['_wall_s'] = round(time.time() - t0, 2)
    report['_lean_s'] = round(t_lean, 2)
    if verbose:
        for name, r in report.items():
            print(name, r)
        for name, case, b in mismatches[:10]:
            print('MISMATCH %s %s: %s' % (name, case, b))
    return len(mismatches), report


if __name__ == '__main__':
    n, rep = run(['C06'], quick='--quick' in sys.argv, seed=0, verbose=True)
    sys.exit(1 if n else 0)
