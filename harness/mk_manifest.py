#!/usr/bin/env python3
"""Regenerate /verif/MANIFEST.json from the per-property metadata below (run by hand after adding a check)."""
import json
import os

VERIF = os.path.abspath(os.path.join(os.path.dirname(__file__), '..'))

# property id -> (technique, level text, level note, design ref)
CHECKS = {
 'C20': ('Lean 4 proof (Lossy-Counting invariant by induction over the addition stream) + model/impl correspondence',
         'Lean theorems over an executable model of ThresholdCounter: total, no over-count, under-count <= floor(total/w), heavy keys present, '
         'common+uncommon=total, view agreement, most_common sorted - for every stream (induction), kernel-checked. The size-bound clause is '
         'proved FALSE for the implemented algorithm (C20.size_bound_false, witness replayed on the real code every run; known finding). '
         'The model is tied to the code by a differential correspondence (exhaustive small streams + random mixed histories + adversarial streams).',
         'Trusted: Lean kernel; hand model of add/update/readers is validated, not verified, by the correspondence; w=floor(1/threshold) computed in floats by the harness.',
         '6 C20'),
}

PENDING_REASON = 'check under construction in this revision (model + proofs not committed yet); see DESIGN.md section 6'


def main():
    props = [json.loads(l) for l in open(os.path.join(VERIF, 'properties.jsonl'))]
    checks = []
    na = []
    for p in props:
        pid = p['id']
        if pid in CHECKS and os.path.exists(os.path.join(VERIF, 'harness', 'bv', 'props', pid.lower() + '.py')):
            tech, text, note, ref = CHECKS[pid]
            checks.append({
                'property_id': pid,
                'quick_cmd': './check %s quick' % pid,
                'thorough_cmd': './check %s thorough' % pid,
                'evidence_file': 'evidence/%s.json' % pid,
                'replay_cmd_template': './check %s --replay {path}' % pid,
                'engine': 'lean4-proof+correspondence',
                'level_claimed': {'category': 'proof', 'text': text, 'design_ref': 'DESIGN.md section ' + ref},
                'level_note': note,
                'technique': tech,
            })
        else:
            na.append({'property_id': pid, 'reason': NA.get(pid, PENDING_REASON)})
    m = {
        'version': 1,
        'setup_cmd': './setup.sh',
        'hooks': {
            'guard': 'BOLTONS_VERIF',
            'enable': 'no source hooks: the harness instruments boltons from outside (module attribute replacement at import time in the check process)',
            'baseline_off_cmd': 'cd /repo && /venv/bin/python -m pytest -ra -q -p no:cacheprovider --timeout=900 --continue-on-collection-errors',
            'source_commits': [],
            'add_only': True,
        },
        'engines': [{
            'name': 'lean4-proof+correspondence', 'path': 'lean/ + harness/bv/',
            'serves_properties': [c['property_id'] for c in checks],
            'kind_free_text': 'Lean 4 models + kernel-checked theorems (lake project lean/), translator-generated tables, compiled model drivers, '
                              'Python correspondence/oracle harness against /repo working tree',
        }],
        'checks': checks,
        'not_applicable': na,
        'notes': 'fix: commits in /repo and known findings are listed in known_findings.json; DESIGN.md explains approach, trusted base and limits.',
    }
    with open(os.path.join(VERIF, 'MANIFEST.json'), 'w') as f:
        json.dump(m, f, indent=1)
    print('MANIFEST.json: %d checks, %d not_applicable' % (len(checks), len(na)))


NA = {}

if __name__ == '__main__':
    main()
