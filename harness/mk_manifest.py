#!/usr/bin/env python3
"""Regenerate /verif/MANIFEST.json from the per-property metadata below (run by hand after adding a check)."""
import json
import os

VERIF = os.path.abspath(os.path.join(os.path.dirname(__file__), '..'))

def load_checks():
    """per-property manifest metadata lives next to the property module: harness/bv/props/cxx.meta.json
    {technique, level_text, level_note, design_ref[, category]}"""
    out = {}
    d = os.path.join(VERIF, 'harness', 'bv', 'props')
    for f in sorted(os.listdir(d)):
        if f.endswith('.meta.json'):
            out[f[:3].upper()] = json.load(open(os.path.join(d, f)))
    return out


CHECKS = load_checks()

PENDING_REASON = 'check under construction in this revision (model + proofs not committed yet); see DESIGN.md section 6'


def main():
    props = [json.loads(l) for l in open(os.path.join(VERIF, 'properties.jsonl'))]
    checks = []
    na = []
    for p in props:
        pid = p['id']
        if pid in CHECKS and os.path.exists(os.path.join(VERIF, 'harness', 'bv', 'props', pid.lower() + '.py')):
            md = CHECKS[pid]
            tech, text, note, ref = md['technique'], md['level_text'], md['level_note'], md['design_ref']
            # the source-translator tie (DESIGN.md section 3.4) is part of the deciding method wherever it exists
            try:
                import srctie_specs
                from bv import common as _c
                nfun = len(srctie_specs.SPECS.get(pid, []))
                nthm = len(_c._srctie_theorems(pid)[1])
            except Exception:
                nfun = nthm = 0
            if nfun and nthm and 'source-translator tie' not in tech:
                tech += (' + source-translator tie: %d functions / methods of the anchored code are translated from the Python '
                         'source into Lean on every run (harness/py2lean*.py, validated against CPython each run) and proved equal to / '
                         'simulated by the model (%d theorems in lean/BoltonsVerif/%s/SrcTie.lean, DESIGN.md section 3.4)' % (nfun, nthm, pid))
            checks.append({
                'property_id': pid,
                'quick_cmd': './check %s quick' % pid,
                'thorough_cmd': './check %s thorough' % pid,
                'evidence_file': 'evidence/%s.json' % pid,
                'replay_cmd_template': './check %s --replay {path}' % pid,
                'engine': 'lean4-proof+correspondence',
                'level_claimed': {'category': md.get('category', 'proof'), 'text': text, 'design_ref': 'DESIGN.md section ' + ref},
                'level_note': note,
                'technique': tech,
            })
        else:
            na.append({'property_id': pid, 'reason': NA.get(pid, PENDING_REASON)})
    m = {
        'version': 1,
        'setup_cmd': './setup.sh',
        'hooks': {
            'guard': 'BOLTONS_VERIF',
            'enable': 'no source hooks: the harness instruments boltons from outside (module attribute replacement at import time in the check process)',
            'baseline_off_cmd': 'cd /repo && /venv/bin/python -m pytest -ra -q -p no:cacheprovider --timeout=900 --continue-on-collection-errors',
            'source_commits': [],
            'add_only': True,
        },
        'engines': [{
            'name': 'lean4-proof+correspondence', 'path': 'lean/ + harness/bv/',
            'serves_properties': [c['property_id'] for c in checks],
            'kind_free_text': 'Lean 4 models + kernel-checked theorems (lake project lean/), translator-generated tables, compiled model drivers, '
                              'Python correspondence/oracle harness against /repo working tree',
        }],
        'checks': checks,
        'not_applicable': na,
        'notes': 'fix: commits in /repo and known findings are listed in known_findings.json; DESIGN.md explains approach, trusted base and limits.',
    }
    with open(os.path.join(VERIF, 'MANIFEST.json'), 'w') as f:
        json.dump(m, f, indent=1)
    allf = []
    kd = os.path.join(VERIF, 'known_findings')
    for f in sorted(os.listdir(kd)):
        if f.endswith('.json'):
            allf.extend(json.load(open(os.path.join(kd, f)))['findings'])
    with open(os.path.join(VERIF, 'known_findings.json'), 'w') as f:
        json.dump({'_comment': 'assembled from known_findings/<id>.json by harness/mk_manifest.py; committed, never written '
                               'at run time. status=known: recorded genuine defect (matched by predicate, witness replayed every run); '
                               'status=fixed: repaired by a fix: commit in /repo, suppresses nothing.',
                   'findings': allf}, f, indent=1)
    print('MANIFEST.json: %d checks, %d not_applicable' % (len(checks), len(na)))


NA = {}

if __name__ == '__main__':
    main()
