"""Self-test of the class-level pre-pass (harness/py2lean_clsprep.py): CPython against CPython, no Lean involved.

(i)  every rewrite C1-C8 applied to a synthetic class: the rewritten method is compiled, put on a copy of the
     class and compared with the original on random object states and arguments (result or exception CLASS, and
     the object state after the call);
(ii) methods that violate one side condition each must be left alone by that rewrite.
Run: /venv/bin/python harness/py2lean_clsprep_selftest.py   (exit 0 = ok)
"""
from __future__ import annotations

import ast
import copy
import os
import random
import sys

sys.path.insert(0, os.path.dirname(os.path.abspath(__file__)))
import py2lean_clsprep as cp  # noqa: E402

SRC = '''
from operator import itemgetter


class Box:
    def __init__(self):
        self.d = {}
        self.n = 1
        self.peer = self

    # ---- C1: alias of an attribute, mutated through the alias
    def c1_bump(self, k):
        d = self.d
        if k in d:
            d[k][0] += 1
        else:
            d[k] = [1, self.n]
        return len(d)

    # C1 with a rebinding AFTER the last read of the alias
    def c1_rebind_late(self, k):
        d = self.d
        out = [x for x in d]
        self.d = {k: [0, 0]}
        return out

    # ---- C2: bound method
    def c2_many(self, ks):
        bump = self.c1_bump
        r = 0
        for k in ks:
            r += bump(k)
        return r

    # ---- C3: item alias, get form and subscript form
    def c3_get(self, k, by):
        e = self.d.get(k)
        if e is None:
            self.d[k] = [by, self.n - 1]
        else:
            e[0] += by
        self.n += 1

    def c3_item(self, k):
        e = self.d[k]
        e[1] += 1
        if e[1] > 2:
            del self.d[k]
        return self.n

    def c3_read(self, k, dflt):
        e = self.d.get(k)
        if e is None:
            return dflt
        return e[0]

    # ---- C4 + C6: a dict built by a loop, stored at once
    def c4_compact(self):
        lim = self.n
        keep = {}
        for k, v in self.d.items():
            a, b = v
            if a + b > lim:
                keep[k] = v
        self.d = keep
        self.n = lim + 1

    # ---- C5 / C8
    def counts(self):
        for v in self.d.values():
            yield v[0]

    def c8_sum(self):
        return sum(self.counts())

    def c5_top(self):
        return sorted(((k, v[0]) for k, v in self.d.items()), key=itemgetter(1), reverse=True)

    # ---- C7: loop over a display of names, `continue` at the top of the body, the ** parameter is never None
    def c7_both(self, first=None, **kw):
        r = 0
        for src in (first, kw):
            if src is None:
                continue
            for k in src:
                r += self.c1_bump(k)
        return r

    # ================= must be left alone
    def x7_break(self, a, b):                   # C7: `break` leaves the loop over the display
        r = 0
        for src in (a, b):
            if src is None:
                break
            r += len(src)
        return r

    def x7_used_after(self, a, b):              # C7: the loop variable is read after the loop
        for src in (a, b):
            pass
        return src

    def x1_rebind_then_read(self, k):          # C1: the attribute is rebound, the alias read afterwards
        d = self.d
        self.d = {}
        return len(d)

    def x1_twice(self, k):                      # C1: alias bound twice
        d = self.d
        d = {}
        return len(d)

    def x2_undominated(self, ks):               # C2: a call not dominated by the binding
        if ks:
            bump = self.c1_bump
        return bump(0)

    def x3_store_between(self, k):              # C3: the dict is restructured between binding and use
        e = self.d.get(k)
        self.d[k] = [5, 5]
        if e is not None:
            e[0] += 1

    def x3_unguarded(self, k):                  # C3: `e[0]` where `e` may be None (TypeError, not KeyError)
        e = self.d.get(k)
        return e[0]

    def x3_call_between(self, k):               # C3: a method of the object runs between binding and use
        e = self.d.get(k)
        self.c4_compact()
        if e is not None:
            e[0] += 1

    def x4_acc_in_iter(self):                   # C4: the accumulator is read by the loop's iterable
        keep = {}
        for k in list(self.d) + list(keep):
            keep[k] = 1
        return keep

    def x4_var_used_after(self):                # C4: a loop variable is read after the loop
        keep = {}
        for k, v in self.d.items():
            keep[k] = v
        return k
'''

CLS = {'name': 'Box', 'lean_name': 'Box', 'tparams': ['κ'], 'deceq': ['κ'],
       'state': {'d': 'Dict κ (Int × Int)', 'n': 'Int'}, 'helpers': True, 'clsprep': True, 'methods': [],
       'peer': None}

EXPECT = {
    'c1_bump': 'C1 alias d', 'c1_rebind_late': 'C1 alias d', 'c2_many': 'C2 bound method bump',
    'c3_get': 'C3 item alias e', 'c3_item': 'C3 item alias e', 'c3_read': 'C3 item alias e',
    'c4_compact': 'C4 dict built by a loop', 'c7_both': 'C7 loop over the display', 'c8_sum': 'C8 generator method counts', 'c5_top': 'C5 itemgetter(1)',
}
REFUSE = {
    'x1_rebind_then_read': 'C1', 'x1_twice': 'C1', 'x2_undominated': 'C2', 'x3_store_between': 'C3',
    'x3_unguarded': 'C3', 'x7_break': 'C7', 'x7_used_after': 'C7', 'x3_call_between': 'C3', 'x4_acc_in_iter': 'C4', 'x4_var_used_after': 'C4',
}
KEYS = ['a', 'b', 'c', 'd']


def _args(name, rng):
    k = rng.choice(KEYS)
    return {'c1_bump': (k,), 'c1_rebind_late': (k,), 'c2_many': ([rng.choice(KEYS) for _ in range(rng.randint(0, 4))],),
            'c3_get': (k, rng.randint(1, 3)), 'c3_item': (k,), 'c3_read': (k, rng.randint(-2, 2)),
            'c4_compact': (), 'c8_sum': (), 'c5_top': (),
            'c7_both': (rng.choice([None, [k], [k, rng.choice(KEYS)]]),)}[name]


def _state(rng):
    return ({k: [rng.randint(0, 4), rng.randint(0, 3)] for k in rng.sample(KEYS, rng.randint(0, 4))}, rng.randint(0, 4))


def _run(cls, name, st, args):
    o = cls()
    o.d = {k: list(v) for k, v in st[0].items()}
    o.n = st[1]
    kw = {k: 1 for k in KEYS[:st[1] % 3]} if name == 'c7_both' else {}
    try:
        r = getattr(o, name)(*args, **kw)
        if hasattr(r, '__next__'):
            r = list(r)
        res = ('ok', r)
    except Exception as e:  # noqa: BLE001
        res = ('exc', type(e).__name__)
    return res, list(o.d.items()), o.n


def main():
    tree = ast.parse(SRC)
    ns = {}
    exec(compile(tree, '<clsprep-selftest>', 'exec'), ns)
    orig = ns['Box']
    cdef = [n for n in tree.body if isinstance(n, ast.ClassDef)][0]
    methods = {n.name: n for n in cdef.body if isinstance(n, ast.FunctionDef)}
    bad = 0
    new_methods = {}
    for name, tag in EXPECT.items():
        info = {}
        new = cp.run(methods[name], tree, {'cls': CLS}, info)
        notes = info.get('clsprep') or []
        if not any(n.startswith(tag) for n in notes):
            print('FAIL %s: expected %r, got %r %s' % (name, tag, notes, info.get('clsprep_error', '')))
            bad += 1
            continue
        mod = ast.Module(body=[copy.deepcopy(new)], type_ignores=[])
        ast.fix_missing_locations(mod)
        loc = {}
        exec(compile(mod, '<rewritten %s>' % name, 'exec'), ns, loc)
        new_methods[name] = loc[name]
    patched = type('BoxRewritten', (orig,), dict(new_methods))
    rng = random.Random(20260930)
    cases = 0
    for name in new_methods:
        for _ in range(400):
            st, args = _state(rng), _args(name, rng)
            a, b = _run(orig, name, st, copy.deepcopy(args)), _run(patched, name, st, copy.deepcopy(args))
            cases += 1
            if a != b:
                print('MISMATCH %s state %r args %r: original %r, rewritten %r' % (name, st, args, a, b))
                bad += 1
                break
    for name, tag in REFUSE.items():
        info = {}
        cp.run(methods[name], tree, {'cls': CLS}, info)
        notes = info.get('clsprep') or []
        if any(n.startswith(tag) for n in notes):
            print('FAIL %s: %s must not apply, got %r' % (name, tag, notes))
            bad += 1
    print('clsprep self-test: %d rewrites compared on %d cases, %d refusals checked, %d problems'
          % (len(new_methods), cases, len(REFUSE), bad))
    return 1 if bad else 0


if __name__ == '__main__':
    sys.exit(main())
