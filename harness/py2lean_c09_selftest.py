"""Self-test of harness/py2lean_c09.py: CPython (the real boltons functions of THIS run's repo, called with objects of the
declared kinds) vs the generated Lean definitions (item type α := Int, `None` item := a sentinel int), run through a
scratch driver with `lake env lean --run`.  Format of the result: py2lean_selftest.run.

usage:  PYTHONPATH=harness /venv/bin/python harness/py2lean_c09_selftest.py [--quick] [--seed N]
"""
import ast
import importlib
import os
import random
import shutil
import subprocess
import sys
import tempfile
import time

NONE_ITEM = -999983          # the Lean instance `PyNone Int`
FUEL_SHORT = 10**9           # marks "fuel = number of items + 1" in a case


def _items(rng, n=None, hi=4):
    n = rng.choice([0, 0, 1, 2, 3, 4, 5, 6, 7, 9, 12]) if n is None else n
    return [rng.randint(0, hi) for _ in range(n)]


def _canon(v):
    """a Python result as nested lists / tuples of ints (None item -> the sentinel; dict -> list of items, in order)"""
    if v is None:
        return NONE_ITEM
    if isinstance(v, bool):
        return int(v)
    if isinstance(v, int):
        return v
    if isinstance(v, dict):
        return [(_canon(k), _canon(x)) for k, x in v.items()]
    if isinstance(v, tuple):
        return tuple(_canon(x) for x in v)
    if isinstance(v, list):
        return [_canon(x) for x in v]
    raise TypeError('result of type %s' % type(v).__name__)


# ---- per generated definition: Lean decoder of a token list, case generator, CPython runner -------------------------
# key function of the tests: k(x) = x % 3 (callable), value transform x -> x + 10, key filter k -> k != 1
LEAN_HEAD = '''
instance : PyRtC09.PyNone Int := ⟨-999983⟩
def encL (l : List Int) : String := "[" ++ ",".intercalate (l.map toString) ++ "]"
def encLL (l : List (List Int)) : String := "[" ++ ",".intercalate (l.map encL) ++ "]"
def encD (l : List (Int × List Int)) : String :=
  "[" ++ ",".intercalate (l.map (fun e => "(" ++ toString e.1 ++ "," ++ encL e.2 ++ ")")) ++ "]"
def encE : PyRtC09.Err → String
  | .valueError => "ValueError" | .typeError => "TypeError" | .keyError => "KeyError" | .outOfFuel => "outOfFuel"
def encR {β : Type} (f : β → String) : Except PyRtC09.Err β → String
  | .ok v => "ok " ++ f v
  | .error e => "err " ++ encE e
def optOf (has v : Int) : Option Int := if has = 1 then some v else none
def kf3 (x : Int) : Int := x % 3
'''

DRIVERS = {
    'validate_positive_int': '''
  | [v, s] => encR toString (validate_positive_int v (s == 1))''',
    'chunked_iter': '''
  | size :: has :: fill :: fuel :: xs => encR encLL (chunked_iter xs size (optOf has fill) fuel.toNat)''',
    'chunked_nocount': '''
  | size :: has :: fill :: fuel :: xs => encR encLL (chunked_nocount xs size (optOf has fill) fuel.toNat)''',
    'unique_list': '''
  | xs => encR encL (unique_list xs kf3)''',
    'unique_list_nokey': '''
  | xs => encR encL (unique_list_nokey xs)''',
    'split_func': '''
  | has :: ms :: xs => encR encLL (split_func xs (fun x => x % 3 == 0) (optOf has ms))''',
    'split_value': '''
  | sep :: has :: ms :: xs => encR encLL (split_value (fun a b => a == b) xs sep (optOf has ms))''',
    'split_none': '''
  | has :: ms :: xs => encR encLL (split_none (fun x => x == -999983) xs (optOf has ms))''',
    'lstrip_iter': '''
  | v :: xs => encR encL (lstrip_iter (fun a b => a == b) xs v)''',
    'lstrip_list': '''
  | v :: xs => encR encL (lstrip_list (fun a b => a == b) xs v)''',
    'unique_iter': '''
  | xs => encR encL (unique_iter xs kf3)''',
    'unique_iter_nokey': '''
  | xs => encR encL (unique_iter_nokey xs)''',
    'bucketize': '''
  | xs => encR encD (bucketize xs kf3 (fun x => x + 10) (fun k => k != 1))''',
    'bucketize_plain': '''
  | xs => encR encD (bucketize_plain xs kf3)''',
    'partition': '''
  | t :: f :: xs => encR (fun (p : List Int × List Int) => "(" ++ encL p.1 ++ "," ++ encL p.2 ++ ")") (partition t f xs (fun x => x % 2))''',
    'split_iter_func': '''
  | has :: ms :: xs => encR encLL (split_iter_func xs (fun x => x % 3 == 0) (optOf has ms))''',
    'split_iter_value': '''
  | sep :: has :: ms :: xs => encR encLL (split_iter_value (fun a b => a == b) xs sep (optOf has ms))''',
    'split_iter_none': '''
  | has :: ms :: xs => encR encLL (split_iter_none (fun x => x == -999983) xs (optOf has ms))''',
}


ALIAS = {'chunked_nocount': 'chunked_iter', 'unique_list': 'unique_iter', 'unique_list_nokey': 'unique_iter_nokey',
         'split_func': 'split_iter_func', 'split_value': 'split_iter_value', 'split_none': 'split_iter_none'}


def _cases(name, rng, quick):
    n = 150 if quick else 2500
    if name in ALIAS:
        return _cases(ALIAS[name], rng, quick)[:(60 if quick else 1000)]
    out = []
    if name == 'validate_positive_int':
        for v in range(-3, 6):
            for s in (0, 1):
                out.append([v, s])
    elif name == 'chunked_iter':
        for _ in range(n):
            xs = _items(rng)
            size = rng.choice([-2, -1, 0, 1, 1, 2, 2, 3, 3, 4, 5, 7, len(xs), len(xs) + 1])
            has = rng.randint(0, 1)
            fill = rng.choice([NONE_ITEM, 7, 0])
            fuel = rng.choice([FUEL_SHORT, len(xs) + 1, len(xs) + 5])
            out.append([size, has, fill, fuel] + xs)
    elif name in ('unique_iter', 'unique_iter_nokey', 'bucketize', 'bucketize_plain'):
        for _ in range(n):
            out.append(_items(rng, hi=rng.choice([2, 5, 9])))
    elif name in ('lstrip_iter', 'lstrip_list'):
        for _ in range(n):
            out.append([rng.randint(0, 2)] + _items(rng, hi=rng.choice([1, 2])))
    elif name == 'partition':
        for _ in range(n):
            out.append([1, 0] + _items(rng, hi=9))
    elif name in ('split_iter_func', 'split_iter_none'):
        for _ in range(n):
            has = rng.randint(0, 1)
            xs = _items(rng, hi=rng.choice([1, 3, 5]))
            if name == 'split_iter_none':
                xs = [NONE_ITEM if x == 0 else x for x in xs]
            out.append([has, rng.choice([-1, 0, 0, 1, 2, 3, 5]) if has else 0] + xs)
    elif name == 'split_iter_value':
        for _ in range(n):
            has = rng.randint(0, 1)
            out.append([rng.randint(0, 2), has, rng.choice([-1, 0, 0, 1, 2, 3, 5]) if has else 0]
                       + _items(rng, hi=rng.choice([1, 2, 4])))
    else:
        raise KeyError(name)
    return out


class _Obj:
    """an item of kind 'value' for `sep`: a non-iterable, non-callable object that is == to the int it wraps"""
    def __init__(self, v):
        self.v = v

    def __eq__(self, other):
        return self.v == (other.v if isinstance(other, _Obj) else other)

    def __hash__(self):
        return hash(self.v)


def _py(name, mod, toks):
    it = lambda v: None if v == NONE_ITEM else v
    if name == 'validate_positive_int':
        return mod._validate_positive_int(toks[0], 'x', bool(toks[1]))
    if name == 'chunked_iter':
        size, has, fill, fuel = toks[:4]
        xs = [it(x) for x in toks[4:]]
        return list(mod.chunked_iter(xs, size, **({'fill': it(fill)} if has else {})))
    if name == 'chunked_nocount':
        size, has, fill, fuel = toks[:4]
        return mod.chunked([it(x) for x in toks[4:]], size, None, **({'fill': it(fill)} if has else {}))
    if name == 'lstrip_iter':
        return list(mod.lstrip_iter(list(toks[1:]), _Obj(toks[0])))
    if name == 'lstrip_list':
        return mod.lstrip(list(toks[1:]), _Obj(toks[0]))
    if name == 'unique_list':
        return mod.unique(list(toks), lambda x: x % 3)
    if name == 'unique_list_nokey':
        return mod.unique(list(toks), None)
    if name == 'split_func':
        return mod.split(list(toks[2:]), lambda x: x % 3 == 0, toks[1] if toks[0] else None)
    if name == 'split_none':
        return mod.split([it(x) for x in toks[2:]], None, toks[1] if toks[0] else None)
    if name == 'split_value':
        return mod.split(list(toks[3:]), _Obj(toks[0]), toks[2] if toks[1] else None)
    if name == 'unique_iter':
        return list(mod.unique_iter(list(toks), lambda x: x % 3))
    if name == 'unique_iter_nokey':
        return list(mod.unique_iter(list(toks), None))
    if name == 'bucketize':
        return mod.bucketize(list(toks), lambda x: x % 3, lambda x: x + 10, lambda k: k != 1)
    if name == 'bucketize_plain':
        return mod.bucketize(list(toks), lambda x: x % 3, None, None)
    if name == 'partition':
        return mod.partition(list(toks[2:]), lambda x: x % 2)
    ms = lambda has, m: (m if has else None)
    if name == 'split_iter_func':
        return list(mod.split_iter(list(toks[2:]), lambda x: x % 3 == 0, ms(toks[0], toks[1])))
    if name == 'split_iter_none':
        return list(mod.split_iter([it(x) for x in toks[2:]], None, ms(toks[0], toks[1])))
    if name == 'split_iter_value':
        return list(mod.split_iter(list(toks[3:]), _Obj(toks[0]), ms(toks[1], toks[2])))
    raise KeyError(name)


def _lean_tokens(name, toks):
    """the token list the Lean side gets (fuel marker resolved; `None` item of split_iter_none = the sentinel)"""
    if name in ('chunked_iter', 'chunked_nocount') and toks[3] == FUEL_SHORT:
        return toks[:3] + [len(toks) - 4 + 1] + toks[4:]
    return toks


def run(pids, quick=False, seed=0, verbose=True):
    import srctie_specs
    import py2lean
    import py2lean_selftest
    from bv import common
    common.ensure_repo_on_path()
    t0 = time.time()
    n_all, rep_all = 0, {'_mismatches': []}
    saved = {}
    try:        # the specs of these properties that the BASE translator handles are validated by the base self-test
        for pid in pids:
            saved[pid] = srctie_specs.SPECS[pid]
            srctie_specs.SPECS[pid] = [sp for sp in saved[pid] if not sp.get('translator')]
        base = [pid for pid in pids if srctie_specs.SPECS[pid]]
        if base:
            n_all, rep_all = py2lean_selftest.run(base, quick=quick, seed=seed, verbose=verbose)
    finally:
        for pid, v in saved.items():
            srctie_specs.SPECS[pid] = v
    specs = [sp for pid in pids for sp in srctie_specs.SPECS.get(pid, []) if sp.get('translator') == 'py2lean_c09']
    if not specs:
        return n_all, rep_all
    import py2lean_c09
    text, infos = py2lean_c09.translate_module(specs[0]['module'], specs, common.REPO)
    live = [sp for sp, i in zip(specs, infos) if not i.get('error')]
    mod = importlib.import_module(specs[0]['module'])
    rng = random.Random('py2lean-c09-selftest-%d' % seed)
    lines, meta = [], []
    arms = []
    for n, sp in enumerate(live):
        name = sp['lean_name']
        arms.append('def run%d : List Int → String%s\n%s' % (
            n, DRIVERS[name], '' if DRIVERS[name].strip().startswith('| xs =>') else '  | _ => "bad"\n'))
        for toks in _cases(name, rng, quick):
            lines.append(' '.join(map(str, [n] + _lean_tokens(name, toks))))
            meta.append((name, toks))
    body = text.split('-/', 1)[1]                    # the generated definitions of THIS run, inlined
    drv = body + '\nopen Src.iterutils\n' + LEAN_HEAD + '\n'.join(arms) + '''
def dispatch : List Int → String
  | [] => "bad"
  | n :: xs => %s "bad"

partial def loop (h : IO.FS.Stream) : IO Unit := do
  let line ← h.getLine
  if line.isEmpty then return
  let xs := (line.trim.splitOn " ").filterMap String.toInt?
  IO.println ("R " ++ dispatch xs)
  loop h

def main : IO Unit := do loop (← IO.getStdin)
''' % ' '.join('if n = %d then run%d xs else' % (n, n) for n in range(len(live)))
    tmp = tempfile.mkdtemp(prefix='py2lean-c09-selftest-')
    try:
        path = os.path.join(tmp, 'SrcSelfTestC09.lean')
        with open(path, 'w') as fh:
            fh.write(drv)
        with common.BuildLock():
            rc, out = common._run(['lake', 'build', 'BoltonsVerif.PyRtC09'])
        if rc != 0:
            raise common.InfraError('cannot build BoltonsVerif.PyRtC09: ' + out[-500:])
        t1 = time.time()
        p = subprocess.run(['lake', 'env', 'lean', '--run', path], cwd=common.LEAN, input='\n'.join(lines) + '\n',
                           stdout=subprocess.PIPE, stderr=subprocess.STDOUT, text=True, timeout=1800)
        t_lean = time.time() - t1
    finally:
        shutil.rmtree(tmp, ignore_errors=True)
    outs = [ln[2:] for ln in p.stdout.split('\n') if ln.startswith('R ')]
    if p.returncode != 0 or len(outs) != len(lines):
        raise common.InfraError('C09 scratch driver failed (rc %s, %d lines for %d inputs): %s' % (
            p.returncode, len(outs), len(lines), p.stdout[-1500:]))
    mism = []
    for (name, toks), got in zip(meta, outs):
        r = rep_all.setdefault(name, {'cases': 0, 'compared': 0, 'pre_false': 0, 'python_raises': 0, 'mismatches': 0})
        r['cases'] += 1
        try:
            want = 'ok ' + repr(_canon(_py(name, mod, toks))).replace(' ', '')
        except (ValueError, TypeError, KeyError) as e:
            want = 'err ' + type(e).__name__
            r['python_raises'] += 1
        r['compared'] += 1
        g = got
        if g.startswith('ok '):
            g = 'ok ' + repr(ast.literal_eval(g[3:])).replace(' ', '')
        if g != want:
            r['mismatches'] += 1
            mism.append({'function': name, 'case': toks, 'python': want, 'lean': got})
    for sp, i in zip(specs, infos):
        if i.get('error'):
            rep_all[sp['lean_name']] = {'cases': 0, 'not_translated': i['error']}
    rep_all['_mismatches'] = rep_all.get('_mismatches', []) + mism
    rep_all['_c09'] = {'wall_s': round(time.time() - t0, 2), 'lean_s': round(t_lean, 2), 'cases': len(lines)}
    if verbose:
        for sp in live:
            print('%-24s %s' % (sp['lean_name'], rep_all[sp['lean_name']]))
        for m in mism[:10]:
            print('MISMATCH', m)
    return n_all + len(mism), rep_all


if __name__ == '__main__':
    sys.path.insert(0, os.path.dirname(os.path.abspath(__file__)))
    a = sys.argv[1:]
    sd = int(a[a.index('--seed') + 1]) if '--seed' in a else 0
    n, rep = run(['C09'], quick='--quick' in a, seed=sd)
    print('py2lean_c09 selftest: %s (%s)' % ('ok' if n == 0 else '%d MISMATCHES' % n, rep.get('_c09')))
    sys.exit(1 if n else 0)
