"""py2lean_clsprep - class-level robustness layer of the SrcTie translator (round 3b).

Used only for classes whose spec asks for it (`role_probe`, `helpers`, `clsprep` keys of the class description in
harness/srctie_specs.py); for every other spec nothing here runs and the generated text is unchanged.  Trusted
together with py2lean.py / py2lean_prepass.py (specification: this docstring and notes/SRCTIE.md section 2b);
validated on every run by the translator self-test, which compares the generated definitions (after these
rewrites) with the real CPython methods, object state included.

1. ROLES (`resolve_roles`).  The spec declares the object state by ROLE (the record fields keep the role's name,
   so generated text does not depend on the attribute names of the source).  Which Python attribute plays which
   role is found by EVALUATING the real class: the spec lists a few probe objects (constructor arguments + calls)
   and, per role, the values the attribute must have in those objects.  An attribute of the real object whose
   values match is the role's attribute; a role no attribute (or more than one) matches keeps its declared name
   (the translator then refuses methods that use an undeclared attribute, as before).  A wrong map cannot go
   unnoticed: the self-test builds the objects through the same map and compares the state after every call.

2. CLASS PRE-PASS (`run`), purely syntactic rewrites of one method, each skipped when a side condition fails:
   C1 attribute alias     top-level `x = self.<path>` (also inside `a, b = self.p, self.q.r`), `<path>` a declared
                          state attribute / mapped path / the peer object; `x` bound exactly once; every other
                          occurrence of `x` is a read textually after the binding; the method (and, transitively,
                          the methods of the class it calls on `self`) never REBINDS that attribute (`self.<path> =
                          ...`, `del self.<path>`) -- item updates are fine: the alias and the attribute are one
                          object  ->  binding removed, `x` -> `self.<path>`.  When the attribute IS rebound, the
                          rewrite still applies if no read of `x` comes textually after the first rebinding
                          statement and neither sits in a loop (the alias then always named the live object).
   C2 bound self method   top-level (or branch-level) `f = self.m`, `f` bound only by such statements with the same
                          `m`, every other occurrence a call `f(...)`  ->  `self.m(...)`  (`m` a plain method
                          defined in the class body, not rebound on the instance: class bodies do not assign
                          `self.m`, checked).
   C3 item alias          `e = self.<A>.get(K)` / `e = self.<A>[K]` at statement level, `K` a name; `e` bound exactly
                          once; `self.<A>` a declared dict; on every path from the binding to a use of `e`, nothing
                          rebinds `K`, rebinds `self.<A>`, stores / deletes an item of `self.<A>` or calls a method
                          on `self` (a conservative flow walk over if / try / for)  ->  `e` -> `self.<A>[K]`,
                          `e is None` -> `K not in self.<A>`, `e is not None` -> `K in self.<A>` (dict values of the
                          declared type are never None); the binding becomes `self.<A>[K]` as an expression
                          statement when it was the subscript form (it may raise KeyError), and is dropped for
                          `.get`.
   C4 dict built by a loop  `acc = {}` immediately followed by `for PAT in IT: [T...] if C: acc[K] = V` (or the
                          unconditional store), `T...` = simple assignments `t = <expr>` / `a, b = <loop variable of
                          declared n-tuple type>`; `acc`, the loop variables and the temporaries are not used
                          elsewhere except `acc` after the loop; no name of the loop occurs in IT
                          ->  `acc = {K: V for PAT in IT if C}` with the temporaries substituted.
   C6 single-use temporary  `x = E` immediately followed by `self.<path> = x`, `x` bound once and read nowhere else
                          ->  `self.<path> = E`.
   C8 generator helper      `self.g()` with `g` an undeclared plain method whose whole body is `for PAT in IT: [if C:]
                          yield E` over pure expressions  ->  the generator expression `(E for PAT in IT [if C])`.
   C7 loop over a display   `for X in (E1, ..., En): BODY` (names, n <= 4, no `else`/`break`; `continue` only as top-level
                          `if C: continue`; `X` used only inside) -> BODY[X := E1]; ...; BODY[X := En], then
                          `K is None` folded to False for the `**K` parameter (always a dict) and constant `if`s removed.
   C5 `operator.itemgetter(i)` as a sort key (name imported from `operator` at module level, never rebound),
                          `i` a constant  ->  `lambda x: x[i]`; `operator.index(e)` -> `e` when `e` is an `Int`-typed
                          loop variable is NOT done (no types here).
"""
from __future__ import annotations

import ast
import copy


# ------------------------------------------------------------------------------------------------ roles

def _norm(v):
    if isinstance(v, (list, tuple)):
        return [_norm(x) for x in v]
    if isinstance(v, dict):
        return {'__dict__': [[_norm(k), _norm(x)] for k, x in v.items()]}
    if isinstance(v, (set, frozenset)):
        return {'__set__': sorted(repr(_norm(x)) for x in v)}
    return v


def resolve_roles(cls: dict, pycls) -> dict:
    """-> {declared attribute: actual attribute of the class under test}; identity where nothing is inferred"""
    probe = cls.get('role_probe')
    out = {a: a for a in cls['state']}
    if not probe:
        return out
    try:
        objs = []
        for kwargs, calls in probe['objects']:
            o = pycls(**kwargs)
            for name, *args in calls:
                getattr(o, name)(*args)
            objs.append(o)
        names = None
        for o in objs:
            ks = set(vars(o))
            names = ks if names is None else names & ks
        taken = set()
        cands = {}
        for role, sig in probe['signature'].items():
            if role in probe.get('fixed', ()):
                out[role] = role
                taken.add(role)
                continue
            cands[role] = [a for a in sorted(names or ())
                           if all(type(getattr(o, a)) is type(s) or isinstance(s, (list, tuple, dict))
                                  for o, s in zip(objs, sig))
                           and [_norm(getattr(o, a)) for o in objs] == [_norm(s) for s in sig]]
        for role, cs in cands.items():
            cs = [c for c in cs if c not in taken]
            if role in cs:
                out[role] = role
            elif len(cs) == 1:
                out[role] = cs[0]
            # else: ambiguous / missing -> the declared name
        if len(set(out.values())) != len(out):
            return {a: a for a in cls['state']}
    except Exception:      # noqa: BLE001 - a class that cannot be probed keeps the declared names
        return {a: a for a in cls['state']}
    return out


# ------------------------------------------------------------------------------------------------ class pre-pass

class _Refuse(Exception):
    pass


def _pos(n):
    return (n.lineno, n.col_offset)


def _path_of(node, self_name):
    """`self.a.b` -> 'a.b' (None when not an attribute path rooted at self)"""
    parts = []
    while isinstance(node, ast.Attribute):
        parts.append(node.attr)
        node = node.value
    if isinstance(node, ast.Name) and node.id == self_name and parts:
        return '.'.join(reversed(parts))
    return None


def _class_def(tree, name):
    cdef = None
    for n in tree.body:
        if isinstance(n, ast.ClassDef) and n.name == name:
            cdef = n
    return cdef


def plain_method(tree, clsname, name):
    """the undecorated `def name` of the class body (the last one), or None"""
    cdef = _class_def(tree, clsname)
    if cdef is None:
        return None
    out = None
    for n in cdef.body:
        if isinstance(n, ast.FunctionDef) and n.name == name:
            out = n
        elif isinstance(n, ast.Assign) and any(isinstance(t, ast.Name) and t.id == name for t in n.targets):
            out = None
    if out is None or out.decorator_list:
        return None
    return out


def _state_paths(cls):
    """attribute paths (as written in the source) that denote object state / the peer object"""
    actual = cls.get('_actual') or {}
    paths = {}
    for a in cls['state']:
        if a not in cls.get('virtual', ()):
            paths[actual.get(a, a)] = 'state'
    for p in cls.get('paths', {}):
        paths[p] = 'state'
    if cls.get('peer'):
        paths[cls['peer']['attr']] = 'peer'
    return paths


def _rebinds(fdef, cls, tree, seen=()):
    """attribute paths of `self` that the method (or a method of the class it calls on self / the peer) REBINDS
    as a whole: {path: first position in THIS method}"""
    self_name = fdef.args.args[0].arg
    out = {}

    def note(path, node):
        if path is not None and (path not in out or _pos(node) < out[path]):
            out[path] = _pos(node)
    peer = (cls.get('peer') or {}).get('attr')
    for n in ast.walk(fdef):
        tg = []
        if isinstance(n, ast.Assign):
            tg = n.targets
        elif isinstance(n, (ast.AugAssign, ast.AnnAssign, ast.For)):
            tg = [n.target]
        elif isinstance(n, ast.Delete):
            tg = n.targets
        elif isinstance(n, (ast.With,)):
            tg = [i.optional_vars for i in n.items if i.optional_vars is not None]
        for t in tg:
            for e in ast.walk(t):
                if isinstance(e, ast.Attribute) and isinstance(e.ctx, (ast.Store, ast.Del)):
                    note(_path_of(e, self_name), n)
        if isinstance(n, ast.Call) and isinstance(n.func, ast.Attribute):
            recv = n.func.value
            is_self = isinstance(recv, ast.Name) and recv.id == self_name
            is_peer = peer is not None and _path_of(recv, self_name) == peer
            if is_self or is_peer:
                m = plain_method(tree, cls['name'], n.func.attr)
                if m is None:
                    if n.func.attr in ('setattr', '__setattr__', '__init__'):
                        note('*', n)
                    continue
                if m.name in seen:
                    continue
                for p in _rebinds(m, cls, tree, seen + (m.name,)):
                    note('*' if is_peer else p, n)       # seen from the peer the paths are exchanged: any
            if isinstance(recv, ast.Name) and recv.id in ('setattr', 'object'):
                note('*', n)
        if isinstance(n, ast.Call) and isinstance(n.func, ast.Name) and n.func.id in ('setattr', 'delattr', 'vars'):
            note('*', n)
    return out


def _loops_containing(fdef):
    """[(loop node, set of ids of nodes inside its body/orelse/iter)]"""
    out = []
    for n in ast.walk(fdef):
        if isinstance(n, (ast.For, ast.While)):
            inside = set()
            for part in n.body + n.orelse:
                for e in ast.walk(part):
                    inside.add(id(e))
            out.append((n, inside))
    return out


def _c1_attr_aliases(fdef, cls, tree, notes):
    self_name = fdef.args.args[0].arg
    paths = _state_paths(cls)
    stores = {}
    for n in ast.walk(fdef):
        if isinstance(n, ast.Name) and isinstance(n.ctx, (ast.Store, ast.Del)):
            stores[n.id] = stores.get(n.id, 0) + 1
    params = {a.arg for a in fdef.args.args} | ({fdef.args.kwarg.arg} if fdef.args.kwarg else set())
    aliases, new_body = {}, []
    for st in fdef.body:
        pairs = None
        if isinstance(st, ast.Assign) and len(st.targets) == 1:
            tgt, val = st.targets[0], st.value
            if isinstance(tgt, ast.Name):
                pairs = [(tgt, val)]
            elif isinstance(tgt, (ast.Tuple, ast.List)) and isinstance(val, (ast.Tuple, ast.List)) \
                    and len(tgt.elts) == len(val.elts):
                pairs = list(zip(tgt.elts, val.elts))
        if not pairs:
            new_body.append(st)
            continue
        keep = []
        for tgt, val in pairs:
            p = _path_of(val, self_name) if isinstance(val, ast.Attribute) else None
            if isinstance(tgt, ast.Name) and p in paths and stores.get(tgt.id) == 1 and tgt.id not in params \
                    and tgt.id not in aliases:
                aliases[tgt.id] = (val, _pos(st), p)
            else:
                keep.append((tgt, val))
        if len(keep) == len(pairs):
            new_body.append(st)
        elif keep:
            # the other pairs of a tuple assignment stay; their right-hand sides must not read an alias bound in
            # the same statement (all right-hand sides are evaluated first: they could not)
            new = ast.Assign(targets=[keep[0][0]], value=keep[0][1]) if len(keep) == 1 else \
                ast.Assign(targets=[ast.Tuple(elts=[k[0] for k in keep], ctx=ast.Store())],
                           value=ast.Tuple(elts=[k[1] for k in keep], ctx=ast.Load()))
            new_body.append(ast.copy_location(new, st))
    if not aliases:
        return
    body_mod = ast.Module(body=new_body, type_ignores=[])
    reb = _rebinds(fdef, cls, tree)
    loops = _loops_containing(fdef)
    for n in ast.walk(body_mod):
        if isinstance(n, ast.Name) and n.id in aliases:
            val, bpos, p = aliases[n.id]
            if not isinstance(n.ctx, ast.Load) or _pos(n) <= bpos:
                raise _Refuse()
            # a rebinding of the aliased attribute (or of an unknown one): reads must all come textually before it,
            # and no loop may contain both a read and the rebinding
            rpos = [reb[q] for q in reb if q == '*' or q == p or p.startswith(q + '.') or q.startswith(p + '.')]
            if rpos:
                first = min(rpos)
                if _pos(n) >= first:
                    raise _Refuse()
                for loop, inside in loops:
                    if id(n) in inside and (loop.lineno, loop.col_offset) <= first <= (
                            loop.end_lineno, loop.end_col_offset):
                        raise _Refuse()
    for n in ast.walk(fdef):
        if isinstance(n, (ast.Lambda, ast.FunctionDef)) and n is not fdef:
            for e in ast.walk(n):
                if isinstance(e, ast.Name) and e.id in aliases:
                    raise _Refuse()         # captured by a closure: evaluated later

    class Sub(ast.NodeTransformer):
        def visit_Name(self, n):
            if n.id in aliases and isinstance(n.ctx, ast.Load):
                return ast.copy_location(copy.deepcopy(aliases[n.id][0]), n)
            return n
    fdef.body = [Sub().visit(st) for st in new_body] or [ast.copy_location(ast.Pass(), fdef)]
    for a, (_, _, p) in sorted(aliases.items()):
        notes.add('C1 alias %s = self.%s' % (a, p))


def _c2_bound_methods(fdef, cls, tree, notes):
    self_name = fdef.args.args[0].arg
    params = {a.arg for a in fdef.args.args}
    cdef = _class_def(tree, cls['name'])
    bind_stmts = {}          # name -> set of method names it is bound to
    for n in ast.walk(fdef):
        if isinstance(n, ast.Assign) and len(n.targets) == 1 and isinstance(n.targets[0], ast.Name) \
                and isinstance(n.value, ast.Attribute) and isinstance(n.value.value, ast.Name) \
                and n.value.value.id == self_name:
            bind_stmts.setdefault(n.targets[0].id, []).append(n)
    cands = {}
    for name, sts in bind_stmts.items():
        ms = {s.value.attr for s in sts}
        if len(ms) != 1 or name in params:
            continue
        m = ms.pop()
        if plain_method(tree, cls['name'], m) is None:
            continue
        # the class never stores an instance attribute of that name (`self.m = ...` anywhere in the class body)
        if any(isinstance(e, ast.Attribute) and e.attr == m and isinstance(e.ctx, (ast.Store, ast.Del))
               for e in ast.walk(cdef)):
            continue
        n_store = sum(1 for e in ast.walk(fdef) if isinstance(e, ast.Name) and e.id == name
                      and isinstance(e.ctx, (ast.Store, ast.Del)))
        if n_store != len(sts):
            continue
        cands[name] = (m, {id(s) for s in sts})
    if not cands:
        return
    for name, (m, sids) in list(cands.items()):
        call_funcs = {id(n.func) for n in ast.walk(fdef) if isinstance(n, ast.Call) and isinstance(n.func, ast.Name)
                      and n.func.id == name}
        ok = all(id(n) in call_funcs or isinstance(n.ctx, ast.Store) for n in ast.walk(fdef)
                 if isinstance(n, ast.Name) and n.id == name)

        def dominated(stmts, bound):
            """every call of `name` is preceded by a binding in the same or an enclosing statement list"""
            for st in stmts:
                if id(st) in sids:
                    bound = True
                    continue
                heads = [st]
                blocks = []
                if isinstance(st, (ast.If, ast.For, ast.While, ast.Try, ast.With)):
                    heads = [getattr(st, 'test', None), getattr(st, 'iter', None)]
                    blocks = [getattr(st, f, []) for f in ('body', 'orelse', 'finalbody')]
                    blocks += [h.body for h in getattr(st, 'handlers', [])]
                for h in heads:
                    if h is None:
                        continue
                    for e in ast.walk(h):
                        if isinstance(e, ast.Name) and e.id == name and isinstance(e.ctx, ast.Load) and not bound:
                            return False
                for b in blocks:
                    if not dominated(b, bound):
                        return False
            return True
        if not ok or not dominated(fdef.body, False):
            del cands[name]
    if not cands:
        return

    class Sub(ast.NodeTransformer):
        def visit_Assign(self, n):
            for name, (m, sids) in cands.items():
                if id(n) in sids:
                    return ast.copy_location(ast.Pass(), n)
            return self.generic_visit(n)

        def visit_Call(self, n):
            self.generic_visit(n)
            if isinstance(n.func, ast.Name) and n.func.id in cands:
                f = ast.Attribute(value=ast.copy_location(ast.Name(id=self_name, ctx=ast.Load()), n.func),
                                  attr=cands[n.func.id][0], ctx=ast.Load())
                n.func = ast.copy_location(f, n.func)
            return n
    fdef.body = [Sub().visit(st) for st in fdef.body]
    for name, (m, _) in sorted(cands.items()):
        notes.add('C2 bound method %s = self.%s' % (name, m))


def _terminates(stmts):
    if not stmts:
        return False
    last = stmts[-1]
    if isinstance(last, (ast.Return, ast.Raise, ast.Break, ast.Continue)):
        return True
    if isinstance(last, ast.If):
        return _terminates(last.body) and _terminates(last.orelse)
    return False


def _c3_item_aliases(fdef, cls, tree, notes):
    self_name = fdef.args.args[0].arg
    paths = _state_paths(cls)
    actual = cls.get('_actual') or {}
    dict_paths = set()
    for a, t in cls['state'].items():
        if t.strip().startswith('Dict'):
            for p, kind in paths.items():
                if kind == 'state' and (p == actual.get(a, a) or cls.get('paths', {}).get(p) == a):
                    dict_paths.add(p)
    stores = {}
    for n in ast.walk(fdef):
        if isinstance(n, ast.Name) and isinstance(n.ctx, (ast.Store, ast.Del)):
            stores[n.id] = stores.get(n.id, 0) + 1
    params = {a.arg for a in fdef.args.args}
    for bind in [n for n in ast.walk(fdef) if isinstance(n, ast.Assign)]:
        if not (len(bind.targets) == 1 and isinstance(bind.targets[0], ast.Name)):
            continue
        e = bind.targets[0].id
        v = bind.value
        form = None
        if isinstance(v, ast.Call) and isinstance(v.func, ast.Attribute) and v.func.attr == 'get' \
                and len(v.args) == 1 and not v.keywords and isinstance(v.args[0], ast.Name):
            form, base, key = 'get', v.func.value, v.args[0].id
        elif isinstance(v, ast.Subscript) and isinstance(v.slice, ast.Name):
            form, base, key = 'item', v.value, v.slice.id
        if form is None or _path_of(base, self_name) not in dict_paths:
            continue
        if stores.get(e) != 1 or e in params or e == key or key == self_name:
            continue
        path = _path_of(base, self_name)
        try:
            _c3_one(fdef, bind, e, form, base, key, path, self_name, cls, notes)
        except _Refuse:
            continue


def _c3_one(fdef, bind, e, form, base, key, path, self_name, cls, notes):
    peer = (cls.get('peer') or {}).get('attr')

    def uses(node):
        return [n for n in ast.walk(node) if isinstance(n, ast.Name) and n.id == e and n is not bind.targets[0]]

    def none_test(test):
        """`e is None` -> True, `e is not None` -> False, else None"""
        if isinstance(test, ast.Compare) and len(test.ops) == 1 and isinstance(test.left, ast.Name) \
                and test.left.id == e and isinstance(test.comparators[0], ast.Constant) \
                and test.comparators[0].value is None:
            if isinstance(test.ops[0], ast.Is):
                return True
            if isinstance(test.ops[0], ast.IsNot):
                return False
        return None

    allowed = set()          # ids of Name nodes whose use is of a supported form

    def classify(root):
        """mark the supported uses inside `root`: `e is [not] None`, `e[...]`, bare reads (item form only)"""
        for n in ast.walk(root):
            if none_test(n) is not None:
                allowed.add(('test', id(n.left)))
            if isinstance(n, ast.Subscript) and isinstance(n.value, ast.Name) and n.value.id == e:
                allowed.add(('sub', id(n.value)))
            if isinstance(n, ast.Attribute) and isinstance(n.value, ast.Name) and n.value.id == e:
                allowed.add(('sub', id(n.value)))        # e.add(x) / e.remove(x): a use of the object itself

    classify(fdef)

    def check_uses(node, live, nonnull):
        for u in uses(node):
            if not live:
                raise _Refuse()
            if ('test', id(u)) in allowed:
                continue
            if not isinstance(u.ctx, ast.Load):
                raise _Refuse()
            if form == 'get' and not (nonnull and ('sub', id(u)) in allowed):
                raise _Refuse()
            if form == 'item' and not nonnull:
                raise _Refuse()

    def kills(st):
        """does the simple statement (possibly) change which object `self.<path>[key]` is?"""
        for n in ast.walk(st):
            if isinstance(n, ast.Name) and n.id == key and isinstance(n.ctx, (ast.Store, ast.Del)):
                return True
            if isinstance(n, (ast.Subscript, ast.Attribute)) and isinstance(n.ctx, (ast.Store, ast.Del)):
                # a store rooted at self: through `e` itself it mutates the entry, anything else may restructure
                root = n
                while isinstance(root, (ast.Subscript, ast.Attribute)):
                    root = root.value
                if isinstance(root, ast.Name) and root.id == self_name:
                    p = n.value if isinstance(n, ast.Subscript) else n
                    # self.<path>[K2] = ... / del self.<path>[K2] / self.<path> = ...
                    q = _path_of(p, self_name) if isinstance(p, ast.Attribute) else None
                    if isinstance(n, ast.Attribute):
                        q = _path_of(n, self_name)
                    if q is None or q == path or path.startswith(q + '.') or q.startswith(path + '.') or q == peer:
                        # deeper stores (`self.<path>[k][0] = ..`) keep the entry objects: only direct items kill
                        if isinstance(n, ast.Subscript) and isinstance(n.value, ast.Subscript):
                            continue
                        return True
            if isinstance(n, ast.Call) and isinstance(n.func, ast.Attribute):
                recv = n.func.value
                if isinstance(recv, ast.Name) and recv.id in (self_name, 'dict'):
                    return True                          # a method of the object / dict.<m>(self, ...)
                rp = _path_of(recv, self_name)
                if rp is not None and (rp == peer or n.func.attr in (
                        'pop', 'popitem', 'clear', 'update', 'setdefault', '__setitem__', '__delitem__')):
                    if rp == peer or rp == path or path.startswith(rp + '.'):
                        return True
            if isinstance(n, ast.Call) and isinstance(n.func, ast.Name) and n.func.id in (
                    'setattr', 'delattr', 'exec', 'eval'):
                return True
        return False

    def merge(a, b):
        return (a[0] and b[0], a[1] and b[1])

    def walk(stmts, state):
        """state = (live, nonnull); returns the state at the end of the list"""
        for st in stmts:
            live, nonnull = state
            if st is bind:
                state = (True, form == 'item')
                continue
            if isinstance(st, ast.If):
                check_uses(st.test, live, nonnull)
                t = none_test(st.test)
                sb = (live, False if t is True else (True if t is False else nonnull))
                so = (live, True if t is True else (False if t is False else nonnull))
                if form == 'item':
                    sb, so = (live, nonnull), (live, nonnull)
                rb, ro = walk(st.body, sb), walk(st.orelse, so)
                tb, to = _terminates(st.body), _terminates(st.orelse)
                if tb and to:
                    state = (live, nonnull)
                elif tb:
                    state = ro
                elif to:
                    state = rb
                else:
                    state = merge(rb, ro)
                    if t is not None and form == 'get':
                        state = (state[0], nonnull and state[1])
            elif isinstance(st, (ast.For, ast.While)):
                head = st.iter if isinstance(st, ast.For) else st.test
                check_uses(head, live, nonnull)
                if isinstance(st, ast.For):
                    for n in ast.walk(st.target):
                        if isinstance(n, ast.Name) and n.id in (key, e):
                            raise _Refuse()
                r1 = walk(st.body, state)
                m = merge(state, r1)
                if m != state:
                    walk(st.body, m)                   # a second iteration starts after the first one's effects
                if isinstance(st, ast.While):
                    check_uses(st.test, m[0], m[1])
                state = merge(m, walk(st.orelse, m))
            elif isinstance(st, ast.Try):
                if st.finalbody:
                    raise _Refuse()
                rb = walk(st.body, state)
                killed = any(kills(s) for s in ast.walk(ast.Module(body=st.body, type_ignores=[]))
                             if isinstance(s, ast.stmt))
                hs = (state[0] and not killed, state[1])
                res = walk(st.orelse, rb)
                for h in st.handlers:
                    res = merge(res, walk(h.body, hs))
                state = res
            elif isinstance(st, (ast.Assign, ast.AugAssign, ast.Delete, ast.Expr, ast.Return, ast.Raise, ast.Pass,
                                 ast.Break, ast.Continue)):
                check_uses(st, live, nonnull)
                if kills(st):
                    state = (False, state[1])
            else:
                raise _Refuse()
        return state

    walk(fdef.body, (False, False))
    # all uses are justified: rewrite
    key_name = lambda ctx_node: ast.copy_location(ast.Name(id=key, ctx=ast.Load()), ctx_node)  # noqa: E731

    def item(ctx_node, ctx):
        return ast.copy_location(ast.Subscript(value=copy.deepcopy(base), slice=key_name(ctx_node), ctx=ctx), ctx_node)

    class Sub(ast.NodeTransformer):
        def visit_Compare(self, n):
            t = none_test(n)
            if t is not None:
                op = ast.NotIn() if t else ast.In()
                return ast.copy_location(ast.Compare(left=key_name(n), ops=[op],
                                                     comparators=[copy.deepcopy(base)]), n)
            return self.generic_visit(n)

        def visit_Name(self, n):
            if n.id == e and isinstance(n.ctx, ast.Load):
                return item(n, ast.Load())
            return n

        def visit_Assign(self, n):
            if n is bind:
                if form == 'item':
                    return ast.copy_location(ast.Expr(value=item(n, ast.Load())), n)
                return ast.copy_location(ast.Pass(), n)
            return self.generic_visit(n)
    fdef.body = [Sub().visit(st) for st in fdef.body]
    notes.add('C3 item alias %s = self.%s[%s]' % (e, path, key))


_PURE_NODES = (ast.Name, ast.Constant, ast.Subscript, ast.BinOp, ast.Compare, ast.BoolOp, ast.UnaryOp, ast.Tuple,
               ast.List, ast.Load, ast.operator, ast.cmpop, ast.boolop, ast.unaryop, ast.Attribute, ast.IfExp,
               ast.expr_context)


def _pure(node):
    return all(isinstance(n, _PURE_NODES) for n in ast.walk(node))


def _c4_dict_loops(fdef, cls, notes):
    import py2lean
    self_name = fdef.args.args[0].arg
    actual = cls.get('_actual') or {}
    back = {v: k for k, v in actual.items()}

    def value_arity(it, pat):
        """{loop variable: n} for loop variables known to be n-tuples (values of a declared dict of products)"""
        out = {}
        if isinstance(it, ast.Call) and isinstance(it.func, ast.Attribute) and not it.args and not it.keywords \
                and it.func.attr in ('items', 'values'):
            p = _path_of(it.func.value, self_name)
            a = cls.get('paths', {}).get(p, back.get(p, p) if p else None)
            if a in cls['state']:
                t = py2lean.parse_type(cls['state'][a])
                if t[0] == 'Dict' and t[2] is not None and t[2][0] == 'Prod':
                    v = None
                    if it.func.attr == 'values' and isinstance(pat, ast.Name):
                        v = pat
                    if it.func.attr == 'items' and isinstance(pat, ast.Tuple) and len(pat.elts) == 2 \
                            and isinstance(pat.elts[1], ast.Name):
                        v = pat.elts[1]
                    if v is not None:
                        out[v.id] = len(t[2][1])
        return out

    def names_in(node, ctxs=(ast.Load, ast.Store, ast.Del)):
        return {n.id for n in ast.walk(node) if isinstance(n, ast.Name) and isinstance(n.ctx, ctxs)}

    def try_pair(init, loop):
        if not (isinstance(init, ast.Assign) and len(init.targets) == 1 and isinstance(init.targets[0], ast.Name)
                and isinstance(init.value, ast.Dict) and not init.value.keys):
            return None
        acc = init.targets[0].id
        if not isinstance(loop, ast.For) or loop.orelse or not loop.body:
            return None
        *temps, last = loop.body
        cond = None
        if isinstance(last, ast.If) and not last.orelse and len(last.body) == 1:
            cond, last = last.test, last.body[0]
        if not (isinstance(last, ast.Assign) and len(last.targets) == 1 and isinstance(last.targets[0], ast.Subscript)
                and isinstance(last.targets[0].value, ast.Name) and last.targets[0].value.id == acc
                and not isinstance(last.targets[0].slice, ast.Slice)):
            return None
        kx, vx = last.targets[0].slice, last.value
        pat_names = names_in(loop.target)
        arity = value_arity(loop.iter, loop.target)
        subst = {}
        for t in temps:
            if not (isinstance(t, ast.Assign) and len(t.targets) == 1):
                return None
            tg, val = t.targets[0], t.value
            val = _Subst(subst).visit(copy.deepcopy(val))
            if isinstance(tg, ast.Name) and _pure(val):
                new = {tg.id: val}
            elif isinstance(tg, ast.Tuple) and all(isinstance(x, ast.Name) for x in tg.elts) \
                    and isinstance(t.value, ast.Name) and arity.get(t.value.id) == len(tg.elts):
                new = {x.id: ast.Subscript(value=ast.Name(id=t.value.id, ctx=ast.Load()),
                                           slice=ast.Constant(value=i), ctx=ast.Load())
                       for i, x in enumerate(tg.elts)}
            else:
                return None
            for nm in new:
                if nm in subst or nm in pat_names or nm == acc:
                    return None
            subst.update(new)
        loop_names = pat_names | set(subst)
        parts = [p for p in (cond, kx, vx) if p is not None]
        if not all(_pure(p) for p in parts) or not _pure(loop.iter.func.value if isinstance(loop.iter, ast.Call)
                                                         and isinstance(loop.iter.func, ast.Attribute)
                                                         and not loop.iter.args else loop.iter):
            return None
        if acc in names_in(loop.iter) or any(acc in names_in(p) for p in parts) or loop_names & names_in(loop.iter):
            return None
        # the loop variables / temporaries live only inside the loop; `acc` is stored only by the two statements
        inside = {id(n) for n in ast.walk(loop)} | {id(n) for n in ast.walk(init)}
        for n in ast.walk(fdef):
            if isinstance(n, ast.Name) and id(n) not in inside:
                if n.id in loop_names:
                    return None
                if n.id == acc and not isinstance(n.ctx, ast.Load):
                    return None
            if isinstance(n, ast.arg) and (n.arg in loop_names or n.arg == acc):
                return None
        sub = _Subst(subst)
        comp = ast.DictComp(key=sub.visit(copy.deepcopy(kx)), value=sub.visit(copy.deepcopy(vx)),
                            generators=[ast.comprehension(target=copy.deepcopy(loop.target), iter=loop.iter,
                                                          ifs=[sub.visit(copy.deepcopy(cond))] if cond is not None
                                                          else [], is_async=0)])
        new = ast.Assign(targets=[ast.Name(id=acc, ctx=ast.Store())], value=comp)
        ast.copy_location(new, init)
        for n in ast.walk(new):
            if not hasattr(n, 'lineno'):
                ast.copy_location(n, init)
        notes.add('C4 dict built by a loop -> comprehension (%s)' % acc)
        return new

    def rewrite(stmts):
        out, i = [], 0
        while i < len(stmts):
            st = stmts[i]
            if i + 1 < len(stmts):
                new = try_pair(st, stmts[i + 1])
                if new is not None:
                    out.append(new)
                    i += 2
                    continue
            for f in ('body', 'orelse', 'finalbody'):
                if isinstance(getattr(st, f, None), list) and getattr(st, f) and isinstance(getattr(st, f)[0], ast.stmt):
                    setattr(st, f, rewrite(getattr(st, f)))
            for h in getattr(st, 'handlers', []) or []:
                h.body = rewrite(h.body)
            out.append(st)
            i += 1
        return out
    fdef.body = rewrite(fdef.body)


def _c6_single_use_temps(fdef, cls, notes):
    """`x = E` immediately followed by `self.<path> = x`, `x` bound once and read nowhere else -> `self.<path> = E`"""
    self_name = fdef.args.args[0].arg
    count = {}
    for n in ast.walk(fdef):
        if isinstance(n, ast.Name):
            c = count.setdefault(n.id, [0, 0])
            c[0 if isinstance(n.ctx, ast.Load) else 1] += 1
    params = {a.arg for a in fdef.args.args}

    def rewrite(stmts):
        out, i = [], 0
        while i < len(stmts):
            st = stmts[i]
            nx = stmts[i + 1] if i + 1 < len(stmts) else None
            if (isinstance(st, ast.Assign) and len(st.targets) == 1 and isinstance(st.targets[0], ast.Name)
                    and isinstance(nx, ast.Assign) and len(nx.targets) == 1
                    and isinstance(nx.targets[0], ast.Attribute) and _path_of(nx.targets[0], self_name) is not None
                    and isinstance(nx.value, ast.Name) and nx.value.id == st.targets[0].id
                    and count.get(st.targets[0].id) == [1, 1] and st.targets[0].id not in params):
                out.append(ast.copy_location(ast.Assign(targets=nx.targets, value=st.value), nx))
                notes.add('C6 temporary %s stored at once' % st.targets[0].id)
                i += 2
                continue
            for f in ('body', 'orelse', 'finalbody'):
                if isinstance(getattr(st, f, None), list) and getattr(st, f) and isinstance(getattr(st, f)[0], ast.stmt):
                    setattr(st, f, rewrite(getattr(st, f)))
            for h in getattr(st, 'handlers', []) or []:
                h.body = rewrite(h.body)
            out.append(st)
            i += 1
        return out
    fdef.body = rewrite(fdef.body)


class _Subst(ast.NodeTransformer):
    def __init__(self, m):
        self.m = m

    def visit_Name(self, n):
        if n.id in self.m and isinstance(n.ctx, ast.Load):
            return ast.copy_location(copy.deepcopy(self.m[n.id]), n)
        return n


def _c5_itemgetter(fdef, tree, notes):
    """`key=itemgetter(<int const>)` -> `key=lambda _ig: _ig[<const>]` when `itemgetter` is the module-level import
    from `operator` and nothing else binds the name"""
    imported = False
    for st in tree.body:
        if isinstance(st, ast.ImportFrom) and st.module == 'operator' and st.level == 0:
            for a in st.names:
                if a.name == 'itemgetter' and (a.asname in (None, 'itemgetter')):
                    imported = True
    if not imported:
        return
    binds = 0
    for n in ast.walk(tree):
        if isinstance(n, ast.Name) and n.id == 'itemgetter' and isinstance(n.ctx, (ast.Store, ast.Del)):
            binds += 1
        if isinstance(n, (ast.FunctionDef, ast.ClassDef)) and n.name == 'itemgetter':
            binds += 1
        if isinstance(n, ast.arg) and n.arg == 'itemgetter':
            binds += 1
        if isinstance(n, (ast.Global, ast.Nonlocal)) and 'itemgetter' in n.names:
            binds += 1
    if binds or any(isinstance(n, ast.Name) and n.id == '_ig' for n in ast.walk(fdef)):
        return
    for n in ast.walk(fdef):
        if isinstance(n, ast.Call):
            for kw in n.keywords:
                v = kw.value
                if kw.arg == 'key' and isinstance(v, ast.Call) and isinstance(v.func, ast.Name) \
                        and v.func.id == 'itemgetter' and len(v.args) == 1 and not v.keywords \
                        and isinstance(v.args[0], ast.Constant) and isinstance(v.args[0].value, int) \
                        and not isinstance(v.args[0].value, bool):
                    lam = ast.Lambda(
                        args=ast.arguments(posonlyargs=[], args=[ast.arg(arg='_ig')], kwonlyargs=[], kw_defaults=[],
                                           defaults=[]),
                        body=ast.Subscript(value=ast.Name(id='_ig', ctx=ast.Load()),
                                           slice=ast.Constant(value=v.args[0].value), ctx=ast.Load()))
                    for e in ast.walk(lam):
                        ast.copy_location(e, v)
                    kw.value = lam
                    notes.add('C5 itemgetter(%d) as a lambda' % v.args[0].value)


def _c8_generator_helpers(fdef, cls, tree, notes):
    """`self.g()` where `g` is a plain method of the class whose whole body is `for PAT in IT: [if C:] yield E`
    (IT, C, E pure expressions over `self` and the loop variables) -> the generator expression
    `(E for PAT in IT [if C])` with the loop variables renamed apart.  The call creates a generator object that
    yields exactly these values when consumed; the translator accepts it only where it is consumed at once."""
    self_name = fdef.args.args[0].arg
    caller_names = {n.id for n in ast.walk(fdef) if isinstance(n, ast.Name)} | {a.arg for a in fdef.args.args}
    counter = [0]

    class Tr(ast.NodeTransformer):
        def visit_Call(self, n):
            self.generic_visit(n)
            if not (isinstance(n.func, ast.Attribute) and isinstance(n.func.value, ast.Name)
                    and n.func.value.id == self_name and not n.args and not n.keywords):
                return n
            if any(sp['py'] == n.func.attr for sp in cls.get('methods', [])):
                return n                                  # a declared method keeps its own definition
            g = plain_method(tree, cls['name'], n.func.attr)
            if g is None or len(g.args.args) != 1 or g.args.vararg or g.args.kwarg or g.args.kwonlyargs:
                return n
            body = list(g.body)
            if body and isinstance(body[0], ast.Expr) and isinstance(body[0].value, ast.Constant) \
                    and isinstance(body[0].value.value, str):
                body = body[1:]
            if len(body) != 1 or not isinstance(body[0], ast.For) or body[0].orelse or len(body[0].body) != 1:
                return n
            loop = body[0]
            inner, cond = loop.body[0], None
            if isinstance(inner, ast.If) and not inner.orelse and len(inner.body) == 1:
                cond, inner = inner.test, inner.body[0]
            if not (isinstance(inner, ast.Expr) and isinstance(inner.value, ast.Yield) and inner.value.value is not None):
                return n
            elt = inner.value.value
            it = loop.iter
            it_core = it.func.value if (isinstance(it, ast.Call) and isinstance(it.func, ast.Attribute)
                                        and not it.args and not it.keywords
                                        and it.func.attr in ('items', 'keys', 'values')) else it
            if not _pure(it_core) or not _pure(elt) or (cond is not None and not _pure(cond)):
                return n
            gself = g.args.args[0].arg
            pat_names = {x.id for x in ast.walk(loop.target) if isinstance(x, ast.Name)}
            free = set()
            for part in [p for p in (it, elt, cond) if p is not None]:
                free |= {x.id for x in ast.walk(part) if isinstance(x, ast.Name)}
            if (free - pat_names) - {gself} or gself in pat_names:
                return n                                  # a global / another local: not inlined
            ren = {}
            for nm in sorted(pat_names):
                counter[0] += 1
                new = '_g%d' % counter[0]
                while new in caller_names:
                    counter[0] += 1
                    new = '_g%d' % counter[0]
                ren[nm] = ast.Name(id=new, ctx=ast.Load())
            ren[gself] = ast.Name(id=self_name, ctx=ast.Load())

            class Ren(ast.NodeTransformer):
                def visit_Name(self, x):
                    if x.id in ren:
                        return ast.copy_location(ast.Name(id=ren[x.id].id, ctx=x.ctx), x)
                    return x
            comp = ast.GeneratorExp(
                elt=Ren().visit(copy.deepcopy(elt)),
                generators=[ast.comprehension(target=Ren().visit(copy.deepcopy(loop.target)),
                                              iter=Ren().visit(copy.deepcopy(it)),
                                              ifs=[Ren().visit(copy.deepcopy(cond))] if cond is not None else [],
                                              is_async=0)])
            for x in ast.walk(comp):
                ast.copy_location(x, n)
            notes.add('C8 generator method %s inlined as a generator expression' % g.name)
            return comp
    fdef.body = [Tr().visit(st) for st in fdef.body]


def _c7_unroll_display_loops(fdef, cls, notes):
    """`for X in (E1, ..., En): BODY` (a tuple / list display of names, n <= 4, no `else`) -> BODY[X := E1]; ...;
    BODY[X := En].  `X` is a name stored only by this loop and read only inside it; BODY contains no `break` of this
    loop and `continue` only as top-level statements `if C: continue`, which become `if not C: <rest of BODY>`.
    Afterwards `K is None` / `K is not None` for the `**K` parameter (always a dict, never rebound) are folded."""
    kw = fdef.args.kwarg.arg if fdef.args.kwarg else None
    if kw is not None and any(isinstance(n, ast.Name) and n.id == kw and isinstance(n.ctx, (ast.Store, ast.Del))
                              for n in ast.walk(fdef)):
        kw = None

    def own_level(stmts, kinds):
        """nodes of the given kinds that belong to THIS loop (not to a nested loop)"""
        out = []
        for st in stmts:
            if isinstance(st, kinds):
                out.append(st)
            if isinstance(st, (ast.For, ast.While)):
                out += own_level(st.orelse, kinds)
                continue
            for f in ('body', 'orelse', 'finalbody'):
                out += own_level(getattr(st, f, []) or [], kinds)
            for h in getattr(st, 'handlers', []) or []:
                out += own_level(h.body, kinds)
        return out

    def fold(node):
        class F(ast.NodeTransformer):
            def visit_Compare(self, n):
                self.generic_visit(n)
                if kw and len(n.ops) == 1 and isinstance(n.left, ast.Name) and n.left.id == kw \
                        and isinstance(n.comparators[0], ast.Constant) and n.comparators[0].value is None \
                        and isinstance(n.ops[0], (ast.Is, ast.IsNot)):
                    return ast.copy_location(ast.Constant(value=isinstance(n.ops[0], ast.IsNot)), n)
                return n

            def visit_UnaryOp(self, n):
                self.generic_visit(n)
                if isinstance(n.op, ast.Not) and isinstance(n.operand, ast.Constant) and isinstance(n.operand.value, bool):
                    return ast.copy_location(ast.Constant(value=not n.operand.value), n)
                return n

            def visit_If(self, n):
                self.generic_visit(n)
                if isinstance(n.test, ast.Constant) and isinstance(n.test.value, bool):
                    return (n.body if n.test.value else n.orelse) or [ast.copy_location(ast.Pass(), n)]
                return n
        return F().visit(node)

    def unroll(loop):
        if not (isinstance(loop.iter, (ast.Tuple, ast.List)) and 1 <= len(loop.iter.elts) <= 4
                and all(isinstance(e, ast.Name) for e in loop.iter.elts) and isinstance(loop.target, ast.Name)
                and not loop.orelse):
            return None
        x = loop.target.id
        inside = {id(n) for n in ast.walk(loop)}
        for n in ast.walk(fdef):
            if isinstance(n, ast.Name) and n.id == x and (id(n) not in inside or (
                    isinstance(n.ctx, (ast.Store, ast.Del)) and n is not loop.target)):
                return None
            if isinstance(n, ast.arg) and n.arg == x:
                return None
        if own_level(loop.body, (ast.Break,)):
            return None
        conts = own_level(loop.body, (ast.Continue,))
        top = [st.body[0] for st in loop.body if isinstance(st, ast.If) and not st.orelse and len(st.body) == 1
               and isinstance(st.body[0], ast.Continue)]
        if len(conts) != len(top) or any(c not in top for c in conts):
            return None
        for e in loop.iter.elts:              # the items are evaluated before the loop: the body must not rebind them
            if any(isinstance(n, ast.Name) and n.id == e.id and isinstance(n.ctx, (ast.Store, ast.Del))
                   for n in ast.walk(loop)):
                return None

        def guard(stmts):
            for i, st in enumerate(stmts):
                if isinstance(st, ast.If) and not st.orelse and len(st.body) == 1 and isinstance(st.body[0], ast.Continue):
                    rest = guard(stmts[i + 1:]) or [ast.copy_location(ast.Pass(), st)]
                    neg = ast.copy_location(ast.UnaryOp(op=ast.Not(), operand=st.test), st)
                    return stmts[:i] + [ast.copy_location(ast.If(test=neg, body=rest, orelse=[]), st)]
            return stmts
        out = []
        for e in loop.iter.elts:
            body = [_Subst({x: e}).visit(copy.deepcopy(st)) for st in guard(list(loop.body))]
            for st in body:
                r = fold(st)
                out.extend(r if isinstance(r, list) else [r])
        notes.add('C7 loop over the display (%s) unrolled' % ', '.join(e.id for e in loop.iter.elts))
        return out or [ast.copy_location(ast.Pass(), loop)]

    def rewrite(stmts):
        out = []
        for st in stmts:
            if isinstance(st, ast.For):
                r = unroll(st)
                if r is not None:
                    out.extend(rewrite(r))
                    continue
            for f in ('body', 'orelse', 'finalbody'):
                if isinstance(getattr(st, f, None), list) and getattr(st, f) and isinstance(getattr(st, f)[0], ast.stmt):
                    setattr(st, f, rewrite(getattr(st, f)))
            for h in getattr(st, 'handlers', []) or []:
                h.body = rewrite(h.body)
            out.append(st)
        return out
    fdef.body = rewrite(fdef.body)


def run(fdef: ast.FunctionDef, tree: ast.Module, spec: dict, info: dict = None) -> ast.FunctionDef:
    """the class-level pre-pass; the input object itself when nothing applies; never raises"""
    cls = spec.get('cls')
    if tree is None or cls is None or not cls.get('clsprep') or not fdef.args.args:
        return fdef
    mt = fdef.__dict__.pop('_module_tree', None)     # (never copy the whole module along with the method)
    try:
        new, notes = copy.deepcopy(fdef), set()
    finally:
        if mt is not None:
            fdef._module_tree = mt
    try:
        for step in (lambda: _c7_unroll_display_loops(new, cls, notes),
                     lambda: _c2_bound_methods(new, cls, tree, notes),
                     lambda: _c1_attr_aliases(new, cls, tree, notes),
                     lambda: _c3_item_aliases(new, cls, tree, notes),
                     lambda: _c4_dict_loops(new, cls, notes),
                     lambda: _c6_single_use_temps(new, cls, notes),
                     lambda: _c5_itemgetter(new, tree, notes),
                     lambda: _c8_generator_helpers(new, cls, tree, notes)):
            snapshot = copy.deepcopy(new), set(notes)
            try:
                step()
            except _Refuse:
                new, notes = snapshot
        if not notes:
            return fdef
        ast.fix_missing_locations(new)
        if hasattr(fdef, '_module_tree'):
            new._module_tree = fdef._module_tree
        if info is not None:
            info['clsprep'] = sorted(notes)
        return new
    except Exception as e:      # noqa: BLE001 - fall back to the untouched method
        if info is not None:
            info['clsprep_error'] = '%s: %s' % (type(e).__name__, e)
        return fdef
