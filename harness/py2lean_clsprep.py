"""py2lean_clsprep - class-level robustness layer of the SrcTie translator (round 3b).

Used only for classes whose spec asks for it (`role_probe`, `helpers`, `clsprep` keys of the class description in
harness/srctie_specs.py); for every other spec nothing here runs and the generated text is unchanged.  Trusted
together with py2lean.py / py2lean_prepass.py (specification: this docstring and notes/SRCTIE.md section 2b);
validated on every run by the translator self-test, which compares the generated definitions (after these
rewrites) with the real CPython methods, object state included.

1. ROLES (`resolve_roles`).  The spec declares the object state by ROLE (the record fields keep the role's name,
   so generated text does not depend on the attribute names of the source).  Which Python attribute plays which
   role is found by EVALUATING the real class: the spec lists a few probe objects (constructor arguments + calls)
   and, per role, the values the attribute must have in those objects.  An attribute of the real object whose
   values match is the role's attribute; a role no attribute (or more than one) matches keeps its declared name
   (the translator then refuses methods that use an undeclared attribute, as before).  A wrong map cannot go
   unnoticed: the self-test builds the objects through the same map and compares the state after every call.

2. CLASS PRE-PASS (`run`), purely syntactic rewrites of one method, each skipped when a side condition fails:
   C1 attribute alias     top-level `x = self.<path>` (also inside `a, b = self.p, self.q.r`), `<path>` a declared
                          state attribute / mapped path / the peer object; `x` bound exactly once; every other
                          occurrence of `x` is a read textually after the binding; the method (and, transitively,
                          the methods of the class it calls on `self`) never REBINDS that attribute (`self.<path> =
                          ...`, `del self.<path>`) -- item updates are fine: the alias and the attribute are one
                          object  ->  binding removed, `x` -> `self.<path>`.  When the attribute IS rebound, the
                          rewrite still applies if no read of `x` comes textually after the first rebinding
                          statement and neither sits in a loop (the alias then always named the live object).
   C2 bound self method   top-level (or branch-level) `f = self.m`, `f` bound only by such statements with the same
                          `m`, every other occurrence a call `f(...)`  ->  `self.m(...)`  (`m` a plain method
                          defined in the class body, not rebound on the instance: class bodies do not assign
                          `self.m`, checked).
   C3 item alias          `e = self.<A>.get(K)` / `e = self.<A>[K]` at statement level, `K` a name; `e` bound exactly
                          once; `self.<A>` a declared dict; on every path from the binding to a use of `e`, nothing
                          rebinds `K`, rebinds `self.<A>`, stores / deletes an item of `self.<A>` or calls a method
                          on `self` (a conservative flow walk over if / try / for)  ->  `e` -> `self.<A>[K]`,
                          `e is None` -> `K not in self.<A>`, `e is not None` -> `K in self.<A>` (dict values of the
                          declared type are never None); the binding becomes `self.<A>[K]` as an expression
                          statement when it was the subscript form (it may raise KeyError), and is dropped for
                          `.get`.
   C4 dict built by a loop  `acc = {}` immediately followed by `for PAT in IT: [T...] if C: acc[K] = V` (or the
                          unconditional store), `T...` = simple assignments `t = <expr>` / `a, b = <loop variable of
                          declared n-tuple type>`; `acc`, the loop variables and the temporaries are not used
                          elsewhere except `acc` after the loop; no name of the loop occurs in IT
                          ->  `acc = {K: V for PAT in IT if C}` with the temporaries substituted.
   C5 `operator.itemgetter(i)` as a sort key (name imported from `operator` at module level, never rebound),
                          `i` a constant  ->  `lambda x: x[i]`; `operator.index(e)` -> `e` when `e` is an `Int`-typed
                          loop variable is NOT done (no types here).
"""
from __future__ import annotations

import ast
import copy


# ------------------------------------------------------------------------------------------------ roles

def _norm(v):
    if isinstance(v, (list, tuple)):
        return [_norm(x) for x in v]
    if isinstance(v, dict):
        return {'__dict__': [[_norm(k), _norm(x)] for k, x in v.items()]}
    if isinstance(v, (set, frozenset)):
        return {'__set__': sorted(repr(_norm(x)) for x in v)}
    return v


def resolve_roles(cls: dict, pycls) -> dict:
    """-> {declared attribute: actual attribute of the class under test}; identity where nothing is inferred"""
    probe = cls.get('role_probe')
    out = {a: a for a in cls['state']}
    if not probe:
        return out
    try:
        objs = []
        for kwargs, calls in probe['objects']:
            o = pycls(**kwargs)
            for name, *args in calls:
                getattr(o, name)(*args)
            objs.append(o)
        names = None
        for o in objs:
            ks = set(vars(o))
            names = ks if names is None else names & ks
        taken = set()
        cands = {}
        for role, sig in probe['signature'].items():
            if role in probe.get('fixed', ()):
                out[role] = role
                taken.add(role)
                continue
            cands[role] = [a for a in sorted(names or ())
                           if all(type(getattr(o, a)) is type(s) or isinstance(s, (list, tuple, dict))
                                  for o, s in zip(objs, sig))
                           and [_norm(getattr(o, a)) for o in objs] == [_norm(s) for s in sig]]
        for role, cs in cands.items():
            cs = [c for c in cs if c not in taken]
            if role in cs:
                out[role] = role
            elif len(cs) == 1:
                out[role] = cs[0]
            # else: ambiguous / missing -> the declared name
        if len(set(out.values())) != len(out):
            return {a: a for a in cls['state']}
    except Exception:      # noqa: BLE001 - a class that cannot be probed keeps the declared names
        return {a: a for a in cls['state']}
    return out
