"""Validation of harness/py2lean_c15.py (generators over an abstract number carrier): CPython vs the generated definitions.

  Python: the real function of the module under test, `random.random` replaced by the scripted draw list, `next()` called
          `n` times on the fresh generator; observed: the values (as doubles, bit for bit) and how it ended
          (still suspended / StopIteration / the exception class).
  Lean:   the generated definition at the instance `α = Float` (Lean's Float is the C double, so every carrier operation
          is the IEEE operation CPython performs), `lake env lean --run` on a scratch driver.
Cases: boundary doubles (±0, subnormal, huge, inf, nan), every kind of `count` (None, 'repeat', other strings, negative,
zero, small ints), jitter off / on / out of range / nan, n = 0..9, random scripted draws.  Cases on which the Lean side
reports OutOfFuel are counted, not compared.  Also synthetic generators for the constructs boltons does not exercise and
snippets that must be REFUSED.
"""
from __future__ import annotations

import importlib
import math
import os
import random
import shutil
import struct
import subprocess
import sys
import tempfile
import time
import types

HERE = os.path.dirname(os.path.abspath(__file__))
if HERE not in sys.path:
    sys.path.insert(0, HERE)
from bv import common          # noqa: E402
import py2lean_c15 as T        # noqa: E402
import srctie_specs            # noqa: E402
from py2lean import Unsupported    # noqa: E402

FUEL = 3000


def bits(x):
    return struct.unpack('>Q', struct.pack('>d', float(x)))[0]


def unbits(b):
    return struct.unpack('>d', struct.pack('>Q', b))[0]


SNIPPET_SRC = '''
import random
import itertools

def g_unbound(a, b, count):
    """a local that one path leaves unbound; and / or with an operand that may raise; chained comparison"""
    if a < b:
        x = a
    elif b < a:
        x = b
    yield x
    if count is not None and count > 2 or a == 0.0:
        yield a * b
    if 0.0 <= a <= b < 1.0:
        yield -a
    i = 0
    while i < count:
        i += 1
        x *= b
        if x == a:
            return
        yield x - a

def g_nested(a, b, count):
    """a loop in a loop, count arithmetic, conditional expressions, not, !=, >=, >"""
    k = 0
    while count != 0:
        count = count - 1
        j = 0
        cur = a if not b else b
        while j <= k:
            cur = cur * b if cur >= a else 1
            yield cur
            j = j + 1
        k += 1
        if k > 3:
            raise TypeError('too long: %r %s' % (k, a))
    yield a - b * random.random() - random.random()

def g_draws(a, count):
    """draws in conditions and on both sides of an operator (evaluation order)"""
    x = random.random() - a * random.random()
    yield x
    if random.random() < a or count == 'go':
        yield random.random()
    y = (a if random.random() < x else -a) * x
    yield y
    raise KeyError

def _h_check(lo, hi):
    """a private helper that only validates"""
    if hi < lo:
        raise ValueError('bad %r' % hi)

def _h_step(x, f):
    if x == 0:
        x = 1
    elif x < 1.0:
        x = x * f
    return 1 if x > 1.0 else x

def _h_twice(x, f):
    y = _h_step(x, f)
    return y * f

def g_helpers(a, b, count):
    """helpers inlined by the pre-pass (one calling another), `for … in itertools.count()` with a leading break"""
    _h_check(a, b)
    x = a
    for k in itertools.count():
        if not (count == 'go' or k < count):
            break
        yield x
        x = _h_step(x, b)
    z = _h_twice(x, b)
    yield z - random.random()
'''
SNIPPET_SPECS = [
    {'qualname': 'g_unbound', 'params': {'a': 'A', 'b': 'A', 'count': 'Count'}},
    {'qualname': 'g_nested', 'params': {'a': 'A', 'b': 'A', 'count': 'Count'}},
    {'qualname': 'g_draws', 'params': {'a': 'A', 'count': 'Count'}},
    {'qualname': 'g_helpers', 'params': {'a': 'A', 'b': 'A', 'count': 'Count'}},
]
for _s in SNIPPET_SPECS:
    _s.update(module='snippets', lean_name=_s['qualname'], kind='generator', result='A', tie_theorem='-', raises=True)

REJECT = {
    'for loop': 'def f(a):\n    for i in range(3):\n        yield a\n',
    'carrier plus': 'def f(a):\n    yield a + a\n',
    'carrier division': 'def f(a):\n    yield a / a\n',
    'literal 2.0': 'def f(a):\n    yield a * 2.0\n',
    'int literal 2 on the carrier': 'def f(a):\n    yield a * 2\n',
    'try': 'def f(a):\n    try:\n        yield a\n    except ValueError:\n        pass\n',
    'yield value used': 'def f(a):\n    x = yield a\n',
    'attribute': 'def f(a):\n    yield a.real\n',
    'unknown call': 'def f(a):\n    yield abs(a)\n',
    'float of an int': 'def f(a):\n    i = 1\n    yield float(i)\n',
    'global name': 'def f(a):\n    yield a * SCALE\n',
    'break': 'def f(a):\n    while a < 1.0:\n        break\n    yield a\n',
    'or of non-bool': 'def f(a):\n    yield a or 1.0\n',
    'rebinding float': 'def f(a):\n    float = 1\n    yield a\n',
    'random rebound': 'def f(a):\n    random = 1\n    yield a\n',
    'type change': 'def f(a):\n    x = 1\n    x = a\n    yield x\n',
    'message that may raise': 'def f(a):\n    raise ValueError("%d" % a)\n    yield a\n',
    'unknown exception': 'def f(a):\n    raise OSError("x")\n    yield a\n',
    'return value in generator': 'def f(a):\n    yield a\n    return 1\n',
    'default-less star args': 'def f(*a):\n    yield 1.0\n',
    'while else': 'def f(a):\n    while a < 1.0:\n        a = a * a\n    else:\n        yield a\n',
    'chained comparison with draw': 'def f(a):\n    if 0.0 <= random.random() <= a:\n        yield a\n',
    'count times carrier': 'def f(a, count):\n    yield a * count\n',
    'helper with an early return': 'def _h(x):\n    if x < 1.0:\n        return x\n    return x * x\n\ndef f(a):\n    y = _h(a)\n    yield y\n',
    'helper whose value is dropped': 'def _h(x):\n    return x * x\n\ndef f(a):\n    _h(a)\n    yield a\n',
    'helper reading a global the caller shadows': 'K = 1.0\n\ndef _h(x):\n    return x * K\n\ndef f(a):\n    K = a\n    y = _h(a)\n    yield y * K\n',
    'public helper': 'def h(x):\n    return x * x\n\ndef f(a):\n    y = h(a)\n    yield y\n',
    'helper call inside an expression': 'def _h(x):\n    return x * x\n\ndef f(a):\n    yield a - _h(a)\n',
    'for-count with continue': 'import itertools\n\ndef f(a):\n    for k in itertools.count():\n        if k > 3:\n            break\n        if a < 1.0:\n            continue\n        yield a\n',
    'for-count without a leading break': 'import itertools\n\ndef f(a):\n    for k in itertools.count():\n        yield a\n',
    'itertools not imported': 'def f(a):\n    for k in itertools.count():\n        if k > 3:\n            break\n        yield a\n',
}


def reject_tests(verbose):
    bad = []
    for name, src in REJECT.items():
        params = {'a': 'A'}
        if 'count' in src.split('\n')[0]:
            params['count'] = 'Count'
        spec = {'module': 'snippets', 'qualname': 'f', 'lean_name': 'f', 'kind': 'generator', 'result': 'A',
                'params': params, 'tie_theorem': '-'}
        text, infos = T.translate_source('import random\n' + src, [spec], 'snippets', 'snippets')
        if not infos[0].get('error'):
            bad.append(name)
        elif verbose:
            print('refused (%s): %s' % (name, infos[0]['error']))
    return bad


class FakeRandom:
    def __init__(self, draws):
        self.draws, self.k = draws, 0

    def random(self):
        v = self.draws[self.k] if self.k < len(self.draws) else 0.0
        self.k += 1
        return v


EXC_NAMES = {'KeyError', 'ValueError', 'TypeError', 'IndexError', 'ZeroDivisionError', 'RecursionError'}


def run_python(mod, qualname, args, n, draws):
    """-> ([bits of the values], how)"""
    fake = FakeRandom(draws)
    saved = mod.__dict__.get('random')
    mod.__dict__['random'] = fake
    out = []
    try:
        try:
            g = getattr(mod, qualname)(*args)
            for _ in range(n):
                v = next(g)
                out.append(bits(v))
            how = 'suspended'
        except StopIteration:
            how = 'returned'
        except Exception as e:  # noqa: BLE001
            nm = type(e).__name__
            how = 'raised ' + (nm if nm in EXC_NAMES else 'Other')
        return out, how
    finally:
        mod.__dict__['random'] = saved


def run_python_fn(mod, qualname, args, draws):
    """a plain function returning a list of floats -> same observation format as a generator run to its end"""
    fake = FakeRandom(draws)
    saved = mod.__dict__.get('random')
    mod.__dict__['random'] = fake
    try:
        try:
            return [bits(v) for v in getattr(mod, qualname)(*args)], 'returned'
        except Exception as e:  # noqa: BLE001
            nm = type(e).__name__
            return [], 'raised ' + (nm if nm in EXC_NAMES else 'Other')
    finally:
        mod.__dict__['random'] = saved


def enc_arg(t, v):
    if t == 'A':
        return str(bits(v))
    if t == 'Count':
        if v is None:
            return 'N'
        if isinstance(v, str):
            return 'S' + v
        return 'I%d' % v
    if t == 'Int':
        return str(v)
    raise ValueError(t)


def build_driver(texts, fns):
    body = ['import BoltonsVerif.PyRtC15', 'set_option linter.all false', '']
    for t in texts:
        body.append(t.replace('import BoltonsVerif.PyRtC15\n', ''))
    body.append('''open PyRtC15
def parseA (s : String) : Option Float := s.toNat?.map fun n => Float.ofBits (UInt64.ofNat n)
def parseCount (s : String) : Option CountV :=
  if s == "N" then some .none
  else if s.startsWith "S" then some (.str (String.ofList (s.toList.drop 1)))
  else if s.startsWith "I" then (String.ofList (s.toList.drop 1)).toInt?.map .int
  else none
def parseDraws (s : String) : Option (List Float) :=
  if s == "-" then some [] else (s.splitOn ",").foldr (fun w acc => match parseA w, acc with
    | some x, some l => some (x :: l)
    | _, _ => none) (some [])
def showExc : PyExc → String
  | .KeyError => "KeyError" | .ValueError => "ValueError" | .TypeError => "TypeError" | .IndexError => "IndexError"
  | .ZeroDivisionError => "ZeroDivisionError" | .StopIteration => "StopIteration" | .RecursionError => "RecursionError"
  | .Other => "Other" | .OutOfFuel => "OutOfFuel"
def showStop : Stop → String
  | .suspended => "suspended" | .returned => "returned" | .raised e => "raised " ++ showExc e | .outOfFuel => "outOfFuel"
def showFn (r : Except PyExc (List Float)) : String :=
  match r with
  | .ok l => (if l.isEmpty then "-" else ",".intercalate (l.map fun x => toString x.toBits.toNat)) ++ " returned"
  | .error .OutOfFuel => "- outOfFuel"
  | .error e => "- raised " ++ showExc e
def showRes (r : List Float × Stop) : String :=
  (if r.1.isEmpty then "-" else ",".intercalate (r.1.map fun x => toString x.toBits.toNat)) ++ " " ++ showStop r.2
''')
    arms = []
    for k, (spec, short) in enumerate(fns):
        ps = list(spec['params'].items())
        names = ['a%d' % i for i in range(len(ps))]
        parses = ', '.join(('parseA %s' if t == 'A' else 'parseCount %s' if t == 'Count' else '%s.toInt?') % nm
                           for nm, (p, t) in zip(names, ps))
        somes = ', '.join('some v%d' % i for i in range(len(ps)))
        arms.append('  | "%d" :: fuel :: n :: draws :: %s[] =>\n'
                    '    (match fuel.toNat?, n.toNat?, parseDraws draws, %s with\n'
                    '     | some fuel, some n, some ds, %s => %s (Src.%s.%s fuel %s(fun i => ds.getD i 0) %s)\n'
                    '     | %s => "bad-args")' % (
                        k, ''.join(nm + ' :: ' for nm in names), parses, somes,
                        'showRes' if spec['kind'] == 'generator' else 'showFn', short, spec['lean_name'],
                        'n ' if spec['kind'] == 'generator' else '',
                        ' '.join('v%d' % i for i in range(len(ps))), ', '.join('_' for _ in range(len(ps) + 3))))
    body.append('def handle (ws : List String) : String :=\n  match ws with\n' + '\n'.join(arms) + '\n  | _ => "bad-function"\n')
    body.append('''partial def loop (h : IO.FS.Stream) (out : IO.FS.Stream) : IO Unit := do
  let line ← h.getLine
  if line.isEmpty then return
  out.putStrLn ("R " ++ handle ((line.trimAscii.toString.splitOn " ").filter (fun w => w ≠ "")))
  loop h out

def main : IO Unit := do
  loop (← IO.getStdin) (← IO.getStdout)
''')
    return '\n'.join(body)


A_START = [0.0, -0.0, 1.0, 0.25, 0.1, 1e-3, 5e-324, 3.0, -1.0, 1e308, 7.0, 10.0, float('inf'), float('nan'), 2.5, 1e-310]
A_STOP = [0.0, -0.0, 10.0, 1.0, 100.0, 0.3, 1e308, float('inf'), float('nan'), 2.5, 7.0, 1e-300, 4.0]
A_FACTOR = [2.0, 2.0, 10.0, 1.5, 1.0, 0.5, 1.1, 3.0, float('inf'), float('nan'), 1.25, 0.999]
COUNTS = [None, None, None, 'repeat', 'repeat', 0, 1, 3, 7, -1, -5, 'abc', 'Repeat', 12, 2]
JITTERS = [0.0, 0.0, 0.0, 1.0, 0.5, -0.5, -1.0, 1.5, -1.01, float('nan'), -0.0, 0.25, 1.0]
NS = [0, 1, 2, 3, 5, 9, 14]


def backoff_cases(rng, quick):
    out = []
    # the doc-test calls and a systematic sweep over the kinds of count x jitter x n
    base = [(1.0, 10.0, None, 2.0, 0.0), (1.0, 10.0, 5, 2.0, 0.0), (1.0, 10.0, 8, 2.0, 0.0), (0.25, 100.0, None, 10.0, 0.0),
            (0.0, 5.0, 'repeat', 3.0, 0.0), (0.0, 5.0, None, 3.0, 1.0), (7.0, 5.0, 2, 3.0, 0.0), (1.0, 10.0, None, 1.0, 0.0)]
    for b in base:
        for n in NS:
            out.append((b, n, [rng.random() for _ in range(n)]))
    for c in COUNTS:
        for j in JITTERS:
            for n in (0, 1, 4):
                out.append(((rng.choice(A_START[:9]), rng.choice(A_STOP[2:7]), c, rng.choice(A_FACTOR[:4]), j), n,
                            [rng.random() for _ in range(n)]))
    for _ in range(400 if quick else 6000):
        args = (rng.choice(A_START), rng.choice(A_STOP), rng.choice(COUNTS), rng.choice(A_FACTOR), rng.choice(JITTERS))
        if rng.random() < 0.3:
            args = (rng.random() * 4, rng.random() * 50, args[2], 1 + rng.random() * 3, args[4])
        n = rng.choice(NS)
        out.append((args, n, [rng.choice([rng.random(), 0.0, 0.5, 1.0 - 2 ** -53]) for _ in range(n)]))
    return out


def py_args_backoff(rng, args):
    """the carrier embedding at the call boundary: `False` / `True` for the jitter 0 / 1, ints for integral numbers"""
    st, sp, c, f, j = args
    if j == 0.0 and not math.copysign(1.0, j) < 0 and rng.random() < 0.5:
        j = False
    elif j == 1.0 and rng.random() < 0.5:
        j = True
    if st == int(st) if math.isfinite(st) else False:
        if rng.random() < 0.3 and not (st == 0 and math.copysign(1.0, st) < 0):
            st = int(st)
    return (st, sp, c, f, j)


def snippet_cases(rng, quick, spec):
    out = []
    vals = [0.0, 1.0, 0.5, 2.0, -1.0, 0.25, 3.0, float('nan'), -0.0, 0.75]
    counts = [None, 0, 1, 2, 3, 5, -1, 'go', 'x', 4]
    for _ in range(250 if quick else 2500):
        args = tuple(rng.choice(vals) if t == 'A' else rng.choice(counts) for t in spec['params'].values())
        n = rng.choice([0, 1, 2, 3, 4, 6, 12])
        out.append((args, n, [rng.choice([rng.random(), 0.0, 0.5]) for _ in range(8)]))
    return out


def run(pids, quick=False, seed=0, verbose=True):
    """-> (number of mismatches, report dict); same contract as py2lean_selftest.run"""
    common.ensure_repo_on_path()
    t0 = time.time()
    specs = [sp for pid in pids for sp in srctie_specs.SPECS.get(pid, []) if sp.get('translator') == 'py2lean_c15']
    module_name = specs[0]['module']
    mod = importlib.import_module(module_name)
    gen_text, infos = T.translate_module(module_name, specs, common.REPO)
    for i in infos:
        if i.get('error'):
            raise common.InfraError('not translated: %s: %s' % (i['function'], i['error']))
    sn_text, sn_infos = T.translate_source(SNIPPET_SRC, SNIPPET_SPECS, 'snippets', 'snippets')
    for i in sn_infos:
        if i.get('error'):
            raise common.InfraError('snippet not translated: %s: %s' % (i['function'], i['error']))
    sn_mod = types.ModuleType('c15_snippets')
    exec(compile(SNIPPET_SRC, 'c15_snippets', 'exec'), sn_mod.__dict__)
    rng = random.Random('py2lean-c15-selftest-%d' % seed)
    fns = [(sp, module_name.split('.')[-1]) for sp in specs] + \
          [(sp, 'snippets') for sp in SNIPPET_SPECS]
    lines, meta = [], []
    for k, (spec, short) in enumerate(fns):
        if short == 'snippets':
            cases = [(a, a, n, d) for a, n, d in snippet_cases(rng, quick, spec)]
            pymod = sn_mod
        else:
            if list(spec['params']) != ['start', 'stop', 'count', 'factor', 'jitter']:
                raise common.InfraError('no argument family for %s' % spec['qualname'])
            cases = [(a, py_args_backoff(rng, a), n, d) for a, n, d in backoff_cases(rng, quick)]
            if spec['kind'] == 'function':       # the whole list: the script must cover every value
                cases = [(a, pa, 0, d + [rng.random() for _ in range(16)]) for a, pa, n, d in cases[::2]]
            pymod = mod
        for args, pyargs, n, draws in cases:
            toks = [str(k), str(FUEL), str(n), ','.join(str(bits(x)) for x in draws) if draws else '-']
            toks += [enc_arg(t, v) for t, v in zip(spec['params'].values(), args)]
            lines.append(' '.join(toks))
            meta.append((spec, pymod, pyargs, n, draws))
    tmp = tempfile.mkdtemp(prefix='py2lean-c15-selftest-')
    try:
        with common.BuildLock():
            rc, out = common._run(['lake', 'build', 'BoltonsVerif.PyRtC15'])
        if rc != 0:
            raise common.InfraError('cannot build BoltonsVerif.PyRtC15: ' + out[-500:])
        drv = os.path.join(tmp, 'C15SelfTest.lean')
        with open(drv, 'w') as fh:
            fh.write(build_driver([gen_text, sn_text], fns))
        t1 = time.time()
        p = subprocess.run(['lake', 'env', 'lean', '--run', drv], cwd=common.LEAN, input='\n'.join(lines) + '\n',
                           stdout=subprocess.PIPE, stderr=subprocess.STDOUT, text=True, timeout=1800)
        t_lean = time.time() - t1
    finally:
        shutil.rmtree(tmp, ignore_errors=True)
    outs = [ln[2:] for ln in p.stdout.split('\n') if ln.startswith('R ')]
    if p.returncode != 0 or len(outs) != len(lines):
        raise common.InfraError('c15 scratch driver failed (rc %s, %d lines for %d inputs): %s' % (
            p.returncode, len(outs), len(lines), p.stdout[-1500:]))
    report, mismatches = {}, []
    for (spec, pymod, pyargs, n, draws), got in zip(meta, outs):
        r = report.setdefault(spec['lean_name'], {'cases': 0, 'compared': 0, 'pre_false': 0, 'python_raises': 0,
                                                  'out_of_fuel': 0, 'mismatches': 0})
        r['cases'] += 1
        if got.startswith('bad'):
            raise common.InfraError('driver rejected a line: %s for %r' % (got, (pyargs, n)))
        vals_s, how = got.split(' ', 1)
        if how == 'outOfFuel':
            r['out_of_fuel'] += 1
            continue
        lean_vals = [] if vals_s == '-' else [int(x) for x in vals_s.split(',')]
        with common.time_limit(20):
            if spec['kind'] == 'function':
                want_vals, want_how = run_python_fn(pymod, spec['qualname'], pyargs, draws)
            else:
                want_vals, want_how = run_python(pymod, spec['qualname'], pyargs, n, draws)
        r['compared'] += 1
        if want_how.startswith('raised'):
            r['python_raises'] += 1
        same = want_how == how and len(want_vals) == len(lean_vals) and all(
            a == b or (math.isnan(unbits(a)) and math.isnan(unbits(b))) for a, b in zip(want_vals, lean_vals))
        if not same:
            r['mismatches'] += 1
            mismatches.append((spec['lean_name'], {'args': repr(pyargs), 'n': n, 'draws': draws},
                               'Python %s %s but Lean %s %s' % ([unbits(x) for x in want_vals], want_how,
                                                                [unbits(x) for x in lean_vals], how)))
    for name in reject_tests(verbose):
        mismatches.append(('reject', {}, 'snippet outside the subset was translated: ' + name))
    report['_mismatches'] = [{'function': nm, 'case': c, 'what': b} for nm, c, b in mismatches[:5]]
    report['_wall_s'] = round(time.time() - t0, 2)
    report['_lean_s'] = round(t_lean, 2)
    if verbose:
        for name, r in report.items():
            print(name, r)
        for name, case, b in mismatches[:10]:
            print('MISMATCH %s %r: %s' % (name, case, b))
    return len(mismatches), report


if __name__ == '__main__':
    n, rep = run(['C15'], quick='--quick' in sys.argv, seed=0, verbose=True)
    sys.exit(1 if n else 0)
