"""py2lean_heap - the OBJECT-STORE extension of the SrcTie translator (harness/py2lean.py), part 1: the
desugaring pre-pass for methods of a class whose spec declares a `heap` (LRI/LRU, BasePriorityQueue,
OrderedMultiDict).  Trusted together with py2lean.py; specified in notes/SRCTIE.md §2 "Object store (heap mode)".

`prepass(fdef, tree, cls, spec, notes)` returns a rewritten COPY of the method's FunctionDef.  Every rewrite is
syntactic, exact, and skipped (the construct then reaches the translator and is refused there) when a side
condition cannot be checked on the AST.  It only ever runs for classes with a `heap` entry in their spec, so the
output for every other translated function is untouched.

 H1 `with self.<a>:` where `<a>` is listed in the spec's `ignore_with` (a lock: the subject of C03; one method
    call is one atomic step here), no `as`           ->  the body, spliced into the enclosing statement list.
 H2 `super().m(args)` in a method whose defining class has the single base `dict`, `m` one of `__setitem__`,
    `__delitem__`, `pop`, `popitem`, `clear`, `dict` / `super` not rebound in the module
                                                      ->  `dict.m(self, args)`.
 H3 chained assignment `T1 = T2 = ... = E`
      a) E a name or a constant that no target rebinds         ->  `T1 = E; T2 = E; ...` (left to right, as Python)
      b) some Ti a plain local name `n`, every target before it a declared attribute `self.<a>` (a store that
         cannot raise and does not read `n`), `n` not read by any other target
                                                      ->  `n = E; T1 = n; ...; (Ti skipped) ...; Tk = n`.
 H4 module constants bound by `A, B, ... = range(k)` (top level, each name bound exactly once in the module,
    `range` not rebound)                              ->  their values, where the name is not a local.
 H7 `try: x = self.<a> [; ...] except AttributeError: ...` (every body statement binds a local to a DECLARED attribute)
                                                      ->  the body: the attributes of the spec always exist (the state a
    tie starts from is the one `__new__` / `__init__` leave).
 H8 a local bound once, at the top level of the method, to a declared `Dict` attribute, in a method that calls no method
    of `self` and never assigns that attribute          ->  the attribute itself (`_map = self._map; _map.clear()`).
 H9 `T1, T2 = E1, E2` with a store place among the targets ->  `_h1 = E1; _h2 = E2; T1 = _h1; T2 = _h2` (Python's order).
 H10 `return self.m(..)[i]` / `x = self.m(..)[i]`       ->  `_h = self.m(..)` first.
 H6 (classes with an abstract `backend` only) `a, b, ... = f(...)` (every target a plain name)
                                                      ->  `_h<n> = f(...); a, b, ... = _h<n>` (`_h<n>` a fresh local): the
    call's effect on the object happens before the unpacking can fail, as in Python.
 H5 `a = self.m` (a bound method of `self`; top-level statement of the method, `a` bound exactly once, every other
    occurrence of `a` is the function of a call textually after it)
                                                      ->  binding removed, `a(args)` -> `self.m(args)`.
"""
from __future__ import annotations

import ast
import copy

RAW_DICT = ('__setitem__', '__delitem__', 'clear', 'pop', 'popitem', 'setdefault', '__contains__', '__getitem__')


def _copy_fdef(fdef):
    tree = getattr(fdef, '_module_tree', None)
    if tree is not None:
        del fdef._module_tree
    try:
        new = copy.deepcopy(fdef)
    finally:
        if tree is not None:
            fdef._module_tree = tree
    if tree is not None:
        new._module_tree = tree
    return new


def _stores(fdef):
    n = {}
    for x in ast.walk(fdef):
        if isinstance(x, ast.Name) and isinstance(x.ctx, (ast.Store, ast.Del)):
            n[x.id] = n.get(x.id, 0) + 1
    for a in fdef.args.args + fdef.args.kwonlyargs + fdef.args.posonlyargs:
        n[a.arg] = n.get(a.arg, 0) + 1
    if fdef.args.vararg:
        n[fdef.args.vararg.arg] = 1
    if fdef.args.kwarg:
        n[fdef.args.kwarg.arg] = 1
    return n


def _is_self_attr(node, self_name, attrs=None):
    return isinstance(node, ast.Attribute) and isinstance(node.value, ast.Name) and node.value.id == self_name \
        and (attrs is None or node.attr in attrs)


def _map_blocks(stmts, f):
    """apply `f` (statement list -> statement list) to every statement list, innermost first"""
    out = []
    for st in stmts:
        for fld in ('body', 'orelse', 'finalbody'):
            if isinstance(getattr(st, fld, None), list) and not isinstance(st, (ast.FunctionDef, ast.ClassDef)):
                setattr(st, fld, _map_blocks(getattr(st, fld), f))
        if isinstance(st, ast.Try):
            for h in st.handlers:
                h.body = _map_blocks(h.body, f)
        out.append(st)
    return f(out)


def range_constants(tree, mod):
    """H4: name -> int for `A, B, ... = range(k)` at module top level"""
    out = {}
    if tree is None or not mod.unbound('range'):
        return out
    for st in tree.body:
        if isinstance(st, ast.Assign) and len(st.targets) == 1 and isinstance(st.targets[0], (ast.Tuple, ast.List)) \
                and isinstance(st.value, ast.Call) and isinstance(st.value.func, ast.Name) \
                and st.value.func.id == 'range' and len(st.value.args) == 1 and not st.value.keywords \
                and isinstance(st.value.args[0], ast.Constant) and type(st.value.args[0].value) is int \
                and st.value.args[0].value == len(st.targets[0].elts) \
                and all(isinstance(e, ast.Name) for e in st.targets[0].elts):
            for i, e in enumerate(st.targets[0].elts):
                if mod.once(e.id):
                    out[e.id] = i
    return out


def prepass(fdef, tree, cls, spec, notes):
    import py2lean_prepass
    new = _copy_fdef(fdef)
    self_name = new.args.args[0].arg if new.args.args else None
    mod = py2lean_prepass._Module(tree) if tree is not None else None
    ignore = set(cls.get('ignore_with', ()))

    # H1 ------------------------------------------------------------------------------------------
    def splice(stmts):
        out = []
        for st in stmts:
            if isinstance(st, ast.With) and len(st.items) == 1 and st.items[0].optional_vars is None \
                    and _is_self_attr(st.items[0].context_expr, self_name, ignore):
                notes.add('H1 with self.%s' % st.items[0].context_expr.attr)
                out.extend(st.body)
            else:
                out.append(st)
        return out
    new.body = _map_blocks(new.body, splice)

    # H7 ------------------------------------------------------------------------------------------
    declared0 = set(cls.get('state', {}))

    def drop_attr_probe(stmts):
        out = []
        for st in stmts:
            if isinstance(st, ast.Try) and not st.orelse and not st.finalbody and len(st.handlers) == 1 \
                    and isinstance(st.handlers[0].type, ast.Name) and st.handlers[0].type.id == 'AttributeError' \
                    and st.handlers[0].name is None and st.body \
                    and all(isinstance(b, ast.Assign) and len(b.targets) == 1 and isinstance(b.targets[0], ast.Name)
                            and _is_self_attr(b.value, self_name, declared0) for b in st.body):
                notes.add('H7 attribute probe')
                out.extend(st.body)
            else:
                out.append(st)
        return out
    new.body = _map_blocks(new.body, drop_attr_probe)

    # H2 ------------------------------------------------------------------------------------------
    owner = spec['qualname'].split('.')[0]
    cdef = None
    if tree is not None:
        for n in tree.body:
            if isinstance(n, ast.ClassDef) and n.name == owner:
                cdef = n
    dict_based = (cdef is not None and len(cdef.bases) == 1 and isinstance(cdef.bases[0], ast.Name)
                  and cdef.bases[0].id == 'dict' and not cdef.keywords and mod is not None
                  and mod.unbound('dict') and mod.unbound('super'))
    scope = _stores(new)

    class Super(ast.NodeTransformer):
        def visit_Call(self, n):
            self.generic_visit(n)
            f = n.func
            if (dict_based and isinstance(f, ast.Attribute) and f.attr in RAW_DICT and isinstance(f.value, ast.Call)
                    and isinstance(f.value.func, ast.Name) and f.value.func.id == 'super' and not f.value.args
                    and not f.value.keywords and 'super' not in scope and 'dict' not in scope):
                notes.add('H2 super().%s' % f.attr)
                n.func = ast.copy_location(ast.Attribute(
                    value=ast.copy_location(ast.Name(id='dict', ctx=ast.Load()), f), attr=f.attr, ctx=ast.Load()), f)
                n.args = [ast.copy_location(ast.Name(id=self_name, ctx=ast.Load()), f)] + n.args
            return n
    new = Super().visit(new)
    # `a = super()` (bound once, used only as `a.m(...)`): the same rewrite through the alias
    if dict_based:
        st_count = _stores(new)
        sup = [st for st in new.body if isinstance(st, ast.Assign) and len(st.targets) == 1
               and isinstance(st.targets[0], ast.Name) and st_count.get(st.targets[0].id) == 1
               and isinstance(st.value, ast.Call) and isinstance(st.value.func, ast.Name)
               and st.value.func.id == 'super' and not st.value.args and not st.value.keywords]
        for bind in sup:
            a = bind.targets[0].id
            uses = [n for n in ast.walk(new) if isinstance(n, ast.Name) and n.id == a and isinstance(n.ctx, ast.Load)]
            calls = [n for n in ast.walk(new) if isinstance(n, ast.Call) and isinstance(n.func, ast.Attribute)
                     and isinstance(n.func.value, ast.Name) and n.func.value.id == a and n.func.attr in RAW_DICT]
            if len(uses) != len(calls) or any((n.lineno, n.col_offset) <= (bind.lineno, bind.col_offset) for n in uses):
                continue
            for n in calls:
                n.func.value = ast.copy_location(ast.Name(id='dict', ctx=ast.Load()), n.func.value)
                n.args = [ast.copy_location(ast.Name(id=self_name, ctx=ast.Load()), n.func)] + n.args
            new.body = [st for st in new.body if st is not bind]
            notes.add('H2 %s = super()' % a)

    # H4 ------------------------------------------------------------------------------------------
    consts = range_constants(tree, mod) if mod is not None else {}

    class Consts(ast.NodeTransformer):
        def visit_Name(self, n):
            if isinstance(n.ctx, ast.Load) and n.id in consts and n.id not in scope:
                notes.add('H4 module constant %s' % n.id)
                return ast.copy_location(ast.Constant(value=consts[n.id]), n)
            return n
    new = Consts().visit(new)

    # H3 ------------------------------------------------------------------------------------------
    declared = set(cls.get('state', {}))

    def names_read(node):
        return {x.id for x in ast.walk(node) if isinstance(x, ast.Name)}

    def unchain(stmts):
        out = []
        for st in stmts:
            if not (isinstance(st, ast.Assign) and len(st.targets) > 1):
                out.append(st)
                continue
            tg, val = st.targets, st.value
            bound = set()
            for t in tg:
                bound |= {x.id for x in ast.walk(t) if isinstance(x, ast.Name) and isinstance(x.ctx, ast.Store)}
            if isinstance(val, ast.Constant) or (isinstance(val, ast.Name) and val.id not in bound):
                notes.add('H3 chained assignment')
                for t in tg:
                    out.append(ast.copy_location(ast.Assign(targets=[t], value=copy.deepcopy(val)), st))
                continue
            done = False
            for i, t in enumerate(tg):
                if isinstance(t, ast.Name) and t.id != self_name \
                        and all(_is_self_attr(p, self_name, declared) for p in tg[:i]) \
                        and not any(t.id in names_read(o) for j, o in enumerate(tg) if j != i):
                    notes.add('H3 chained assignment')
                    out.append(ast.copy_location(ast.Assign(targets=[t], value=val), st))
                    for j, o in enumerate(tg):
                        if j != i:
                            out.append(ast.copy_location(ast.Assign(
                                targets=[o], value=ast.copy_location(ast.Name(id=t.id, ctx=ast.Load()), st)), st))
                    done = True
                    break
            if not done:
                out.append(st)
        return out
    new.body = _map_blocks(new.body, unchain)

    # H9 / H10 -----------------------------------------------------------------------------------
    counter = [0]

    def fresh_tmp():
        counter[0] += 1
        return '_h%d' % counter[0]

    def split_stores(stmts):
        out = []
        for st in stmts:
            if isinstance(st, ast.Assign) and len(st.targets) == 1 and isinstance(st.targets[0], ast.Tuple) \
                    and isinstance(st.value, ast.Tuple) and len(st.value.elts) == len(st.targets[0].elts) \
                    and any(isinstance(t, ast.Subscript) for t in st.targets[0].elts) \
                    and all(isinstance(t, (ast.Subscript, ast.Name)) for t in st.targets[0].elts):
                tmps = [fresh_tmp() for _ in st.value.elts]
                if any(t in scope for t in tmps):
                    out.append(st)
                    continue
                notes.add('H9 tuple assignment to store places')
                for t, e in zip(tmps, st.value.elts):
                    out.append(ast.copy_location(ast.Assign(
                        targets=[ast.copy_location(ast.Name(id=t, ctx=ast.Store()), st)], value=e), st))
                for t, tg in zip(tmps, st.targets[0].elts):
                    out.append(ast.copy_location(ast.Assign(
                        targets=[tg], value=ast.copy_location(ast.Name(id=t, ctx=ast.Load()), st)), st))
                continue
            val = st.value if isinstance(st, (ast.Return, ast.Assign)) else None
            if isinstance(val, ast.Subscript) and isinstance(val.value, ast.Call) \
                    and isinstance(val.value.func, ast.Attribute) and isinstance(val.value.func.value, ast.Name) \
                    and val.value.func.value.id == self_name:
                t = fresh_tmp()
                if t not in scope:
                    notes.add('H10 item of a method call result')
                    out.append(ast.copy_location(ast.Assign(
                        targets=[ast.copy_location(ast.Name(id=t, ctx=ast.Store()), st)], value=val.value), st))
                    val.value = ast.copy_location(ast.Name(id=t, ctx=ast.Load()), st)
            out.append(st)
        return out
    new.body = _map_blocks(new.body, split_stores)

    # H6 ------------------------------------------------------------------------------------------

    def untuple(stmts):
        out = []
        for st in stmts:
            if isinstance(st, ast.Assign) and len(st.targets) == 1 and isinstance(st.targets[0], (ast.Tuple, ast.List)) \
                    and all(isinstance(e, ast.Name) for e in st.targets[0].elts) and isinstance(st.value, ast.Call):
                tmp = fresh_tmp()
                if tmp in scope:
                    out.append(st)
                    continue
                notes.add('H6 unpacking of a call result')
                out.append(ast.copy_location(ast.Assign(
                    targets=[ast.copy_location(ast.Name(id=tmp, ctx=ast.Store()), st)], value=st.value), st))
                out.append(ast.copy_location(ast.Assign(
                    targets=st.targets, value=ast.copy_location(ast.Name(id=tmp, ctx=ast.Load()), st)), st))
            else:
                out.append(st)
        return out
    if cls.get('backend'):
        new.body = _map_blocks(new.body, untuple)

    # H8 ------------------------------------------------------------------------------------------
    # a local bound ONCE to a declared dict attribute, in a method that calls no method of self and never assigns that
    # attribute, IS that attribute
    st_count = _stores(new)
    calls_self = any(isinstance(n, ast.Call) and isinstance(n.func, ast.Attribute) and isinstance(n.func.value, ast.Name)
                     and n.func.value.id == self_name for n in ast.walk(new))
    for bind in list(new.body):
        if isinstance(bind, ast.Assign) and len(bind.targets) == 1 and isinstance(bind.targets[0], ast.Name) \
                and st_count.get(bind.targets[0].id) == 1 and _is_self_attr(bind.value, self_name, declared0) \
                and str(cls['state'][bind.value.attr]).startswith('Dict') and not calls_self:
            x, attr = bind.targets[0].id, bind.value.attr
            assigned = any(isinstance(n, ast.Attribute) and isinstance(n.ctx, (ast.Store, ast.Del))
                           and _is_self_attr(n, self_name, {attr}) for n in ast.walk(new))
            early = any(isinstance(n, ast.Name) and n.id == x and isinstance(n.ctx, ast.Load)
                        and (n.lineno, n.col_offset) <= (bind.lineno, bind.col_offset) for n in ast.walk(new))
            if assigned or early:
                continue

            class Sub(ast.NodeTransformer):
                def visit_Name(self, n):
                    if n.id == x and isinstance(n.ctx, ast.Load):
                        return ast.copy_location(ast.Attribute(
                            value=ast.copy_location(ast.Name(id=self_name, ctx=ast.Load()), n), attr=attr,
                            ctx=ast.Load()), n)
                    return n
            new.body = [Sub().visit(st) for st in new.body if st is not bind]
            notes.add('H8 local %s is self.%s' % (x, attr))

    # H5 ------------------------------------------------------------------------------------------
    stores = _stores(new)

    def pos(n):
        return (n.lineno, n.col_offset)
    aliases = {}
    body = []
    for st in new.body:
        if isinstance(st, ast.Assign) and len(st.targets) == 1 and isinstance(st.targets[0], ast.Name) \
                and _is_self_attr(st.value, self_name) and stores.get(st.targets[0].id) == 1 \
                and st.targets[0].id != self_name and st.value.attr not in declared:
            aliases[st.targets[0].id] = (st.value.attr, pos(st))
        else:
            body.append(st)
    if aliases:
        ok = True
        call_funcs = set()
        probe = ast.Module(body=body, type_ignores=[])
        for n in ast.walk(probe):
            if isinstance(n, ast.Call) and isinstance(n.func, ast.Name) and n.func.id in aliases:
                if pos(n) <= aliases[n.func.id][1]:
                    ok = False
                call_funcs.add(id(n.func))
        for n in ast.walk(probe):
            if isinstance(n, ast.Name) and n.id in aliases and id(n) not in call_funcs:
                ok = False
        if ok:
            class Expand(ast.NodeTransformer):
                def visit_Call(self, n):
                    self.generic_visit(n)
                    if isinstance(n.func, ast.Name) and n.func.id in aliases:
                        f = ast.Attribute(value=ast.copy_location(ast.Name(id=self_name, ctx=ast.Load()), n.func),
                                          attr=aliases[n.func.id][0], ctx=ast.Load())
                        n.func = ast.copy_location(f, n.func)
                    return n
            new.body = [Expand().visit(st) for st in body] or [ast.copy_location(ast.Pass(), new)]
            for a, (m, _) in sorted(aliases.items()):
                notes.add('H5 bound method %s = self.%s' % (a, m))
    ast.fix_missing_locations(new)
    return new
