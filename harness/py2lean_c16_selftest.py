"""Self-test of harness/py2lean_c16.py: CPython vs the generated Lean definitions.

For every translated function of property C16 (and a few snippets exercising the constructs of the subset beyond what
boltons uses today) random argument tuples are run through the REAL function of the repo under test (real
ParsedException / Callpoint / TracebackInfo objects, real `_DeferredLine`s reading a pinned linecache entry) and through
the generated definition (scratch Lean driver, `lean --run`); outputs must agree code point for code point.  Snippets
outside the subset must be refused.  Same contract as py2lean_selftest.run: -> (number of mismatches, report).
"""
import importlib
import linecache
import os
import random
import shutil
import subprocess
import sys
import tempfile
import time
import types

HERE = os.path.dirname(os.path.abspath(__file__))
if HERE not in sys.path:
    sys.path.insert(0, HERE)
from bv import common          # noqa: E402
import srctie_specs            # noqa: E402
import py2lean_c16 as T        # noqa: E402

ALPHA = ['a', 'b', 'Z', '0', '7', ' ', ' ', '"', ',', ':', '.', '/', '_', '^', '~', '\n', '\t', '\r', '\x1c', '\x85',
         '\u2028', '\u3000', 'é', '\u0660', '\U0001f600', '{', '}', "'", '\\', '<', '>']


def rstr(rng, lo=0, hi=8):
    return ''.join(rng.choice(ALPHA) for _ in range(rng.randint(lo, hi)))


def enc_s(s):
    return ','.join(str(ord(c)) for c in s) if s else '-'


def enc_os(s):
    return 'N' if s is None else 'S' + enc_s(s)


def dec_s(tok):
    return '' if tok == '-' else ''.join(chr(int(x)) for x in tok.split(','))


# ------------------------------------------------------------------ snippets: the subset beyond today's source
SNIPPET_SRC = '''
def sn_swap(a, b, n):
    x, y = a, b
    if n > 2:
        x, y = y, x
    else:
        y += x
    return '{}|{}|{}'.format(x, y, n - 1)


def sn_loop(words, sep):
    out = ''
    k = 0
    last = None
    for w in words:
        if w != last:
            out += sep if out else ''
            out += f'{w}{k}'
            last, k = w, k + 1
        elif not w:
            k -= 3
    if k >= 2 or not out:
        return out + '!'
    return out
'''
SNIPPET_SPECS = [
    {'qualname': 'sn_swap', 'lean_name': 'sn_swap', 'params': {'a': 'Str', 'b': 'Str', 'n': 'Int'}, 'result': 'Str',
     'tie_theorem': '-'},
    {'qualname': 'sn_loop', 'lean_name': 'sn_loop', 'params': {'words': 'List Str', 'sep': 'Str'}, 'result': 'Str',
     'locals': {'last': 'Option Str'}, 'tie_theorem': '-'},
]

REJECT = {
    'while': 'def f(a):\n    while a:\n        a = a\n    return a\n',
    'format_spec': "def f(n):\n    return '{:d}'.format(n)\n",
    'format_index': "def f(n):\n    return '{0}'.format(n)\n",
    'fstring_conv': "def f(a):\n    return f'{a!r}'\n",
    'break_in_for': "def f(xs):\n    out = ''\n    for x in xs:\n        out += x\n        break\n    return out\n",
    'return_in_for': "def f(xs):\n    out = ''\n    for x in xs:\n        out += x\n        return out\n    return out\n",
    'unknown_key': "def f(d):\n    return d['path']\n",
    'unknown_attr': "def f(c):\n    return c.module_name\n",
    'no_return': "def f(a):\n    a += a\n",
    'percent_format': "def f(a):\n    return '%s' % a\n",
    'mixed_add': "def f(a, n):\n    return a + n\n",
    'undeclared_none': "def f(a):\n    x = None\n    return a\n",
    'try': "def f(a):\n    try:\n        a += a\n    except Exception:\n        a = a\n    return a\n",
    'str_of_object': "def f(o):\n    return str(o)\n",
    'try_assign': "def f(o):\n    try:\n        x = str(o)\n    except Exception:\n        x = ''\n    return x\n",
    'try_narrow_handler': "def f(o):\n    try:\n        return str(o)\n    except ValueError:\n        pass\n    return ''\n",
    'try_finally': "def f(o):\n    try:\n        return str(o)\n    except Exception:\n        pass\n    finally:\n        pass\n    return ''\n",
    'add_option_str': "def f(e):\n    m = e.__module__\n    return m + '.'\n",
    'kwargs_call': "def f(a):\n    return '{}'.format(a, x=a)\n",
    'default_param': "def f(a=''):\n    return a\n",
}
REJECT_TYPES = {'e': 'ExcType', 'o': 'StrObj', 'a': 'Str', 'n': 'Int', 'xs': 'List Str', 'd': 'FrameD', 'c': 'Callpoint'}


def reject_tests(verbose):
    import ast
    bad = []
    for name, src in REJECT.items():
        fdef = ast.parse(src).body[0]
        spec = {'qualname': 'f', 'lean_name': 'f', 'result': 'Str', 'tie_theorem': '-',
                'params': {a.arg: REJECT_TYPES[a.arg] for a in fdef.args.args}}
        _text, infos = T.translate_source(src, [spec], 'snippets', 'snippets')
        if not infos[0].get('error'):
            bad.append(name)
        elif verbose:
            print('refused %-16s %s' % (name, infos[0]['error']))
    return bad


# ------------------------------------------------------------------ argument families
def frame_dicts(rng):
    out = []
    for _ in range(rng.choice([0, 0, 1, 1, 2, 3, 5])):
        d = {'filepath': rstr(rng, 0, 10), 'lineno': rng.choice([str(rng.randint(0, 9999)), rstr(rng, 0, 3)]),
             'funcname': rstr(rng, 0, 8)}
        k = rng.randint(0, 3)
        if k == 1:
            d['source_line'] = ''
        elif k >= 2:
            d['source_line'] = rstr(rng, 1, 12)
        out.append(d)
    return out


def callpoints(rng):
    """[(path, lineno, func, raw line)] with runs of equal sites"""
    out = []
    for _ in range(rng.choice([0, 1, 2, 3, 4, 6])):
        site = (rstr(rng, 0, 6), rng.choice([0, 1, 7, 12, 345, 10 ** 6]), rstr(rng, 0, 5))
        for _ in range(rng.choice([1, 1, 1, 2, 3, 4, 5, 7])):
            raw = rng.choice(['', '', '  x = 1\n', '\n', '   \t\n', rstr(rng, 0, 10), ' ' + rstr(rng, 1, 6) + ' \n'])
            out.append(site + (raw,))
            if rng.random() < 0.15:      # same file and line, other function (or other line): not the same site
                out.append((site[0], site[1] + rng.choice([0, 1]), site[2] + rng.choice(['', 'x']), raw))
    return out


_DL_COUNT = [0]
_EXC_KINDS = [ValueError, KeyError, RuntimeError, TypeError, ZeroDivisionError, UnicodeError, Exception]


def rng_exc():
    _DL_COUNT[0] += 1
    return _EXC_KINDS[_DL_COUNT[0] % len(_EXC_KINDS)]('str failed')


def real_callpoint(mod, cp):
    path, lineno, func, raw = cp
    _DL_COUNT[0] += 1
    key = '/c16-selftest/%d.py' % _DL_COUNT[0]
    linecache.cache[key] = (len(raw), None, [raw], key)          # a complete entry without mtime: never revalidated
    return mod.Callpoint('m', path, func, lineno, 0, line=mod._DeferredLine(key, 1)), key


def cases_for(spec, rng, quick):
    n = 150 if quick else 3000
    q = spec['qualname']
    for _ in range(n):
        if q == 'ParsedException.to_string':
            yield {'frames': frame_dicts(rng), 'exc_type': rstr(rng, 0, 8), 'exc_msg': rng.choice(['', rstr(rng, 0, 9)])}
        elif q == '_repeated_line_note':
            yield {'count': rng.choice([rng.randint(-5, 12), rng.randint(-10 ** 6, 10 ** 12)])}
        elif q == 'Callpoint.tb_frame_str':
            cps = callpoints(rng)
            yield {'cp': cps[0] if cps else ('', 0, '', '')}
        elif q == 'TracebackInfo.get_formatted':
            yield {'frames': callpoints(rng)}
        elif q == 'ExceptionInfo.get_formatted_exception_only':
            yield {'exc_type': rstr(rng, 0, 8), 'exc_msg': rng.choice(['', rstr(rng, 0, 9)])}
        elif q == 'ExceptionInfo.get_formatted':
            yield {'exc_type': rstr(rng, 0, 8), 'exc_msg': rng.choice(['', rstr(rng, 0, 9)]), 'frames': callpoints(rng)}
        elif q in ('ExceptionInfo.from_exc_info', 'format_exception_only'):
            yield {'module': rng.choice(['__main__', 'builtins', '', 'pkg.mod', '__main__x', 'Builtins', None, 5,
                                         rstr(rng, 0, 6)]),
                   'qualname': rng.choice(['E', 'Outer.Inner', 'f.<locals>.E', rstr(rng, 0, 6)])}
        elif q == '_some_str':
            yield {'value': rng.choice([None, None, '', rstr(rng, 0, 9)])}       # None: `__str__` raises
        elif q == 'sn_swap':
            yield {'a': rstr(rng, 0, 4), 'b': rstr(rng, 0, 4), 'n': rng.randint(-3, 6)}
        elif q == 'sn_loop':
            ws = [rng.choice(['', 'a', 'b', 'ab']) for _ in range(rng.randint(0, 7))]
            yield {'words': ws, 'sep': rng.choice(['', ',', ', '])}
        else:
            raise common.InfraError('no argument family for %s' % q)


def encode(spec, case):
    q = spec['qualname']
    if q == 'ParsedException.to_string':
        toks = [str(len(case['frames']))]
        for d in case['frames']:
            toks += [enc_s(d['filepath']), enc_s(d['lineno']), enc_s(d['funcname']), enc_os(d.get('source_line'))]
        return toks + [enc_s(case['exc_type']), enc_s(case['exc_msg'])]
    if q == '_repeated_line_note':
        return [str(case['count'])]
    if q == 'Callpoint.tb_frame_str':
        p, ln, fn, raw = case['cp']
        return [enc_s(p), str(ln), enc_s(fn), enc_s(raw)]
    if q == 'TracebackInfo.get_formatted':
        toks = [str(len(case['frames']))]
        for p, ln, fn, raw in case['frames']:
            toks += [enc_s(p), str(ln), enc_s(fn), enc_s(raw)]
        return toks
    if q == 'ExceptionInfo.get_formatted_exception_only':
        return [enc_s(case['exc_type']), enc_s(case['exc_msg'])]
    if q == 'ExceptionInfo.get_formatted':
        toks = [enc_s(case['exc_type']), enc_s(case['exc_msg']), str(len(case['frames']))]
        for p, ln, fn, raw in case['frames']:
            toks += [enc_s(p), str(ln), enc_s(fn), enc_s(raw)]
        return toks
    if q in ('ExceptionInfo.from_exc_info', 'format_exception_only'):
        return [enc_os(case['module'] if isinstance(case['module'], str) else None), enc_s(case['qualname'])]
    if q == '_some_str':
        return [enc_os(case['value'])]
    if q == 'sn_swap':
        return [enc_s(case['a']), enc_s(case['b']), str(case['n'])]
    if q == 'sn_loop':
        return [str(len(case['words']))] + [enc_s(w) for w in case['words']] + [enc_s(case['sep'])]
    raise common.InfraError(q)


def run_python(mod, sn_mod, spec, case):
    q = spec['qualname']
    keys = []
    try:
        if q == 'ParsedException.to_string':
            pe = mod.ParsedException(case['exc_type'], case['exc_msg'], [dict(d) for d in case['frames']])
            return pe.to_string()
        if q == '_repeated_line_note':
            return mod._repeated_line_note(case['count'])
        if q == 'Callpoint.tb_frame_str':
            cp, k = real_callpoint(mod, case['cp'])
            keys.append(k)
            return cp.tb_frame_str()
        if q == 'TracebackInfo.get_formatted':
            cps = []
            for c in case['frames']:
                cp, k = real_callpoint(mod, c)
                keys.append(k)
                cps.append(cp)
            return mod.TracebackInfo(cps).get_formatted()
        if q == 'ExceptionInfo.get_formatted_exception_only':
            return mod.ExceptionInfo(case['exc_type'], case['exc_msg'], mod.TracebackInfo([])).get_formatted_exception_only()
        if q == 'ExceptionInfo.get_formatted':
            cps = []
            for c in case['frames']:
                cp, k = real_callpoint(mod, c)
                keys.append(k)
                cps.append(cp)
            return mod.ExceptionInfo(case['exc_type'], case['exc_msg'], mod.TracebackInfo(cps)).get_formatted()
        if q == 'ExceptionInfo.from_exc_info':
            # a real class with these `__module__` / `__qualname__`, a real raised and caught instance of it
            cls = type('E', (Exception,), {})
            cls.__module__ = case['module']
            cls.__qualname__ = case['qualname']
            try:
                raise cls('x')
            except cls:
                return mod.ExceptionInfo.from_exc_info(*sys.exc_info()).exc_type
        if q == 'format_exception_only':
            # the display name is what precedes ': x\n' in the one line format_exception_only returns
            cls = type('E', (Exception,), {})
            cls.__module__ = case['module']
            cls.__qualname__ = case['qualname']
            out = mod.format_exception_only(cls, cls('x'))
            if len(out) != 1 or not out[0].endswith(': x\n'):
                return 'UNEXPECTED %r' % (out,)
            return out[0][:-len(': x\n')]
        if q == '_some_str':
            class Obj:
                def __str__(self_):
                    if case['value'] is None:
                        raise rng_exc()
                    return case['value']
            return mod._some_str(Obj())
        return getattr(sn_mod, q)(**case)
    except Exception as e:       # the generated definitions are total: a raise is a mismatch
        return 'RAISED %r' % (e,)
    finally:
        for k in keys:
            linecache.cache.pop(k, None)


DRIVER = r'''
set_option linter.unusedVariables false
open PyRtC16

def decS (t : String) : Option Str :=
  if t = "-" then some [] else (t.splitOn ",").mapM fun x => x.toNat?.map Char.ofNat
def decOS (t : String) : Option (Option Str) :=
  if t = "N" then some none else if t.startsWith "S" then (decS (t.drop 1).toString).map some else none
def encS (s : Str) : String := if s.isEmpty then "-" else ",".intercalate (s.map fun c => toString c.toNat)

def takeFrames : Nat → List String → Option (List FrameD × List String)
  | 0, r => some ([], r)
  | n + 1, a :: b :: c :: d :: r => do
    let fd : FrameD := ⟨← decS a, ← decS b, ← decS c, ← decOS d⟩
    let (fs, r) ← takeFrames n r
    some (fd :: fs, r)
  | _, _ => none

def takeCps : Nat → List String → Option (List Callpoint × List String)
  | 0, r => some ([], r)
  | n + 1, a :: b :: c :: d :: r => do
    let cp : Callpoint := ⟨← decS a, ← b.toNat?, ← decS c, ← decS d⟩
    let (fs, r) ← takeCps n r
    some (cp :: fs, r)
  | _, _ => none

def takeStrs : Nat → List String → Option (List Str × List String)
  | 0, r => some ([], r)
  | n + 1, a :: r => do
    let (fs, r) ← takeStrs n r
    some ((← decS a) :: fs, r)
  | _, _ => none

def runLine (toks : List String) : Option Str :=
  match toks with
%s  | _ => none

def main : IO Unit := do
  let stdin ← IO.getStdin
  let stdout ← IO.getStdout
  repeat
    let line ← stdin.getLine
    if line.isEmpty then break
    let toks := (line.trimRight.splitOn " ").filter (· ≠ "")
    match runLine toks with
    | some r => stdout.putStrLn ("R " ++ encS r)
    | none => stdout.putStrLn "R bad"
'''

ARMS = {
    'ParsedException.to_string': '''  | "%d" :: n :: r => do
    let (fs, r) ← takeFrames (← n.toNat?) r
    match r with
    | [a, b] => some (Src.%s.%s fs (← decS a) (← decS b))
    | _ => none
''',
    '_repeated_line_note': '''  | ["%d", n] => do some (Src.%s.%s (← n.toInt?))
''',
    'Callpoint.tb_frame_str': '''  | ["%d", a, b, c, d] => do some (Src.%s.%s ⟨← decS a, ← b.toNat?, ← decS c, ← decS d⟩)
''',
    'TracebackInfo.get_formatted': '''  | "%d" :: n :: r => do
    let (fs, r) ← takeCps (← n.toNat?) r
    if r.isEmpty then some (Src.%s.%s fs) else none
''',
    'ExceptionInfo.get_formatted_exception_only': '''  | ["%d", a, b] => do some (Src.%s.%s (← decS a) (← decS b))
''',
    'ExceptionInfo.get_formatted': '''  | "%d" :: a :: b :: n :: r => do
    let (fs, r) ← takeCps (← n.toNat?) r
    if r.isEmpty then some (Src.%s.%s (← decS a) (← decS b) fs) else none
''',
    'ExceptionInfo.from_exc_info': '''  | ["%d", m, q] => do some (Src.%s.%s ⟨← decOS m, ← decS q⟩)
''',
    'format_exception_only': '''  | ["%d", m, q] => do some (Src.%s.%s ⟨← decOS m, ← decS q⟩)
''',
    '_some_str': '''  | ["%d", v] => do some (Src.%s.%s ⟨← decOS v⟩)
''',
    'sn_swap': '''  | ["%d", a, b, n] => do some (Src.%s.%s (← decS a) (← decS b) (← n.toInt?))
''',
    'sn_loop': '''  | "%d" :: n :: r => do
    let (ws, r) ← takeStrs (← n.toNat?) r
    match r with
    | [s] => some (Src.%s.%s ws (← decS s))
    | _ => none
''',
}


def build_driver(texts, fns):
    body = []
    for t in texts:
        lines = [ln for ln in t.split('\n') if not ln.startswith('import ')]
        body.append('\n'.join(lines))
    arms = ''.join(ARMS[spec['qualname']] % (k, short, spec['lean_name']) for k, (spec, short) in enumerate(fns))
    return 'import BoltonsVerif.PyRtC16\n\n' + '\n'.join(body) + DRIVER % arms


def run(pids, quick=False, seed=0, verbose=True):
    common.ensure_repo_on_path()
    t0 = time.time()
    specs = [sp for pid in pids for sp in srctie_specs.SPECS.get(pid, []) if sp.get('translator') == 'py2lean_c16']
    module_name = specs[0]['module']
    mod = importlib.import_module(module_name)
    gen_text, infos = T.translate_module(module_name, specs, common.REPO)
    bad = [i for i in infos if i.get('error')]
    ok_specs = [sp for sp, i in zip(specs, infos) if not i.get('error')]     # the refused ones are reported by the check
    sn_text, sn_infos = T.translate_source(SNIPPET_SRC, SNIPPET_SPECS, 'snippets', 'snippets')
    for i in sn_infos:
        if i.get('error'):
            raise common.InfraError('snippet not translated: %s: %s' % (i['function'], i['error']))
    sn_mod = types.ModuleType('c16_snippets')
    exec(compile(SNIPPET_SRC, 'c16_snippets', 'exec'), sn_mod.__dict__)
    rng = random.Random('py2lean-c16-selftest-%d' % seed)
    short = module_name.split('.')[-1]
    fns = [(sp, short) for sp in ok_specs] + [(sp, 'snippets') for sp in SNIPPET_SPECS]
    lines, meta = [], []
    for k, (spec, _s) in enumerate(fns):
        for case in cases_for(spec, rng, quick):
            lines.append(' '.join([str(k)] + encode(spec, case)))
            meta.append((spec, case))
    tmp = tempfile.mkdtemp(prefix='py2lean-c16-selftest-')
    try:
        with common.BuildLock():
            rc, out = common._run(['lake', 'build', 'BoltonsVerif.PyRtC16'])
        if rc != 0:
            raise common.InfraError('cannot build BoltonsVerif.PyRtC16: ' + out[-500:])
        drv = os.path.join(tmp, 'C16SelfTest.lean')
        with open(drv, 'w') as fh:
            fh.write(build_driver([gen_text, sn_text], fns))
        t1 = time.time()
        p = subprocess.run(['lake', 'env', 'lean', '--run', drv], cwd=common.LEAN, input='\n'.join(lines) + '\n',
                           stdout=subprocess.PIPE, stderr=subprocess.STDOUT, text=True, timeout=1800)
        t_lean = time.time() - t1
    finally:
        shutil.rmtree(tmp, ignore_errors=True)
    outs = [ln[2:] for ln in p.stdout.split('\n') if ln.startswith('R ')]
    if p.returncode != 0 or len(outs) != len(lines):
        raise common.InfraError('c16 scratch driver failed (rc %s, %d lines for %d inputs): %s' % (
            p.returncode, len(outs), len(lines), p.stdout[-1500:]))
    report, mismatches = {}, []
    for (spec, case), got in zip(meta, outs):
        r = report.setdefault(spec['lean_name'], {'cases': 0, 'compared': 0, 'mismatches': 0})
        r['cases'] += 1
        if got == 'bad':
            raise common.InfraError('driver rejected a line for %r' % (case,))
        want = run_python(mod, sn_mod, spec, case)
        r['compared'] += 1
        if want != dec_s(got):
            r['mismatches'] += 1
            mismatches.append((spec['lean_name'], case, 'Python %r but Lean %r' % (want, dec_s(got))))
    for name in reject_tests(verbose):
        mismatches.append(('reject', {}, 'snippet outside the subset was translated: ' + name))
    report['_mismatches'] = [{'function': nm, 'case': repr(c), 'what': b} for nm, c, b in mismatches[:5]]
    report['_wall_s'] = round(time.time() - t0, 2)
    report['_lean_s'] = round(t_lean, 2)
    report['_rejected_snippets'] = len(REJECT)
    if verbose:
        for name, r in report.items():
            print(name, r)
        for name, case, b in mismatches[:10]:
            print('MISMATCH %s %r: %s' % (name, case, b))
        for i in bad:
            print('NOT TRANSLATED', i['function'], i['error'])
    return len(mismatches), report


if __name__ == '__main__':
    n, rep = run(['C16'], quick='--quick' in sys.argv, seed=0, verbose=True)
    sys.exit(1 if n else 0)
