"""py2lean_c09 - source translator of the C09 tie: the list helpers of boltons/iterutils.py (chunked_iter, unique_iter,
bucketize, split_iter, ...) -> Lean 4 definitions over lists of an ABSTRACT element type.

Specification: notes/SRCTIE.md section 8 (trusted).  In short:

* a NORMALISING FRONT-END by partial evaluation: the spec declares the KIND of some parameters (`kinds`: 'list',
  'callable', 'none', 'value'); tests that only ask about the kind of such a name (`X is None`, `callable(X)`,
  `isinstance(X, T)`, `is_iterable(X)`, `is_scalar(X)`) are decided at translation time and the dead branch is dropped.
  The self-test calls the REAL function with objects of the declared kinds, so a wrong kind table shows up there.
* what remains must be inside a small statement language (assignments, `if`, ONE `for` over a list or ONE `while` with
  fuel, `yield`, `return`, `raise`, `continue`, `break`, nested one-line `def`s as lambdas, a few recognised statement
  idioms: `X = list(itertools.islice(IT, N))`, `X[i:] = e`, `X.append(e)`, `S.add(e)`, `D.setdefault(K, []).append(V)`,
  `try: X = kw.pop('<name>') except KeyError: ...`, `X = <translated helper>(...)`).  Everything else: Unsupported
  (the function is NOT TRANSLATED and its tie theorem stops checking) - never a guess.
* the result is what `list(<generator>)` / the call observes: `Except PyRtC09.Err <result>`.
"""
import ast
import builtins
import importlib
import inspect
import os

RT_IMPORT = 'PyRtC09'
RT = 'PyRtC09'
EXC = {'ValueError': 'valueError', 'TypeError': 'typeError', 'KeyError': 'keyError'}

# what the kind tests answer for an object of each declared kind
KIND_FACTS = {
    'list': {'callable': False, 'iterable': True, 'types': {'list'}, 'none': False},
    'callable': {'callable': True, 'iterable': False, 'types': set(), 'none': False},
    'none': {'callable': False, 'iterable': False, 'types': set(), 'none': True},
    'value': {'callable': False, 'iterable': False, 'types': set(), 'none': False},   # a non-iterable, non-callable item
}
KIND_SAMPLES = {
    'list': [[], [1, 2], [None]],
    'callable': [len, (lambda x: x), bool],
    'none': [None],
    'value': [object(), 3],
}
KNOWN_TYPES = {'list', 'str', 'bytes', 'tuple', 'dict', 'set', 'frozenset'}


class Unsupported(Exception):
    def __init__(self, node, why):
        ln = getattr(node, 'lineno', None)
        super().__init__('%s%s' % (why, ' (line %d)' % ln if ln else ''))


def ind(text, k=1):
    return '\n'.join(('  ' * k + ln) if ln else ln for ln in text.split('\n'))


def lean_ty(t):
    t = t.strip()
    if t.startswith('Set ') or t.startswith('Iter '):
        return 'List ' + t.split(' ', 1)[1]
    if t.startswith('Gen '):
        return 'Except %s.Err (List %s)' % (RT, paren(lean_ty(t.split(' ', 1)[1])))
    if t.startswith('Dict '):
        k, v = t[5:].split('|')
        return 'List (%s × %s)' % (k.strip(), lean_ty(v))
    if t.startswith('Fn '):
        d, c = t[3:].split('→', 1)
        return '%s → %s' % (paren(lean_ty(d)) if '→' in d else lean_ty(d), lean_ty(c))
    if t.startswith('KwFill '):
        return 'Option ' + t.split(' ', 1)[1]
    return t


def cls_of(t):
    t = t.strip()
    for p in ('Set', 'Iter', 'Dict', 'Fn', 'KwFill', 'List', 'Option', 'Gen'):
        if t.startswith(p + ' '):
            return p
    if t in ('Int', 'Bool', 'Msg'):
        return t
    return 'Elem'


def paren(ty):
    return '(%s)' % ty if ' ' in ty else ty


class Path:
    """what is known along one control-flow path: declared kinds and the names bound so far (in order)"""
    def __init__(self, kinds, scope, types):
        self.kinds, self.scope, self.types = dict(kinds), list(scope), dict(types)

    def copy(self):
        return Path(self.kinds, self.scope, self.types)

    def bind(self, name):
        if name not in self.scope:
            self.scope.append(name)


class FnTr:
    def __init__(self, fdef, spec, tree, by_py, mod=None):
        self.f, self.spec, self.tree, self.by_py, self.mod = fdef, spec, tree, by_py, mod
        self.name = spec['lean_name']
        self.gen = spec['kind'] == 'generator'
        self.decl = dict(spec.get('ops', {}))
        self.decl.update(spec['params'])
        self.decl.update(spec.get('locals', {}))
        self.loops = {}          # id(loop node) -> (def name, loop vars)
        self.defs = []           # texts of the loop definitions
        self.has_while = any(isinstance(n, ast.While) for n in ast.walk(fdef))
        self.needs_fuel = False
        self.tp = spec.get('tparams', [])
        self.binder = ''
        if self.tp:
            self.binder = '{%s : Type} ' % ' '.join(self.tp)
        self.binder += ''.join('[%s] ' % c for c in spec.get('classes', []))
        self.R = spec['result']

    # ------------------------------------------------------------------ kinds: partial evaluation of tests
    def pe(self, e, p):
        """True / False when the test is decided by the declared kinds, else None"""
        if isinstance(e, ast.Constant) and isinstance(e.value, bool):
            return e.value
        if isinstance(e, ast.UnaryOp) and isinstance(e.op, ast.Not):
            v = self.pe(e.operand, p)
            return None if v is None else (not v)
        if isinstance(e, ast.BoolOp):
            vs = [self.pe(x, p) for x in e.values]
            if isinstance(e.op, ast.And):
                # Python evaluates left to right: a False decides only if everything before it is decided
                for v in vs:
                    if v is None:
                        return None
                    if v is False:
                        return False
                return True
            for v in vs:
                if v is None:
                    return None
                if v is True:
                    return True
            return False
        if isinstance(e, ast.Compare) and len(e.ops) == 1 and isinstance(e.ops[0], (ast.Is, ast.IsNot)) \
                and isinstance(e.left, ast.Name) and isinstance(e.comparators[0], ast.Constant) \
                and e.comparators[0].value is None and e.left.id in p.kinds:
            v = KIND_FACTS[p.kinds[e.left.id]]['none']
            return v if isinstance(e.ops[0], ast.Is) else (not v)
        if isinstance(e, ast.Call) and isinstance(e.func, ast.Name) and not e.keywords:
            fn = e.func.id
            if fn in p.scope or fn in self.decl:
                return None
            # the kind tests are EVALUATED on sample objects of the declared kind: the builtins, and the predicates
            # of the module under test (`is_iterable`, `is_scalar`, `is_collection` as they are in THIS source)
            if fn in ('callable', 'is_iterable', 'is_scalar', 'is_collection') and len(e.args) == 1 \
                    and isinstance(e.args[0], ast.Name) and e.args[0].id in p.kinds:
                f = callable if fn == 'callable' else getattr(self.mod, fn, None)
                if f is None:
                    return None
                vals = {bool(f(x)) for x in KIND_SAMPLES[p.kinds[e.args[0].id]]}
                return vals.pop() if len(vals) == 1 else None
            if fn == 'isinstance' and len(e.args) == 2 and isinstance(e.args[0], ast.Name) and e.args[0].id in p.kinds:
                ts = e.args[1].elts if isinstance(e.args[1], ast.Tuple) else [e.args[1]]
                if all(isinstance(t, ast.Name) and t.id in KNOWN_TYPES and not hasattr(self.mod, t.id) for t in ts):
                    tt = tuple(getattr(builtins, t.id) for t in ts)
                    vals = {isinstance(x, tt) for x in KIND_SAMPLES[p.kinds[e.args[0].id]]}
                    return vals.pop() if len(vals) == 1 else None
        return None

    def simplify(self, e, p):
        """the test with the operands decided by the kinds folded away: True / False / an expression"""
        v = self.pe(e, p)
        if v is not None:
            return v
        if isinstance(e, ast.BoolOp):
            is_and = isinstance(e.op, ast.And)
            out = []
            for x in e.values:
                s = self.simplify(x, p)
                if s is True or s is False:
                    if s is (not is_and):       # `X or True` / `X and False`: decided once the operands before it ran
                        if not out:
                            return s
                        out.append(ast.Constant(s))     # keeps the evaluation of the earlier (pure) operands
                        break
                    continue                    # neutral operand
                out.append(s)
            if not out:
                return is_and
            return out[0] if len(out) == 1 else ast.BoolOp(e.op, out)
        if isinstance(e, ast.UnaryOp) and isinstance(e.op, ast.Not):
            s = self.simplify(e.operand, p)
            if s is True or s is False:
                return not s
            return ast.UnaryOp(ast.Not(), s)
        return e

    # ------------------------------------------------------------------ expressions
    def ty(self, name, p, node):
        t = p.types.get(name, self.decl.get(name))
        if t is None:
            raise Unsupported(node, 'name %s has no declared type' % name)
        return t

    def truthy(self, e, p):
        code, t = self.expr(e, p)
        c = cls_of(t)
        if c == 'Bool':
            return code
        if c in ('List', 'Set', 'Iter', 'Dict'):
            return '!(%s).isEmpty' % code
        if c in ('KwFill',):
            return '(%s).isSome' % code
        if c == 'Int':
            return 'decide (%s ≠ 0)' % code
        raise Unsupported(e, 'truth value of a %s' % t)

    def expr(self, e, p, expect=None):
        """-> (Lean term, type)"""
        if isinstance(e, ast.Name):
            if e.id not in p.scope:
                if p.kinds.get(e.id) == 'none':
                    raise Unsupported(e, '%s (declared None) is used at run time' % e.id)
                raise Unsupported(e, 'name %s may be unbound here, or is a global' % e.id)
            t = self.ty(e.id, p, e)
            if cls_of(t) == 'Msg':
                raise Unsupported(e, 'a message value is used outside a raise')
            return e.id, t
        if isinstance(e, ast.Constant):
            if isinstance(e.value, bool) and expect is not None and cls_of(expect) == 'Elem' \
                    and self.spec.get('ops', {}).get('pyTrue') == expect and self.spec['ops'].get('pyFalse') == expect:
                return ('pyTrue' if e.value else 'pyFalse'), expect     # the keys equal to True / False (declared)
            if isinstance(e.value, bool):
                return ('true' if e.value else 'false'), 'Bool'
            if isinstance(e.value, int):
                return '(%d : Int)' % e.value, 'Int'
            if e.value is None and expect is not None and cls_of(expect) == 'Elem':
                return '(%s.PyNone.none : %s)' % (RT, expect), expect      # None as an item value
            raise Unsupported(e, 'constant %r' % (e.value,))
        if isinstance(e, ast.List):
            if not e.elts:
                if expect is None:
                    raise Unsupported(e, 'empty list of unknown type')
                return '([] : %s)' % lean_ty(expect), expect
            it = None
            if expect is not None and cls_of(expect) == 'List':
                it = expect.split(' ', 1)[1]
            parts = [self.expr(x, p, it) for x in e.elts]
            return '[%s]' % ', '.join(c for c, _ in parts), 'List ' + paren(parts[0][1])
        if isinstance(e, ast.Dict) and not e.keys and expect is not None and cls_of(expect) == 'Dict':
            return '([] : %s)' % lean_ty(expect), expect
        if isinstance(e, ast.Call) and isinstance(e.func, ast.Name) and e.func.id == 'set' and not e.args \
                and 'set' not in p.scope and expect is not None and cls_of(expect) == 'Set':
            return '([] : %s)' % lean_ty(expect), expect
        if isinstance(e, ast.UnaryOp) and isinstance(e.op, ast.Not):
            return '!(%s)' % self.truthy(e.operand, p), 'Bool'
        if isinstance(e, ast.BoolOp):
            # the result is used as a truth value only (callers go through `truthy`); operands are pure
            q = p
            parts, close = [], 0
            op = ' && ' if isinstance(e.op, ast.And) else ' || '
            out = ''
            for i, x in enumerate(e.values):
                last = i == len(e.values) - 1
                if isinstance(e.op, ast.And) and not last and self._is_not_none(x) \
                        and cls_of(self.ty(x.left.id, q, x)) == 'Option':
                    # `N is not None and <rest>`: <rest> sees N as the payload
                    n = x.left.id
                    inner = self.ty(n, q, x).split(' ', 1)[1]
                    out += '(match %s with | none => false | some %s => ' % (n, n)
                    close += 1
                    q = q.copy()
                    q.types[n] = inner
                    continue
                out += self.truthy(x, q) + ('' if last else op)
            return '(' + out + ')' * close + ')', 'Bool'
        if isinstance(e, ast.Compare) and len(e.ops) == 1:
            op, a, b = e.ops[0], e.left, e.comparators[0]
            if isinstance(op, (ast.Is, ast.IsNot)) and isinstance(b, ast.Constant) and b.value is None \
                    and isinstance(a, ast.Name) and cls_of(self.ty(a.id, p, a)) == 'Option':
                return '(%s).%s' % (self.expr(a, p)[0], 'isNone' if isinstance(op, ast.Is) else 'isSome'), 'Bool'
            if isinstance(op, (ast.In, ast.NotIn)):
                ca, ta = self.expr(a, p)
                cb, tb = self.expr(b, p)
                if cls_of(tb) == 'Set' and tb.split(' ', 1)[1] == ta:
                    r = 'decide (%s ∈ %s)' % (ca, cb)
                elif cls_of(tb) == 'Dict' and tb[5:].split('|')[0].strip() == ta:
                    r = '(%s.dictGet? %s %s).isSome' % (RT, ca, cb)
                else:
                    raise Unsupported(e, '`in` on a %s' % tb)
                return (r if isinstance(op, ast.In) else '!(%s)' % r), 'Bool'
            ops = self.spec.get('ops', {})
            if isinstance(op, ast.Eq) and isinstance(b, ast.Name) and b.id not in p.scope and p.kinds.get(b.id) == 'none' \
                    and 'isNone' in ops:
                ca, ta = self.expr(a, p)
                if cls_of(ta) == 'Elem':
                    return '(isNone %s)' % ca, 'Bool'       # Python `x == None` on items: the declared operation
            ca, ta = self.expr(a, p)
            cb, tb = self.expr(b, p, ta)
            sym = {ast.Lt: '<', ast.LtE: '≤', ast.Gt: '>', ast.GtE: '≥', ast.Eq: '=', ast.NotEq: '≠'}.get(type(op))
            if sym and ta == 'Int' and tb == 'Int':
                return 'decide (%s %s %s)' % (ca, sym, cb), 'Bool'
            if isinstance(op, ast.Eq) and cls_of(ta) == 'Elem' and ta == tb and 'eqv' in self.spec.get('ops', {}):
                return '(eqv %s %s)' % (ca, cb), 'Bool'         # Python `==` on items: the declared operation
            if isinstance(op, ast.NotEq) and cls_of(ta) == 'Elem' and ta == tb and 'eqv' in self.spec.get('ops', {}):
                return '(!(eqv %s %s))' % (ca, cb), 'Bool'      # `!=` on items: the negation of the declared `==`
            raise Unsupported(e, 'comparison of %s and %s' % (ta, tb))
        if isinstance(e, ast.BinOp):
            if isinstance(e.op, ast.Mult) and isinstance(e.left, ast.List) and len(e.left.elts) == 1:
                ca, ta = self.expr(e.left.elts[0], p)
                cb, tb = self.expr(e.right, p)
                if tb == 'Int':
                    return '(%s.repeatItem %s %s)' % (RT, ca, cb), 'List ' + paren(ta)
            ca, ta = self.expr(e.left, p)
            cb, tb = self.expr(e.right, p)
            sym = {ast.Add: '+', ast.Sub: '-', ast.Mult: '*'}.get(type(e.op))
            if sym and ta == 'Int' and tb == 'Int':
                return '(%s %s %s)' % (ca, sym, cb), 'Int'
            raise Unsupported(e, 'binary operation on %s and %s' % (ta, tb))
        if isinstance(e, ast.Call) and isinstance(e.func, ast.Attribute) and e.func.attr == 'get' and not e.keywords \
                and len(e.args) == 2 and isinstance(e.args[1], ast.List) and not e.args[1].elts \
                and isinstance(e.func.value, ast.Name):
            cd, td = self.expr(e.func.value, p)
            if cls_of(td) == 'Dict':
                kt, vt = [x.strip() for x in td[5:].split('|')]
                ck, tk = self.expr(e.args[0], p, kt)
                if tk == kt and cls_of(vt) == 'List':
                    return '((%s.dictGet? %s %s).getD [])' % (RT, ck, cd), vt
        if isinstance(e, ast.Call) and isinstance(e.func, ast.Name) and not e.keywords:
            fn = e.func.id
            if fn in p.scope:
                t = self.ty(fn, p, e)
                if cls_of(t) == 'Fn' and len(e.args) == 1:
                    d, c = [x.strip() for x in t[3:].split('→')]
                    ca, ta = self.expr(e.args[0], p, d)
                    if ta != d:
                        raise Unsupported(e, '%s applied to a %s' % (fn, ta))
                    return '(%s %s)' % (fn, ca), c
                raise Unsupported(e, 'call of %s' % fn)
            if fn == 'len' and len(e.args) == 1:
                ca, ta = self.expr(e.args[0], p)
                if cls_of(ta) == 'List':
                    return '(%s.len %s)' % (RT, ca), 'Int'
            if fn == 'int' and len(e.args) == 1:
                ca, ta = self.expr(e.args[0], p)
                if ta == 'Int':
                    return ca, 'Int'                # int() of an int
            if fn == 'iter' and len(e.args) == 1:
                ca, ta = self.expr(e.args[0], p)
                if cls_of(ta) == 'List':
                    return ca, 'Iter ' + ta.split(' ', 1)[1]
        raise Unsupported(e, 'expression outside the subset: %s' % ast.dump(e)[:80])

    @staticmethod
    def _is_not_none(x):
        return isinstance(x, ast.Compare) and len(x.ops) == 1 and isinstance(x.ops[0], ast.IsNot) \
            and isinstance(x.left, ast.Name) and isinstance(x.comparators[0], ast.Constant) \
            and x.comparators[0].value is None

    # ------------------------------------------------------------------ statements (continuation-passing)
    def let(self, name, code, t, p, node):
        d = self.ty(name, p, node)
        if lean_ty(d) != lean_ty(t):
            raise Unsupported(node, '%s is declared %s, assigned a %s' % (name, d, t))
        p.bind(name)
        return 'let %s : %s := %s\n' % (name, lean_ty(d), code)

    def block(self, stmts, p, loop):
        """Lean term (type Except Err <result>) of the statement list followed by the end of the function / loop body.
        `loop` = None or (continue term builder, after-loop statements)"""
        if not stmts:
            if loop is not None:
                return loop[0](p)
            if self.gen:
                return '.ok []'
            raise Unsupported(self.f, 'the function may fall off its end (returns None)')
        s, rest = stmts[0], stmts[1:]
        if isinstance(s, ast.Expr) and isinstance(s.value, ast.Constant) and isinstance(s.value.value, str):
            return self.block(rest, p, loop)
        if isinstance(s, ast.Pass):
            return self.block(rest, p, loop)
        if isinstance(s, ast.Raise):
            exc = s.exc.func if isinstance(s.exc, ast.Call) else s.exc
            if isinstance(exc, ast.Name) and exc.id in EXC and exc.id not in p.scope:
                return '.error .%s' % EXC[exc.id]
            raise Unsupported(s, 'raise of something else than ValueError / TypeError / KeyError')
        if isinstance(s, ast.Return):
            if self.gen:
                if s.value is not None:
                    raise Unsupported(s, 'return with a value in a generator')
                return '.ok []'
            if s.value is None:
                raise Unsupported(s, 'bare return in a function')
            sv = s.value
            if isinstance(sv, ast.Call) and isinstance(sv.func, ast.Name) and sv.func.id == 'list' \
                    and 'list' not in p.scope and len(sv.args) == 1 and not sv.keywords \
                    and self.gen_term(sv.args[0], p) is not None:
                term, r = self.gen_term(sv.args[0], p)       # `return list(<generator>)`: what the generator observes
                if lean_ty(self.R) not in ('List ' + lean_ty(r), 'List ' + paren(lean_ty(r))):
                    raise Unsupported(s, 'returns a list of %s, declared %s' % (r, self.R))
                return term
            if isinstance(s.value, ast.Tuple):
                parts = [self.expr(x, p) for x in s.value.elts]
                code, t = '(%s)' % ', '.join(c for c, _ in parts), ' × '.join(paren(lean_ty(t)) for _, t in parts)
            else:
                code, t = self.expr(s.value, p, self.R)
            if lean_ty(t) != lean_ty(self.R):
                raise Unsupported(s, 'returns a %s, declared %s' % (t, self.R))
            return '.ok %s' % code
        if isinstance(s, ast.Continue) and loop is not None:
            return loop[0](p)
        if isinstance(s, ast.Break) and loop is not None:
            pb = p.copy()
            pb.scope = [v for v in p.scope if v in loop[2]]      # names bound in the body are dropped (conservative)
            return self.block(loop[1], pb, None)
        if isinstance(s, ast.Expr) and isinstance(s.value, ast.Yield) and self.gen and s.value.value is not None:
            code, t = self.expr(s.value.value, p, self.R)
            if lean_ty(t) != lean_ty(self.R):
                raise Unsupported(s, 'yields a %s, declared %s' % (t, self.R))
            return '%s.yieldThen %s (\n%s)' % (RT, code, ind(self.block(rest, p, loop)))
        if isinstance(s, ast.If):
            v = self.simplify(s.test, p)
            if v is True:
                return self.block(s.body + rest, p, loop)
            if v is False:
                return self.block(s.orelse + rest, p, loop)
            if self._is_not_none(v) and not s.orelse and len(s.body) == 1 and isinstance(s.body[0], ast.Assign) \
                    and ast.dump(s.body[0].targets[0]) == ast.dump(ast.Name(v.left.id, ast.Store())) \
                    and ast.dump(s.body[0].value) == ast.dump(ast.Call(ast.Name('int', ast.Load()),
                                                                       [ast.Name(v.left.id, ast.Load())], [])) \
                    and self.ty(v.left.id, p, s) == 'Option Int' and 'int' not in p.scope:
                return self.block(rest, p, loop)       # `if N is not None: N = int(N)` with N an int or None: no-op
            c = self.truthy(v, p)
            return 'if %s then\n%s\nelse\n%s' % (c, ind(self.block(s.body + rest, p.copy(), loop)),
                                                 ind(self.block(s.orelse + rest, p.copy(), loop)))
        if isinstance(s, ast.FunctionDef):
            return self.nested_def(s, p) + self.block(rest, p, loop)
        if isinstance(s, ast.Try):
            return self.try_pop(s, rest, p, loop)
        if isinstance(s, ast.AugAssign) and isinstance(s.target, ast.Name):
            e = ast.BinOp(ast.Name(s.target.id, ast.Load()), s.op, s.value)
            code, t = self.expr(e, p)
            p.kinds.pop(s.target.id, None)
            return self.let(s.target.id, code, t, p, s) + self.block(rest, p, loop)
        if isinstance(s, ast.Assign) and len(s.targets) == 1:
            tg = s.targets[0]
            if isinstance(tg, ast.Name):
                return self.assign(tg.id, s, rest, p, loop)
            if isinstance(tg, ast.Subscript) and isinstance(tg.value, ast.Name) and isinstance(tg.slice, ast.Slice) \
                    and tg.slice.lower is not None and tg.slice.upper is None and tg.slice.step is None:
                x = tg.value.id
                cx, tx = self.expr(tg.value, p)
                ci, ti = self.expr(tg.slice.lower, p)
                cv, tv = self.expr(s.value, p, tx)
                if cls_of(tx) == 'List' and ti == 'Int' and lean_ty(tv) == lean_ty(tx):
                    return self.let(x, '%s.setSliceFrom %s %s %s' % (RT, cx, ci, cv), tx, p, s) \
                        + self.block(rest, p, loop)
            raise Unsupported(s, 'assignment target outside the subset')
        if isinstance(s, ast.Expr) and isinstance(s.value, ast.Call) and isinstance(s.value.func, ast.Attribute) \
                and not s.value.keywords:
            call = s.value
            m, recv = call.func.attr, call.func.value
            if isinstance(recv, ast.Name) and len(call.args) == 1:
                cx, tx = self.expr(recv, p)
                if m == 'append' and cls_of(tx) == 'List':
                    cv, tv = self.expr(call.args[0], p, tx.split(' ', 1)[1])
                    if 'List ' + paren(tv) == tx or 'List ' + tv == tx:
                        return self.let(recv.id, '%s ++ [%s]' % (cx, cv), tx, p, s) + self.block(rest, p, loop)
                if m == 'add' and cls_of(tx) == 'Set':
                    cv, tv = self.expr(call.args[0], p)
                    if 'Set ' + tv == tx:
                        return self.let(recv.id, '%s :: %s' % (cv, cx), tx, p, s) + self.block(rest, p, loop)
            if m == 'append' and isinstance(recv, ast.Call) and isinstance(recv.func, ast.Attribute) \
                    and recv.func.attr == 'setdefault' and isinstance(recv.func.value, ast.Name) \
                    and len(recv.args) == 2 and isinstance(recv.args[1], ast.List) and not recv.args[1].elts \
                    and len(call.args) == 1 and not recv.keywords:
                d = recv.func.value
                cd, td = self.expr(d, p)
                if cls_of(td) == 'Dict':
                    kt, vt = [x.strip() for x in td[5:].split('|')]
                    ck, tk = self.expr(recv.args[0], p)
                    cv, tv = self.expr(call.args[0], p)
                    if tk == kt and vt in ('List ' + tv, 'List ' + paren(tv)):
                        return self.let(d.id, '%s.setdefaultAppend %s %s %s' % (RT, ck, cv, cd), td, p, s) \
                            + self.block(rest, p, loop)
            raise Unsupported(s, 'method call statement outside the subset')
        if isinstance(s, (ast.For, ast.While)):
            if loop is not None:
                raise Unsupported(s, 'nested loop')
            if s.orelse:
                raise Unsupported(s, 'loop with an else clause')
            return self.loop(s, rest, p)
        raise Unsupported(s, 'statement outside the subset: %s' % type(s).__name__)

    def assign(self, x, s, rest, p, loop):
        v = s.value
        # X = list(itertools.islice(IT, N))
        if isinstance(v, ast.Call) and isinstance(v.func, ast.Name) and v.func.id == 'list' and 'list' not in p.scope \
                and len(v.args) == 1 and isinstance(v.args[0], ast.Call) and not v.keywords:
            c = v.args[0]
            if isinstance(c.func, ast.Attribute) and c.func.attr == 'islice' and isinstance(c.func.value, ast.Name) \
                    and c.func.value.id == 'itertools' and 'itertools' not in p.scope and len(c.args) == 2 \
                    and isinstance(c.args[0], ast.Name) and not c.keywords:
                it = c.args[0].id
                cit, tit = self.expr(c.args[0], p)
                cn, tn = self.expr(c.args[1], p)
                if cls_of(tit) == 'Iter' and tn == 'Int' and it != x:
                    item = tit.split(' ', 1)[1]
                    q = p
                    a = self.let(x, '%s.isliceTake %s %s' % (RT, cit, cn), 'List ' + item, q, s)
                    b = self.let(it, '%s.isliceRest %s %s' % (RT, cit, cn), tit, q, s)
                    return 'if %s < 0 then .error .valueError else\n%s%s%s' % (cn, a, b, self.block(rest, q, loop))
            raise Unsupported(s, 'list(...) of something else than itertools.islice(<iterator>, <int>)')
        # X = <translated generator helper>(args): a suspended generator (nothing runs until it is consumed)
        g = self.gen_term(v, p) if isinstance(v, ast.Call) else None
        if g is not None:
            d = self.ty(x, p, s)
            if cls_of(d) != 'Gen' or lean_ty(d.split(' ', 1)[1]) != lean_ty(g[1]):
                raise Unsupported(s, '%s is declared %s, assigned a generator of %s' % (x, d, g[1]))
            p.kinds.pop(x, None)
            p.bind(x)
            return 'let %s : %s := %s\n' % (x, lean_ty(d), g[0]) + self.block(rest, p, loop)
        # X = list(<generator>)
        if isinstance(v, ast.Call) and isinstance(v.func, ast.Name) and v.func.id == 'list' and 'list' not in p.scope \
                and len(v.args) == 1 and not v.keywords and self.gen_term(v.args[0], p) is not None:
            term, r = self.gen_term(v.args[0], p)
            self.consume(v.args[0], p)
            d = self.ty(x, p, s)
            if lean_ty(d) != 'List ' + paren(lean_ty(r)) and lean_ty(d) != 'List ' + lean_ty(r):
                raise Unsupported(s, '%s is declared %s, assigned a list of %s' % (x, d, r))
            p.kinds.pop(x, None)
            p.bind(x)
            return '(match %s with\n| .error e => .error e\n| .ok %s =>\n%s)' % (term, x, ind(self.block(rest, p, loop)))
        # X = <translated helper function>(args)
        if isinstance(v, ast.Call) and isinstance(v.func, ast.Name) and v.func.id in self.spec.get('helpers', {}) \
                and v.func.id not in p.scope:
            h = self.by_py.get(self.spec['helpers'][v.func.id])
            if h is None:
                raise Unsupported(s, 'helper %s was not translated' % v.func.id)
            if h['kind'] != 'function':
                raise Unsupported(s, 'generator helper used as a value')
            term = self.helper_call(h, v, p)
            p.kinds.pop(x, None)
            d = self.ty(x, p, s)
            if lean_ty(d) != lean_ty(h['result']):
                raise Unsupported(s, '%s is declared %s, the helper returns %s' % (x, d, h['result']))
            p.bind(x)
            return '(match %s with\n| .error e => .error e\n| .ok %s =>\n%s)' % (term, x, ind(self.block(rest, p, loop)))
        if isinstance(v, ast.Name) and v.id in p.kinds:
            k = p.kinds[v.id]
        elif isinstance(v, ast.Constant) and v.value is None:
            k = 'none'
        else:
            k = None
        d = self.ty(x, p, s)
        code, t = self.expr(v, p, d)
        if cls_of(d) == 'Iter' and cls_of(t) == 'List':
            t = 'Iter ' + t.split(' ', 1)[1]
        if k is None:
            p.kinds.pop(x, None)
        else:
            p.kinds[x] = k
        return self.let(x, code, t, p, s) + self.block(rest, p, loop)

    def helper_call(self, h, call, p):
        """the Lean application of a translated helper to the arguments of `call` (positional, plus `**kw` for a
        declared keyword dict); the declared kinds of the helper's parameters must be those of the arguments"""
        name = call.func.id
        kws = list(call.keywords)
        if any(k.arg is not None for k in kws) or len(kws) > 1:
            raise Unsupported(call, 'keyword arguments in a call of %s' % name)
        hk = h.get('kinds', {})
        hp = list(h['params'].items())
        kwp = [(n, t) for n, t in hp if cls_of(t) == 'KwFill']
        pos = [(n, t) for n, t in hp if cls_of(t) != 'KwFill']
        if len(call.args) > len(pos):
            raise Unsupported(call, 'too many arguments for %s' % name)
        args = []
        for o in h.get('ops', {}):
            if self.spec.get('ops', {}).get(o) != h['ops'][o]:
                raise Unsupported(call, 'the declared operation %s of %s is not declared here' % (o, name))
            args.append(o)
        for (n, t), a in zip(pos, call.args):
            ak = p.kinds.get(a.id) if isinstance(a, ast.Name) else ('none' if isinstance(a, ast.Constant)
                                                                   and a.value is None else None)
            if hk.get(n) is not None and hk[n] != 'list' and ak != hk[n]:
                raise Unsupported(call, 'argument %s of %s must be of kind %s' % (n, name, hk[n]))
            if hk.get(n) == 'list' and not (isinstance(a, ast.Name) and (ak == 'list' or (
                    a.id in p.scope and cls_of(self.ty(a.id, p, a)) == 'List'))):
                raise Unsupported(call, 'argument %s of %s must be a list' % (n, name))
            if hk.get(n) == 'none' or cls_of(t) == 'Msg':
                continue
            ca, ta = self.expr(a, p, t)
            if lean_ty(ta) != lean_ty(t):
                raise Unsupported(call, 'argument %s of %s is a %s' % (n, name, ta))
            args.append(ca if ' ' not in ca or ca.startswith('(') else '(%s)' % ca)
        for n, t in pos[len(call.args):]:
            if hk.get(n) == 'none' and h.get('py_defaults', {}).get(n, 'missing') is None:
                continue                                # the Python default of the helper's parameter is None
            dflt = h.get('defaults', {}).get(n)
            if dflt is None:
                raise Unsupported(call, 'missing argument %s of %s' % (n, name))
            args.append(dflt)
        if kwp:
            if not kws or not isinstance(kws[0].value, ast.Name):
                raise Unsupported(call, '%s needs the keyword dict passed as **kw' % name)
            ca, ta = self.expr(kws[0].value, p)
            if lean_ty(ta) != lean_ty(kwp[0][1]):
                raise Unsupported(call, '**%s is a %s' % (ca, ta))
            args.append(ca)
        elif kws:
            raise Unsupported(call, '%s takes no keyword dict' % name)
        if h.get('fuel'):
            self.needs_fuel = True
            args.append('fuel')
        return '%s %s' % (h['lean_name'], ' '.join(args))

    def gen_term(self, e, p):
        """a generator object: a call of a translated generator helper or a name declared `Gen R` -> (term, R) / None"""
        if isinstance(e, ast.Name) and e.id in p.scope and cls_of(self.ty(e.id, p, e)) == 'Gen':
            return e.id, self.ty(e.id, p, e).split(' ', 1)[1]
        if isinstance(e, ast.Call) and isinstance(e.func, ast.Name) and e.func.id in self.spec.get('helpers', {}) \
                and e.func.id not in p.scope:
            h = self.by_py.get(self.spec['helpers'][e.func.id])
            if h is not None and h['kind'] == 'generator':
                return '(%s)' % self.helper_call(h, e, p), h['result']
        return None

    def consume(self, e, p):
        """a generator object can be consumed once: afterwards its name is out of scope"""
        if isinstance(e, ast.Name) and e.id in p.scope:
            p.scope.remove(e.id)

    def nested_def(self, s, p):
        """`def g(x): return <expr>` -> `let g := fun x => <expr>`; the variables it reads must not be re-assigned later"""
        a = s.args
        if s.decorator_list or a.vararg or a.kwarg or a.kwonlyargs or a.defaults or a.posonlyargs or len(a.args) != 1 \
                or len(s.body) != 1 or not isinstance(s.body[0], ast.Return) or s.body[0].value is None:
            raise Unsupported(s, 'nested def that is not a one-argument, one-expression function')
        t = self.ty(s.name, p, s)
        if cls_of(t) != 'Fn':
            raise Unsupported(s, '%s is not declared a function' % s.name)
        dom, cod = [x.strip() for x in t[3:].split('→')]
        arg = a.args[0].arg
        free = {n.id for n in ast.walk(s.body[0].value) if isinstance(n, ast.Name)} - {arg}
        later = False
        for n in ast.walk(self.f):
            if n is s:
                later = True
            elif later and isinstance(n, ast.Name) and isinstance(n.ctx, ast.Store) and n.id in free \
                    and getattr(n, 'lineno', 0) > s.end_lineno:
                raise Unsupported(s, '%s reads %s, which is assigned after the def (late binding)' % (s.name, n.id))
        q = p.copy()
        q.bind(arg)
        q.types[arg] = dom
        q.kinds.pop(arg, None)
        code, tc = self.expr(s.body[0].value, q, cod)
        if lean_ty(tc) != lean_ty(cod):
            raise Unsupported(s, '%s returns a %s, declared %s' % (s.name, tc, cod))
        p.kinds[s.name] = 'callable'
        p.bind(s.name)
        return 'let %s : %s := fun %s => %s\n' % (s.name, lean_ty(t), arg, code)

    def try_pop(self, s, rest, p, loop):
        """try: X = KW.pop('<name>') / except KeyError: <handler>   with KW declared `KwFill α` (a **kw dict that holds
        at most the key <name>)"""
        ok = (len(s.body) == 1 and isinstance(s.body[0], ast.Assign) and len(s.body[0].targets) == 1
              and isinstance(s.body[0].targets[0], ast.Name) and len(s.handlers) == 1 and not s.orelse
              and not s.finalbody and isinstance(s.handlers[0].type, ast.Name) and s.handlers[0].type.id == 'KeyError'
              and s.handlers[0].name is None and 'KeyError' not in p.scope)
        if ok:
            v = s.body[0].value
            ok = (isinstance(v, ast.Call) and isinstance(v.func, ast.Attribute) and v.func.attr == 'pop'
                  and isinstance(v.func.value, ast.Name) and len(v.args) == 1 and not v.keywords
                  and isinstance(v.args[0], ast.Constant) and v.args[0].value == self.spec.get('kw_key'))
        if not ok:
            raise Unsupported(s, 'try statement outside the subset')
        kw = v.func.value.id
        ckw, tkw = self.expr(v.func.value, p)
        if cls_of(tkw) != 'KwFill':
            raise Unsupported(s, '%s is not the declared keyword dict' % kw)
        x = s.body[0].targets[0].id
        item = tkw.split(' ', 1)[1]
        q1, q2 = p.copy(), p.copy()
        a = self.let(x, '_v', item, q1, s) + self.let(kw, 'none', tkw, q1, s) + self.block(rest, q1, loop)
        b = self.block(s.handlers[0].body + rest, q2, loop)
        return '(match %s with\n| some _v =>\n%s\n| none =>\n%s)' % (ckw, ind(a), ind(b))

    def loop(self, s, rest, p):
        """a loop (not nested in another): a recursive definition over the item list (`for`) or over the fuel (`while`);
        its parameters are the names bound at loop entry, in binding order.  A `for` over a declared iterator consumes
        it: inside the body and after a `break` the iterator holds the items not reached yet, after exhaustion none"""
        if id(s) in self.loops:
            name, vs = self.loops[id(s)]
            if vs != p.scope:
                raise Unsupported(s, 'the loop is reached with different sets of bound names')
            return self.loop_call(s, name, vs, p)
        name = '%s.loop%d' % (self.name, len(self.loops) + 1)
        vs = list(p.scope)
        self.loops[id(s)] = (name, vs)
        tys = [lean_ty(self.ty(v, p, s)) for v in vs]
        q = p.copy()
        for k in list(q.kinds):          # a name assigned in the loop has no fixed kind inside it
            if any(isinstance(n, ast.Name) and isinstance(n.ctx, ast.Store) and n.id == k for b in s.body
                   for n in ast.walk(b)) or any(isinstance(n, ast.FunctionDef) and n.name == k for b in s.body
                                                for n in ast.walk(b)):
                del q.kinds[k]
        p_after = q.copy()
        after = self.block(rest, p_after, None)
        pats = ', '.join(vs)
        if isinstance(s, ast.For):
            if not isinstance(s.target, ast.Name) or not isinstance(s.iter, ast.Name):
                raise Unsupported(s, 'for loop over something else than a named list')
            ci, ti = self.expr(s.iter, p)
            if cls_of(ti) not in ('List', 'Iter'):
                raise Unsupported(s, 'for loop over a %s' % ti)
            item = ti.split(' ', 1)[1]
            tgt = s.target.id
            if tgt in vs:
                raise Unsupported(s, 'the loop variable is bound before the loop')
            if any(isinstance(n, ast.Name) and isinstance(n.ctx, ast.Store) and n.id == s.iter.id
                   for b in s.body for n in ast.walk(b)):
                raise Unsupported(s, 'the list being iterated is assigned in the loop')
            qb = q.copy()
            qb.bind(tgt)
            qb.types[tgt] = item
            cont = lambda pp: '%s _rest %s' % (name, ' '.join(vs))
            body = self.block(s.body, qb, (cont, rest, vs))
            if cls_of(ti) == 'Iter':
                after = 'let %s : %s := []\n' % (s.iter.id, lean_ty(ti)) + after
                body = 'let %s : %s := _rest\n' % (s.iter.id, lean_ty(ti)) + body
            self.defs.append('def %s %s: List %s → %s → Except %s.Err %s\n  | [], %s =>\n%s\n  | %s :: _rest, %s =>\n%s\n' % (
                name, self.binder, paren(item), ' → '.join(paren(t) for t in tys), RT, paren(self.result_ty()),
                pats, ind(after, 2), tgt, pats, ind(body, 2)))
        else:
            cont = lambda pp: '%s _fuel %s' % (name, ' '.join(vs))
            t = self.simplify(s.test, q)
            body = self.block(s.body, q.copy(), (cont, rest, vs))
            if t is False:
                raise Unsupported(s, 'while False')
            if t is not True:
                body = 'if %s then\n%s\nelse\n%s' % (self.truthy(t, q), ind(body), ind(after))
            self.defs.append('def %s %s: Nat → %s → Except %s.Err %s\n  | 0, %s => .error .outOfFuel\n  | _fuel + 1, %s =>\n%s\n' % (
                name, self.binder, ' → '.join(paren(t) for t in tys), RT, paren(self.result_ty()),
                ', '.join('_' for _ in vs), pats, ind(body, 2)))
        return self.loop_call(s, name, vs, p)

    def loop_call(self, s, name, vs, p):
        if isinstance(s, ast.For):
            return '%s %s %s' % (name, s.iter.id, ' '.join(vs))
        return '%s fuel %s' % (name, ' '.join(vs))

    def result_ty(self):
        return 'List %s' % paren(lean_ty(self.R)) if self.gen else lean_ty(self.R)

    def emit(self):
        a = self.f.args
        if self.f.decorator_list or a.vararg or a.kwonlyargs or a.posonlyargs:
            raise Unsupported(self.f, 'signature outside the subset')
        names = [x.arg for x in a.args] + ([a.kwarg.arg] if a.kwarg else [])
        if names != list(self.spec['params']):
            raise Unsupported(self.f, 'parameters %s, declared %s' % (names, list(self.spec['params'])))
        kinds = dict(self.spec.get('kinds', {}))
        lean_params = [(n, t) for n, t in self.spec['params'].items() if kinds.get(n) != 'none' and cls_of(t) != 'Msg']
        lean_params = list(self.spec.get('ops', {}).items()) + lean_params
        p = Path(kinds, [n for n, _ in lean_params], {})
        # a parameter of kind 'none' is not bound at run time: every use must be decided by the kind
        body = self.block(list(self.f.body), p, None)
        sig = ' '.join('(%s : %s)' % (n, lean_ty(t)) for n, t in lean_params)
        if self.has_while or self.needs_fuel:
            sig += ' (fuel : Nat)'
        doc = '/-- `%s` (lines %d-%d)%s -/' % (
            self.spec['qualname'], self.f.lineno, self.f.end_lineno,
            ''.join('; %s is %s' % (n, {'none': 'None', 'callable': 'a callable', 'list': 'a list',
                                        'value': 'a non-iterable, non-callable object'}[k])
                    for n, k in kinds.items()))
        return '%s\n%s\ndef %s %s%s : Except %s.Err %s :=\n%s\n' % (
            '\n'.join(self.defs), doc, self.name, self.binder, sig, RT, paren(self.result_ty()), ind(body))


def find_function(tree, qualname):
    hits = [n for n in tree.body if isinstance(n, ast.FunctionDef) and n.name == qualname]
    if len(hits) != 1:
        raise Unsupported(None, 'expected exactly one module-level def %s, found %d' % (qualname, len(hits)))
    return hits[0]


def translate_source(src, specs, module_name, rel, mod=None):
    tree = ast.parse(src)
    short = module_name.split('.')[-1]
    parts, infos, head, by_py = [], [], [], {}
    for spec in specs:
        info = {'function': '%s.%s' % (module_name, spec['qualname']), 'source_file': rel, 'lines': None,
                'lean_def': 'Src.%s.%s' % (short, spec['lean_name']), 'lean_pre': None,
                'tie_theorem': spec['tie_theorem']}
        if spec.get('kinds'):
            info['declared_kinds'] = dict(spec['kinds'])
        infos.append(info)
        try:
            fdef = find_function(tree, spec['qualname'])
            info['lines'] = '%d-%d' % (fdef.lineno, fdef.end_lineno)
            tr = FnTr(fdef, spec, tree, by_py, mod)
            text = tr.emit()
            spec['fuel'] = tr.has_while or tr.needs_fuel
            _a = fdef.args
            _n = [x.arg for x in _a.args]
            spec['py_defaults'] = {n: d.value for n, d in zip(_n[len(_n) - len(_a.defaults):], _a.defaults)
                                   if isinstance(d, ast.Constant)}
            by_py[spec['lean_name']] = spec
        except (Unsupported, RecursionError) as e:
            info['error'] = str(e) or type(e).__name__
            parts.append('-- NOT TRANSLATED: %s: %s\n' % (spec['lean_name'], info['error'].replace('\n', ' ')))
            head.append('  %s -> NOT TRANSLATED' % spec['lean_name'])
            continue
        parts.append(text)
        head.append('  %s (lines %s) -> Src.%s.%s' % (spec['qualname'], info['lines'], short, spec['lean_name']))
    out = ('/- GENERATED by harness/py2lean_c09.py (list helpers over an abstract element type) from %s - do not edit.\n'
           '   Translation of the current source text (rules: notes/SRCTIE.md, section 8):\n%s\n-/\n'
           'import BoltonsVerif.PyRtC09\n\nnamespace Src.%s\n\n%s\nend Src.%s\n' % (
               rel, '\n'.join(head), short, '\n'.join(parts), short))
    return out, infos


def translate_module(module_name, specs, repo):
    mod = importlib.import_module(module_name)
    path = os.path.abspath(inspect.getsourcefile(mod))
    if not path.startswith(os.path.abspath(repo) + os.sep):
        raise RuntimeError('%s imported from %s, not from %s' % (module_name, path, repo))
    with open(path) as fh:
        src = fh.read()
    return translate_source(src, specs, module_name, os.path.relpath(path, os.path.abspath(repo)), mod)


def selftest(pids, quick=False, seed=0, verbose=True):
    import py2lean_c09_selftest
    return py2lean_c09_selftest.run(pids, quick=quick, seed=seed, verbose=verbose)
