"""py2lean_c05 - EFFECT MODE of the source translator (round 3c, C05/C04: boltons.fileutils.AtomicSaver).

Translates Python functions / methods whose job is to CALL THE OPERATING SYSTEM into Lean 4 definitions over
`lean/BoltonsVerif/PyRtC05.lean`.  Specification: notes/SRCTIE.md, section "Effect mode".  In short:

* every external call named in the spec (`os.stat`, `os.open`, `fcntl.fcntl`, methods of a file object ...) is a
  field of a GENERATED record of functions `Sys W ...` over an abstract world `W`: it may change the world and returns
  a value or raises; nothing else is known about it here (the tie theorem instantiates the record with the hand
  model's file system under a fault plan);
* exceptions are values `PyRtC05.Exc` (kind OSError / other Exception / BaseException only, `.errno`, opaque tag);
* a statement list is a `PyRtC05.Blk`: falls through, returns a value, or raises; the combinators `seq`, `ite`,
  `call`, `callm`, `tryExcept` (first matching handler, `else`), `tryFinally` are the semantics of the statements;
* the object state is a record (spec `state`), the locals of a function are a record (parameters by name, locals
  numbered `loc1..` in order of first binding, temporaries of hoisted calls `tmp1..`).

The embedding is compositional (no continuation passing): one Python statement = one combinator application, so the
shape of the generated term is the shape of the source's statement tree.

Anything not handled exactly raises `py2lean.Unsupported` (the function is then "not translated").
"""
from __future__ import annotations

import ast
import importlib
import inspect
import os

from py2lean import Unsupported, LEAN_RESERVED

# ---------------------------------------------------------------------------------------------- types
# 'Nat' 'Int' 'Bool' 'None' 'Exc' 'StatRes', abstract type names (the effect description's `tparams`),
# ('Option', T).  Text form in specs: "Option Nat".

SCALARS = {'Nat', 'Int', 'Bool', 'None', 'Exc', 'StatRes'}


def parse_type(text, tparams):
    text = text.strip()
    if text.startswith('Option '):
        return ('Option', parse_type(text[7:], tparams))
    if text.startswith('(') and text.endswith(')'):
        return parse_type(text[1:-1], tparams)
    if text in SCALARS or text in tparams:
        return text
    raise ValueError('effect mode: unknown type %r' % text)


def show_type(t, top=True):
    if isinstance(t, tuple):
        s = 'Option ' + show_type(t[1], False)
        return s if top else '(%s)' % s
    return {'None': 'Unit', 'Exc': 'PyRtC05.Exc', 'StatRes': 'PyRtC05.StatRes'}.get(t, t)


def is_opt(t):
    return isinstance(t, tuple) and t[0] == 'Option'


def lean_field(name):
    f = name.lstrip('_') or name
    if f in LEAN_RESERVED or f in ('w', 'loc', 'sys', 'e'):
        f += '_'
    return f


def lean_method_name(py):
    return py.strip('_')


class NoneLit:
    """type of the literal `None` before it meets an Option type"""


EXC_KINDS = {      # class names usable in `except <name>:` (exactly the three levels PyRtC05.Kind distinguishes)
    'OSError': 'isOSError', 'IOError': 'isOSError', 'EnvironmentError': 'isOSError',
    'Exception': 'isException', 'BaseException': 'isBase',
}
RAISABLE = {       # classes the code may raise itself: kind, tag (0 for the OSError family)
    'OSError': ('osError', 0), 'IOError': ('osError', 0), 'EnvironmentError': ('osError', 0),
    'Exception': ('exception', 1), 'ValueError': ('exception', 2), 'TypeError': ('exception', 3),
    'RuntimeError': ('exception', 4),
}


class Flow:
    """must-facts at a program point: locals definitely assigned; places ('x' / 'self.a') known not to be None"""

    def __init__(self, assigned=(), nonnull=()):
        self.assigned, self.nonnull = frozenset(assigned), frozenset(nonnull)

    def add(self, assigned=(), nonnull=(), drop=()):
        return Flow(self.assigned | set(assigned), (self.nonnull - set(drop)) | set(nonnull))

    def forget(self, places, self_too):
        nn = {p for p in self.nonnull if p not in places and not (self_too and p.startswith('self.'))}
        return Flow(self.assigned, nn)


def meet(a, b):
    """join of two control-flow paths; None = the path does not continue"""
    if a is None:
        return b
    if b is None:
        return a
    return Flow(a.assigned & b.assigned, a.nonnull & b.nonnull)


def dotted(node):
    parts = []
    while isinstance(node, ast.Attribute):
        parts.append(node.attr)
        node = node.value
    if isinstance(node, ast.Name):
        parts.append(node.id)
        return '.'.join(reversed(parts))
    return None


# ---------------------------------------------------------------------------------------------- module lookup
def find_definition(tree, qualname):
    """the definition of `qualname` that is in force on the platform the spec fixes (posix, `fcntl` importable):
    module-level `if os.name == 'nt': A else: B` means B; `try: import m  except ImportError: A  else: B` means B.
    The last definition wins, as in Python."""
    def scan(stmts, name):
        found = None
        for st in stmts:
            if isinstance(st, (ast.FunctionDef, ast.ClassDef)) and st.name == name:
                found = st
            elif isinstance(st, ast.If):
                t = st.test
                if (isinstance(t, ast.Compare) and dotted(t.left) == 'os.name' and len(t.ops) == 1
                        and isinstance(t.ops[0], ast.Eq) and isinstance(t.comparators[0], ast.Constant)
                        and t.comparators[0].value == 'nt'):
                    found = scan(st.orelse, name) or found
                elif _defines(st, name):
                    raise Unsupported(st, 'definition of %s under a module-level condition' % name)
            elif isinstance(st, ast.Try):
                only_imports = all(isinstance(b, (ast.Import, ast.ImportFrom)) for b in st.body)
                import_err = all(isinstance(h.type, ast.Name) and h.type.id == 'ImportError' for h in st.handlers)
                if only_imports and import_err and not st.finalbody:
                    found = scan(st.orelse, name) or found
                elif _defines(st, name):
                    raise Unsupported(st, 'definition of %s inside a module-level try' % name)
            elif not isinstance(st, (ast.FunctionDef, ast.ClassDef)) and _defines(st, name):
                raise Unsupported(st, 'definition of %s inside a compound statement' % name)
            elif isinstance(st, ast.Assign) and any(isinstance(t, ast.Name) and t.id == name for t in st.targets):
                found = None                      # rebound to something that is not a def
        return found

    parts = qualname.split('.')
    node = scan(tree.body, parts[0])
    for p in parts[1:]:
        if not isinstance(node, ast.ClassDef):
            break
        node = scan(node.body, p)
    if not isinstance(node, ast.FunctionDef):
        raise Unsupported('module', 'no definition of %s' % qualname)
    if node.decorator_list:
        raise Unsupported(node, 'decorated function')
    return node


def _defines(st, name):
    return any(isinstance(n, (ast.FunctionDef, ast.ClassDef)) and n.name == name for n in ast.walk(st))


def module_int_constant(tree, name):
    """NAME = <int literal> bound exactly once at module level (and nowhere rebound)"""
    val, count = None, 0
    for n in ast.walk(tree):
        targets = []
        if isinstance(n, ast.Assign):
            targets = n.targets
        elif isinstance(n, (ast.AugAssign, ast.AnnAssign)):
            targets = [n.target]
        for t in targets:
            for nm in ast.walk(t):
                if isinstance(nm, ast.Name) and nm.id == name:
                    count += 1
                    if (isinstance(n, ast.Assign) and n in tree.body and len(n.targets) == 1 and isinstance(t, ast.Name)
                            and isinstance(n.value, ast.Constant) and type(n.value.value) is int and n.value.value >= 0):
                        val = n.value.value
        if isinstance(n, ast.Global) and name in n.names:
            count += 2
    return val if count == 1 else None


def class_int_constant(tree, cdef, attr):
    """a class attribute `attr = <int literal | module int constant>` that no method assigns through `self`"""
    val, count = None, 0
    for st in cdef.body:
        if isinstance(st, ast.Assign) and any(isinstance(t, ast.Name) and t.id == attr for t in st.targets):
            count += 1
            if len(st.targets) == 1:
                if isinstance(st.value, ast.Constant) and type(st.value.value) is int and st.value.value >= 0:
                    val = st.value.value
                elif isinstance(st.value, ast.Name):
                    val = module_int_constant(tree, st.value.id)
    for n in ast.walk(cdef):
        if isinstance(n, ast.Attribute) and n.attr == attr and isinstance(n.ctx, (ast.Store, ast.Del)):
            return None
        if isinstance(n, ast.Call) and dotted(n.func) in ('setattr', 'delattr'):
            return None
    return val if count == 1 else None


# ---------------------------------------------------------------------------------------------- one function
class EffTranslator:
    def __init__(self, fdef, spec, tree, emitted):
        self.fdef, self.spec, self.tree, self.emitted = fdef, spec, tree, emitted
        self.eff = spec['effect']
        self.tparams = list(self.eff['tparams'])
        self.cls = spec.get('cls')
        self.cdef = None
        if self.cls is not None:
            self.cdef = [n for n in tree.body if isinstance(n, ast.ClassDef) and n.name == self.cls['name']][-1]
        self.pt = lambda s: parse_type(s, self.tparams)
        self.state = {a: self.pt(t) for a, t in (self.cls or {}).get('state', {}).items()}
        self.R = self.pt(spec['result'])
        self.final_types = {}    # second pass: the types the locals ended up with in the first pass
        self._reset()

    def _reset(self):
        self.types = {}          # python local/param name -> type
        self.fields = {}         # python name -> lean field of the locals record
        self.order = []          # lean fields in declaration order
        self.ntmp = 0
        self.nloc = 0
        self.handler_stack = ()  # lean variables of the enclosing `except` clauses, innermost last
        self.exc_vars = {}       # python name bound by `except ... as name` -> lean variable (in scope)
        self._check_signature()

    # ---- signature
    def _check_signature(self):
        a = self.fdef.args
        if a.vararg or a.kwarg or a.kwonlyargs or a.posonlyargs:
            raise Unsupported(self.fdef, 'star / keyword-only / positional-only parameters')
        names = [x.arg for x in a.args]
        if self.cls is not None:
            if not names or names[0] != 'self':
                raise Unsupported(self.fdef, 'method without self')
            names = names[1:]
        if names != list(self.spec['params']):
            raise Unsupported(self.fdef, 'parameters %r differ from the spec %r' % (names, list(self.spec['params'])))
        defaults = a.defaults
        self.defaults = {}
        for n, d in zip(names[len(names) - len(defaults):] if defaults else [], defaults):
            if not isinstance(d, ast.Constant):
                raise Unsupported(d, 'non-constant default')
            self.defaults[n] = d
        self.params = []
        for n in names:
            t = self.pt(self.spec['params'][n])
            self.types[n] = t
            f = lean_field(n)
            if f.startswith('loc') or f.startswith('tmp'):
                f += '_'
            self.fields[n] = f
            self.order.append(f)
            self.params.append((n, f, t))

    # ---- locals
    def _local(self, name, t, node):
        if name in self.types:
            old = self.types[name]
            if old == t:
                return
            if is_opt(old) and (t is NoneLit or old[1] == t):
                return
            if old is NoneLit:
                raise Unsupported(node, 'local %s is only ever None' % name)
            if not is_opt(old) and (t is NoneLit or (is_opt(t) and t[1] == old)):
                if any(n == name for n, _, _ in self.params):
                    raise Unsupported(node, 'parameter %s rebound at another type' % name)
                self.types[name] = ('Option', old)      # first a T, later None: the local is an Option T
                return
            raise Unsupported(node, 'local %s used at types %s and %s' % (name, old, t))
        if t is NoneLit:
            raise Unsupported(node, 'local %s first bound to None (declare its type by binding a value first)' % name)
        self.types[name] = self.final_types.get(name, t)
        self.nloc += 1
        self.fields[name] = 'loc%d' % self.nloc
        self.order.append(self.fields[name])

    def _temp(self, t):
        self.ntmp += 1
        name = '%tmp' + str(self.ntmp)
        self.types[name] = t
        self.fields[name] = 'tmp%d' % self.ntmp
        self.order.append(self.fields[name])
        return name

    # ---- pure expressions -> (lean text over `s`, type)
    def expr(self, node, fl, want=None):
        text, t = self._expr(node, fl)
        if want is not None:
            text, t = self.coerce(text, t, want, node)
        return text, t

    def coerce(self, text, t, want, node):
        if t is NoneLit:
            if is_opt(want):
                return 'none', want
            if want == 'None':
                return '()', want
            raise Unsupported(node, 'None where %s is expected' % (want,))
        if t == want:
            return text, t
        if is_opt(want) and want[1] == t:
            return '(some %s)' % text, want
        if want == 'Int' and t == 'Nat':
            return '(Int.ofNat %s)' % text, want
        raise Unsupported(node, 'a %s where %s is expected' % (t, want))

    def read_place(self, key, text, t, fl, node):
        """a variable / attribute of Option type read where it is known not to be None is the value itself"""
        if is_opt(t) and key in fl.nonnull:
            return '(PyRtC05.unwrap %s)' % text, t[1]
        return text, t

    def _expr(self, node, fl):
        if isinstance(node, ast.Constant):
            v = node.value
            if v is None:
                return 'none', NoneLit
            if v is True or v is False:
                return ('true' if v else 'false'), 'Bool'
            if type(v) is int:
                return (str(v), 'Nat') if v >= 0 else ('(%d : Int)' % v, 'Int')
            raise Unsupported(node, 'constant %r' % (v,))
        if isinstance(node, ast.Name):
            if node.id in self.exc_vars:
                return self.exc_vars[node.id], 'Exc'
            if node.id in self.types and not node.id.startswith('%'):
                if node.id not in fl.assigned:
                    raise Unsupported(node, 'local %s may be read before it is assigned' % node.id)
                return self.read_place(node.id, 's.loc.%s' % self.fields[node.id], self.types[node.id], fl, node)
            c = module_int_constant(self.tree, node.id)
            if c is not None:
                return str(c), 'Nat'
            raise Unsupported(node, 'unknown name %s' % node.id)
        if isinstance(node, ast.Attribute):
            d = dotted(node)
            if d in self.eff.get('consts', {}):
                return str(self.eff['consts'][d]), 'Nat'
            if isinstance(node.value, ast.Name) and node.value.id == 'self' and self.cls is not None:
                if node.attr in self.state:
                    return self.read_place('self.' + node.attr, 's.self.%s' % lean_field(node.attr),
                                           self.state[node.attr], fl, node)
                c = class_int_constant(self.tree, self.cdef, node.attr)
                if c is not None:
                    return str(c), 'Nat'
                raise Unsupported(node, 'attribute self.%s is not declared in the spec' % node.attr)
            base, bt = self._expr(node.value, fl)
            if bt == 'Exc' and node.attr == 'errno':
                return '%s.errno' % base, ('Option', 'Nat')
            if bt == 'StatRes' and node.attr == 'st_mode':
                return '%s.st_mode' % base, 'Nat'
            raise Unsupported(node, 'attribute .%s of a %s' % (node.attr, bt))
        if isinstance(node, ast.UnaryOp) and isinstance(node.op, ast.Not):
            return '(!%s)' % self.truth(node.operand, fl), 'Bool'
        if isinstance(node, ast.BoolOp):
            op = ' && ' if isinstance(node.op, ast.And) else ' || '
            # operands in boolean position only; the facts of earlier operands hold in later ones
            parts, cur = [], fl
            for v in node.values:
                parts.append(self.truth(v, cur))
                yes, no = self.narrow(v, cur)
                cur = yes if isinstance(node.op, ast.And) else no
            return '(%s)' % op.join(parts), 'Bool'
        if isinstance(node, ast.BinOp) and isinstance(node.op, (ast.BitOr, ast.BitAnd)):
            l, lt = self._expr(node.left, fl)
            r, rt = self._expr(node.right, fl)
            if lt != 'Nat' or rt != 'Nat':
                raise Unsupported(node, '| and & are translated on Nat only')
            return '(%s %s %s)' % (l, '|||' if isinstance(node.op, ast.BitOr) else '&&&', r), 'Nat'
        if isinstance(node, ast.Compare) and len(node.ops) == 1:
            op, rhs = node.ops[0], node.comparators[0]
            if isinstance(op, (ast.Is, ast.IsNot)):
                if not (isinstance(rhs, ast.Constant) and rhs.value is None):
                    raise Unsupported(node, '`is` is translated against None only')
                l, lt = self._expr_raw(node.left, fl)
                if not is_opt(lt):
                    raise Unsupported(node, '`is None` on a %s' % (lt,))
                return '(%s%s.isNone)' % ('' if isinstance(op, ast.Is) else '!', l), 'Bool'
            if isinstance(op, (ast.Eq, ast.NotEq)):
                l, lt = self._expr(node.left, fl)
                r, rt = self._expr(rhs, fl)
                if lt is NoneLit or rt is NoneLit:
                    raise Unsupported(node, '== None (use `is None`)')
                if is_opt(lt) and not is_opt(rt):
                    r, rt = '(some %s)' % r, ('Option', rt)
                if is_opt(rt) and not is_opt(lt):
                    l, lt = '(some %s)' % l, ('Option', lt)
                if lt != rt or (lt[1] if is_opt(lt) else lt) not in ('Nat', 'Int', 'Bool'):
                    raise Unsupported(node, 'comparison of %s and %s' % (lt, rt))
                return '(%s %s %s)' % (l, '==' if isinstance(op, ast.Eq) else '!=', r), 'Bool'
            raise Unsupported(node, 'comparison operator')
        if isinstance(node, ast.Call):
            d = dotted(node.func)
            if d in self.eff.get('pure', {}):
                lean, ats, rt = self.eff['pure'][d]
                if node.keywords or len(node.args) != len(ats):
                    raise Unsupported(node, 'arguments of %s' % d)
                args = [self.expr(a, fl, self.pt(at))[0] for a, at in zip(node.args, ats)]
                return '(%s %s)' % (lean, ' '.join(args)), self.pt(rt)
            raise Unsupported(node, 'call inside an expression (only calls named in the spec, as statements / arguments '
                                    '/ conditions)')
        raise Unsupported(node, 'expression')

    def _expr_raw(self, node, fl):
        """like _expr but without the not-None unwrapping (for `x is None` itself)"""
        return self._expr(node, Flow(fl.assigned, ()))

    def truth(self, node, fl):
        text, t = self._expr(node, fl)
        if t == 'Bool':
            return text
        if t == 'Nat' or t == 'Int':
            return '(%s != 0)' % text
        if t is NoneLit:
            return 'false'
        raw, rt = self._expr_raw(node, fl)
        if is_opt(rt) and rt[1] in self.eff.get('truthy', ()):
            return '%s.isSome' % raw          # None or an object that is always true (a file object, a class)
        raise Unsupported(node, 'truth value of a %s' % (t,))

    def place_key(self, node):
        if isinstance(node, ast.Name) and node.id in self.types:
            return node.id
        if (isinstance(node, ast.Attribute) and isinstance(node.value, ast.Name) and node.value.id == 'self'
                and node.attr in self.state):
            return 'self.' + node.attr
        return None

    def narrow(self, test, fl):
        """(facts when the test is true, facts when it is false)"""
        if isinstance(test, ast.UnaryOp) and isinstance(test.op, ast.Not):
            y, n = self.narrow(test.operand, fl)
            return n, y
        if isinstance(test, ast.Compare) and len(test.ops) == 1 and isinstance(test.ops[0], (ast.Is, ast.IsNot)) \
                and isinstance(test.comparators[0], ast.Constant) and test.comparators[0].value is None:
            k = self.place_key(test.left)
            if k is not None:
                some, none = fl.add(nonnull=[k]), fl.add(drop=[k])
                return (none, some) if isinstance(test.ops[0], ast.Is) else (some, none)
        k = self.place_key(test)
        if k is not None:
            t = self.types.get(k) if not k.startswith('self.') else self.state[k[5:]]
            if is_opt(t) and t[1] in self.eff.get('truthy', ()):
                return fl.add(nonnull=[k]), fl
        if isinstance(test, ast.BoolOp) and isinstance(test.op, ast.And):
            cur = fl
            for v in test.values:
                cur, _ = self.narrow(v, cur)
            return cur, fl
        if isinstance(test, ast.BoolOp) and isinstance(test.op, ast.Or):
            cur = fl
            for v in test.values:
                _, cur = self.narrow(v, cur)
            return fl, cur
        return fl, fl

    # ---- calls
    def classify_call(self, node, fl):
        """-> None (not an effect call) or a dict describing the callee"""
        if not isinstance(node, ast.Call):
            return None
        d = dotted(node.func)
        if d is not None and d in self.eff['ops']:
            f, ats, rt = self.eff['ops'][d]
            return {'kind': 'op', 'lean': 'sys.%s' % f, 'argtypes': [self.pt(a) for a in ats], 'result': self.pt(rt),
                    'names': None, 'recv': None, 'what': d}
        if isinstance(node.func, ast.Name):
            for sp in self.emitted:
                if sp.get('cls') is None and sp['qualname'] == node.func.id:
                    return {'kind': 'fn', 'lean': '%s sys' % sp['lean_name'],
                            'argtypes': [self.pt(t) for t in sp['params'].values()], 'result': self.pt(sp['result']),
                            'names': list(sp['params']), 'recv': None, 'what': node.func.id, 'spec': sp}
            if node.func.id in {sp['qualname'] for sp in self.eff.get('_all_specs', []) if sp.get('cls') is None}:
                raise Unsupported(node, 'call of %s, which is not translated (before this function)' % node.func.id)
            return None
        if isinstance(node.func, ast.Attribute):
            if isinstance(node.func.value, ast.Name) and node.func.value.id == 'self' and self.cls is not None:
                for sp in self.emitted:
                    if sp.get('cls') is self.cls and sp['py'] == node.func.attr:
                        return {'kind': 'method', 'lean': '%s sys' % sp['lean_name'],
                                'argtypes': [self.pt(t) for t in sp['params'].values()],
                                'result': self.pt(sp['result']), 'names': list(sp['params']), 'recv': None,
                                'what': 'self.' + node.func.attr, 'spec': sp}
                raise Unsupported(node, 'call of self.%s, which is not translated (before this method)' % node.func.attr)
            # a method of an abstract object (a file object): the receiver is the first argument of the operation
            try:
                rtext, rtype = self._expr(node.func.value, fl)
            except Unsupported:
                return None
            ms = self.eff.get('methods_of', {}).get(rtype if not is_opt(rtype) else None, {})
            if node.func.attr in ms:
                f, ats, rt = ms[node.func.attr]
                return {'kind': 'op', 'lean': 'sys.%s' % f, 'argtypes': [rtype] + [self.pt(a) for a in ats],
                        'result': self.pt(rt), 'names': None, 'recv': node.func.value,
                        'what': '%s.%s' % (rtype, node.func.attr)}
            if is_opt(rtype):
                raise Unsupported(node, 'method call on a value that may be None')
        return None

    def has_effect(self, node):
        for n in ast.walk(node):
            if isinstance(n, ast.Call):
                d = dotted(n.func)
                if d in self.eff.get('pure', {}):
                    continue
                return True
        return False

    def hoist_args(self, node, info, fl, pre):
        """argument texts of an effect call; effectful arguments (abstract operations only) are evaluated first, into
        temporaries, in Python's order: sound because an abstract operation changes neither locals nor attributes"""
        actual = []
        if info['recv'] is not None:
            actual.append(info['recv'])
        actual += list(node.args)
        if any(isinstance(a, ast.Starred) for a in actual) or any(k.arg is None for k in node.keywords):
            raise Unsupported(node, 'star arguments')
        slots = [None] * len(info['argtypes'])
        if len(actual) > len(slots):
            raise Unsupported(node, 'too many arguments for %s' % info['what'])
        for i, a in enumerate(actual):
            slots[i] = a
        if node.keywords:
            if info['names'] is None:
                raise Unsupported(node, 'keyword argument in a call of %s' % info['what'])
            for k in node.keywords:
                if k.arg not in info['names']:
                    raise Unsupported(node, 'unknown keyword %s' % k.arg)
                i = info['names'].index(k.arg)
                if slots[i] is not None:
                    raise Unsupported(node, 'argument %s given twice' % k.arg)
                slots[i] = k.value
        if info['names'] is not None:
            dflt = self._callee_defaults(info['spec'])
            for i, n in enumerate(info['names']):
                if slots[i] is None and n in dflt:
                    slots[i] = dflt[n]
        if any(s is None for s in slots):
            raise Unsupported(node, 'missing argument in a call of %s' % info['what'])
        # evaluation order = textual order of the actual arguments (positional, then keywords)
        texts = {}
        order = actual + [k.value for k in node.keywords]
        seen_effect = False
        for a in order:
            if self.has_effect(a):
                inner = self.classify_call(a, fl)
                if inner is None or inner['kind'] != 'op':
                    raise Unsupported(a, 'argument with an effect that is not a call of an abstract operation')
                seen_effect = True
                tmp = self._temp(inner['result'])
                pre.append(self.call_stmt(a, inner, fl, pre, ('tmp', tmp)))
                texts[id(a)] = ('s.loc.%s' % self.fields[tmp], inner['result'])
        out = []
        for s_, want in zip(slots, info['argtypes']):
            if id(s_) in texts:
                text, t = self.coerce(texts[id(s_)][0], texts[id(s_)][1], want, s_)
            else:
                text, t = self.expr(s_, fl, want)
            out.append(text)
        return out

    def _callee_defaults(self, sp):
        fdef = find_definition(self.tree, sp['qualname'])
        names = [a.arg for a in fdef.args.args]
        if sp.get('cls') is not None:
            names = names[1:]
        d = fdef.args.defaults
        out = {}
        for n, v in zip(names[len(names) - len(d):] if d else [], d):
            if not isinstance(v, ast.Constant):
                raise Unsupported(v, 'non-constant default')
            out[n] = v
        return out

    def call_stmt(self, node, info, fl, pre, target):
        """Lean text of `Blk.call…` for one effect call.  target: None (value dropped) | ('tmp', name) | ('loc', name)
        | ('attr', attribute) | ('ret',)"""
        args = self.hoist_args(node, info, fl, pre)
        rt = info['result']
        if target is None:
            k = 'fun s _ => s'
        elif target[0] in ('tmp', 'loc'):
            want = self.types[target[1]]
            v, _ = self.coerce('v', rt, want, node)
            k = 'fun s v => { s with loc := { s.loc with %s := %s } }' % (self.fields[target[1]], v)
        elif target[0] == 'attr':
            want = self.state[target[1]]
            v, _ = self.coerce('v', rt, want, node)
            k = 'fun s v => { s with self := { s.self with %s := %s } }' % (lean_field(target[1]), v)
        else:
            raise AssertionError(target)
        if info['kind'] == 'method':
            return 'Blk.callm (fun s st => %s st%s) (%s)' % (info['lean'], ''.join(' ' + a for a in args), k)
        return 'Blk.call (fun s => %s%s) (%s)' % (info['lean'], ''.join(' ' + a for a in args), k)

    # ---- statements
    def seq(self, items):
        items = [i for i in items if i != 'Blk.skip'] or ['Blk.skip']
        out = items[-1]
        for it in reversed(items[:-1]):
            out = 'Blk.seq (%s)\n(%s)' % (it, out)
        return out

    def block(self, stmts, fl):
        """-> (Lean text of a Blk, flow facts after it or None when it never falls through)"""
        items = []
        for i, st in enumerate(stmts):
            if fl is None:
                raise Unsupported(st, 'unreachable statement')
            if i == 0 and isinstance(st, ast.Expr) and isinstance(st.value, ast.Constant) \
                    and isinstance(st.value.value, str):
                continue
            text, fl = self.stmt(st, fl)
            items.append(text)
        return self.seq(items), fl

    def written(self, stmts):
        """(places possibly written by the statements, may they change attributes of self)"""
        places, self_too = set(), False
        for st in stmts:
            for n in ast.walk(st):
                if isinstance(n, ast.Name) and isinstance(n.ctx, ast.Store):
                    places.add(n.id)
                if isinstance(n, ast.Attribute) and isinstance(n.ctx, ast.Store):
                    self_too = True
                if isinstance(n, ast.Call) and isinstance(n.func, ast.Attribute) \
                        and isinstance(n.func.value, ast.Name) and n.func.value.id == 'self':
                    self_too = True
        return places, self_too

    def stmt(self, st, fl):
        if isinstance(st, ast.Pass):
            return 'Blk.skip', fl
        if isinstance(st, ast.Expr):
            if isinstance(st.value, ast.Constant) and isinstance(st.value.value, str):
                return 'Blk.skip', fl
            info = self.classify_call(st.value, fl)
            if info is None:
                raise Unsupported(st, 'expression statement that is not a call named in the spec')
            pre = []
            text = self.call_stmt(st.value, info, fl, pre, None)
            if info['kind'] == 'method':
                fl = fl.forget((), True)
            return self.seq(pre + [text]), fl
        if isinstance(st, ast.AugAssign):
            if not isinstance(st.op, (ast.BitOr, ast.BitAnd)):
                raise Unsupported(st, 'augmented assignment other than |= and &=')
            tgt = ast.copy_location(ast.Name(id=st.target.id, ctx=ast.Load()), st.target) \
                if isinstance(st.target, ast.Name) else None
            if tgt is None:
                raise Unsupported(st, 'augmented assignment to something that is not a local')
            new = ast.copy_location(ast.Assign(targets=[st.target],
                                               value=ast.copy_location(ast.BinOp(left=tgt, op=st.op, right=st.value),
                                                                       st)), st)
            return self.stmt(new, fl)
        if isinstance(st, ast.Assign):
            if len(st.targets) != 1:
                raise Unsupported(st, 'chained assignment')
            tg = st.targets[0]
            info = self.classify_call(st.value, fl)
            if isinstance(tg, ast.Name):
                if tg.id in self.exc_vars or tg.id == 'self':
                    raise Unsupported(st, 'assignment to %s' % tg.id)
                if info is not None:
                    self._local(tg.id, info['result'], st)
                    pre = []
                    text = self.call_stmt(st.value, info, fl, pre, ('loc', tg.id))
                    if info['kind'] == 'method':
                        fl = fl.forget((), True)
                    nn = [] if is_opt(info['result']) else [tg.id]
                    return self.seq(pre + [text]), fl.add(assigned=[tg.id], nonnull=nn, drop=[tg.id])
                if self.has_effect(st.value):
                    raise Unsupported(st.value, 'call inside an expression')
                text, t = self._expr(st.value, fl)
                self._local(tg.id, t, st)
                text, _ = self.coerce(text, t, self.types[tg.id], st)
                nn = [] if (t is NoneLit or is_opt(t)) else [tg.id]
                return ('Blk.assign (fun s => { s with loc := { s.loc with %s := %s } })' % (self.fields[tg.id], text),
                        fl.add(assigned=[tg.id], nonnull=nn, drop=[tg.id]))
            if isinstance(tg, ast.Attribute) and isinstance(tg.value, ast.Name) and tg.value.id == 'self' \
                    and self.cls is not None:
                if tg.attr not in self.state:
                    raise Unsupported(st, 'assignment to self.%s, which the spec does not declare' % tg.attr)
                key = 'self.' + tg.attr
                if info is not None:
                    pre = []
                    text = self.call_stmt(st.value, info, fl, pre, ('attr', tg.attr))
                    if info['kind'] == 'method':
                        fl = fl.forget((), True)
                    nn = [] if is_opt(info['result']) else [key]
                    return self.seq(pre + [text]), fl.add(nonnull=nn, drop=[key])
                if self.has_effect(st.value):
                    raise Unsupported(st.value, 'call inside an expression')
                text, t = self.expr(st.value, fl, self.state[tg.attr])
                raw_t = self._expr(st.value, fl)[1]
                nn = [] if (raw_t is NoneLit or is_opt(raw_t)) else [key]
                return ('Blk.assign (fun s => { s with self := { s.self with %s := %s } })' % (lean_field(tg.attr), text),
                        fl.add(nonnull=nn, drop=[key]))
            raise Unsupported(st, 'assignment target')
        if isinstance(st, ast.Return):
            if st.value is None or (isinstance(st.value, ast.Constant) and st.value.value is None):
                if self.R == 'None':
                    return 'Blk.ret (fun _ => ())', None
                if is_opt(self.R):
                    return 'Blk.ret (fun _ => none)', None
                raise Unsupported(st, 'return None from a function declared to return %s' % (self.R,))
            info = self.classify_call(st.value, fl)
            if info is not None:
                tmp = self._temp(info['result'])
                pre = []
                text = self.call_stmt(st.value, info, fl, pre, ('tmp', tmp))
                v, _ = self.coerce('s.loc.%s' % self.fields[tmp], info['result'], self.R, st)
                return self.seq(pre + [text, 'Blk.ret (fun s => %s)' % v]), None
            if self.has_effect(st.value):
                raise Unsupported(st.value, 'call inside an expression')
            text, _ = self.expr(st.value, fl, self.R)
            return 'Blk.ret (fun s => %s)' % text, None
        if isinstance(st, ast.Raise):
            if st.cause is not None:
                raise Unsupported(st, 'raise ... from')
            if st.exc is None:
                if not self.handler_stack:
                    raise Unsupported(st, 'bare raise outside an except clause')
                return 'Blk.raise (fun _ => %s)' % self.handler_stack[-1], None
            return 'Blk.raise (fun s => %s)' % self.raised(st.exc, fl), None
        if isinstance(st, ast.If):
            return self.if_stmt(st, fl)
        if isinstance(st, ast.Try):
            return self.try_stmt(st, fl)
        raise Unsupported(st, 'statement')

    def raised(self, node, fl):
        if isinstance(node, ast.Name) and node.id in self.exc_vars:
            return self.exc_vars[node.id]
        name, args = None, []
        if isinstance(node, ast.Name):
            name = node.id
        elif isinstance(node, ast.Call) and isinstance(node.func, ast.Name) and not node.keywords:
            name, args = node.func.id, node.args
        if name not in RAISABLE:
            raise Unsupported(node, 'raise of something that is not one of %s' % sorted(RAISABLE))
        for a in args:                       # the arguments are evaluated: they must be pure and defined
            self.pure_any(a, fl)
        kind, tag = RAISABLE[name]
        if kind == 'osError':
            if len(args) >= 2:
                text, _ = self.expr(args[0], fl, 'Nat')
                return '(PyRtC05.Exc.osError %s)' % text
            return 'PyRtC05.Exc.osErrorMsg'
        return '(PyRtC05.Exc.mk .%s none %d)' % (kind, tag)

    def pure_any(self, node, fl):
        """an expression evaluated for nothing but its definedness (arguments of an exception): constants, strings,
        f-strings / %-formats of readable places"""
        if isinstance(node, ast.Constant):
            return
        if isinstance(node, ast.JoinedStr):
            for v in node.values:
                if isinstance(v, ast.FormattedValue):
                    if v.format_spec is not None:
                        raise Unsupported(node, 'format spec')
                    self.pure_any(v.value, fl)
            return
        if isinstance(node, ast.BinOp) and isinstance(node.op, ast.Mod) and isinstance(node.left, ast.Constant) \
                and isinstance(node.left.value, str):
            for v in (node.right.elts if isinstance(node.right, ast.Tuple) else [node.right]):
                self.pure_any(v, fl)
            return
        self._expr(node, fl)

    def if_stmt(self, st, fl):
        pre, test = self.condition(st.test, fl)
        yes, no = self.narrow(st.test, fl)
        a, fa = self.block(st.body, yes)
        b, fb = self.block(st.orelse, no) if st.orelse else ('Blk.skip', no)
        text = 'Blk.ite (fun s => %s)\n(%s)\n(%s)' % (test, a, b)
        return self.seq(pre + [text]), meet(fa, fb)

    def condition(self, test, fl):
        """-> (statements to run first, Lean Bool text).  Effect calls inside the test (abstract operations only) are
        hoisted into temporaries; an operand of `and` / `or` that has an effect is evaluated only when Python does"""
        if not self.has_effect(test):
            return [], self.truth(test, fl)
        info = self.classify_call(test, fl)
        if info is not None:
            if info['kind'] != 'op' or info['result'] != 'Bool':
                raise Unsupported(test, 'condition: call of something that is not a Bool-valued abstract operation')
            tmp = self._temp('Bool')
            pre = []
            pre.append(self.call_stmt(test, info, fl, pre, ('tmp', tmp)))
            return pre, 's.loc.%s' % self.fields[tmp]
        if isinstance(test, ast.UnaryOp) and isinstance(test.op, ast.Not):
            pre, t = self.condition(test.operand, fl)
            return pre, '(!%s)' % t
        if isinstance(test, ast.BoolOp):
            # tmp = <first>; if [not] tmp: tmp = <next> ...   (short circuit made explicit)
            is_and = isinstance(test.op, ast.And)
            tmp = self._temp('Bool')
            fld = self.fields[tmp]
            pre0, t0 = self.condition(test.values[0], fl)
            out = pre0 + ['Blk.assign (fun s => { s with loc := { s.loc with %s := %s } })' % (fld, t0)]
            cur = fl
            for prev, v in zip(test.values, test.values[1:]):
                y, n = self.narrow(prev, cur)
                cur = y if is_and else n
                pre_i, t_i = self.condition(v, cur)
                inner = self.seq(pre_i + ['Blk.assign (fun s => { s with loc := { s.loc with %s := %s } })' % (fld, t_i)])
                out.append('Blk.ite (fun s => %ss.loc.%s)\n(%s)\n(Blk.skip)' % ('' if is_and else '!', fld, inner))
            return out, 's.loc.%s' % fld
        raise Unsupported(test, 'condition with a call in this position')

    def try_stmt(self, st, fl):
        wr_body, self_body = self.written(st.body)
        body, fb = self.block(st.body, fl)
        main, fmain = body, fb
        if st.handlers:
            # a handler starts from what held before the `try`, minus what the body may have overwritten
            fh0 = fl.forget(wr_body, self_body)
            arms, fhs = [], []
            seen_all = False
            for h in st.handlers:
                if seen_all:
                    raise Unsupported(h, 'handler after a catch-all handler')
                if h.type is None:
                    pred = 'isBase'
                elif isinstance(h.type, ast.Name) and h.type.id in EXC_KINDS:
                    pred = EXC_KINDS[h.type.id]
                else:
                    raise Unsupported(h, 'except clause for something other than %s' % sorted(EXC_KINDS))
                seen_all = pred == 'isBase'
                var = 'e%d' % (len(self.handler_stack) + 1)
                old_stack, old_vars = self.handler_stack, dict(self.exc_vars)
                self.handler_stack = tuple(self.handler_stack) + (var,)
                if h.name:
                    if h.name in self.types:
                        raise Unsupported(h, 'exception variable %s is also a local' % h.name)
                    self.exc_vars[h.name] = var
                try:
                    hb, fhb = self.block(h.body, fh0)
                finally:
                    self.handler_stack, self.exc_vars = old_stack, old_vars
                arms.append((pred, hb))
                fhs.append(fhb)
            var = 'e%d' % (len(self.handler_stack) + 1)
            sel = 'none'
            for pred, hb in reversed(arms):
                sel = 'if %s.%s then some (%s)\nelse %s' % (var, pred, hb, sel)
            if st.orelse:
                oe, foe = self.block(st.orelse, fb) if fb is not None else ('Blk.skip', None)
                if fb is None:
                    raise Unsupported(st, 'else clause of a try whose body never falls through')
            else:
                oe, foe = 'Blk.skip', fb
            main = 'Blk.tryExcept (%s)\n(fun %s => %s)\n(%s)' % (body, var, sel, oe)
            fmain = foe
            for f in fhs:
                fmain = meet(fmain, f)
            if fb is None and all(f is None for f in fhs):
                fmain = None
        elif st.orelse:
            raise Unsupported(st, 'try ... else without except')
        if st.finalbody:
            wr_all, self_all = self.written(st.body + [s for h in st.handlers for s in h.body] + st.orelse)
            ff0 = fl.forget(wr_all, self_all)
            old = self.handler_stack
            self.handler_stack = ()               # a bare `raise` inside `finally` is not translated
            try:
                fin, ffin = self.block(st.finalbody, ff0)
            finally:
                self.handler_stack = old
            main = 'Blk.tryFinally (%s)\n(%s)' % (main, fin)
            if ffin is None:
                fmain = None
            elif fmain is not None:
                wr_f, self_f = self.written(st.finalbody)
                fmain = Flow(fmain.assigned | ffin.assigned, fmain.forget(wr_f, self_f).nonnull)
        return main, fmain

    # ---- whole function
    def emit(self):
        fl0 = Flow([n for n, _, _ in self.params], [n for n, _, t in self.params if not is_opt(t)])
        self.block(self.fdef.body, fl0)          # first pass: settles the types of the locals (T, later None -> Option T)
        self.final_types = {n: t for n, t in self.types.items() if not n.startswith('%')}
        self._reset()
        body, fl = self.block(self.fdef.body, fl0)
        if fl is not None and not (self.R == 'None' or is_opt(self.R)):
            raise Unsupported(self.fdef, 'the function can fall off its end but is declared to return %s' % (self.R,))
        tp = ' '.join(self.tparams)
        name = self.spec['lean_name']
        inh = lambda t: 'default'
        lines = []
        lines.append('structure %s.L (%s : Type) where' % (name, tp))
        fields = []
        for pyname, f in self.fields.items():
            fields.append((f, self.types[pyname], pyname))
        for f, t, pyname in fields:
            lines.append('  %s : %s%s' % (f, show_type(t), '' if pyname == f or pyname.startswith('%') else '    -- ' + pyname))
        if not fields:
            lines.append('  mk ::')
        lines.append('')
        S = ('%s.St %s' % (self.cls['lean_name'], tp)) if self.cls is not None else 'Unit'
        lines.append('def %s.body (sys : Sys W %s) : Blk (Fr (%s) (%s.L %s) W) %s :=' % (
            name, tp, S, name, tp, show_type(self.R, False)))
        lines.append(indent_lean(body))
        lines.append('')
        pars = ''.join(' (%s : %s)' % (f, show_type(t)) for _, f, t in self.params)
        init = ', '.join(['%s := %s' % (f, f) for _, f, _ in self.params]
                         + ['%s := default' % f for f, _, pyname in fields if pyname not in self.spec['params']])
        init = '{ %s }' % init if fields else '⟨⟩'
        if self.cls is not None:
            lines.append('def %s (sys : Sys W %s) (self : %s)%s (w : W) : Except Exc %s × %s × W :=' % (
                name, tp, S, pars, show_type(self.R, False), S))
            lines.append('  runMethod (%s.body sys) self %s w' % (name, init))
        else:
            lines.append('def %s (sys : Sys W %s)%s (w : W) : Except Exc %s × W :=' % (
                name, tp, pars, show_type(self.R, False)))
            lines.append('  runFunction (%s.body sys) %s w' % (name, init))
        return '\n'.join(lines) + '\n'


def indent_lean(text):
    """indent by parenthesis depth (the text is a tree of combinator applications, one per line group)"""
    out, depth = [], 1
    for line in text.split('\n'):
        lead = 0
        for ch in line:
            if ch == ')':
                lead += 1
            else:
                break
        out.append('  ' * max(depth - lead, 1) + line)
        depth += line.count('(') - line.count(')')
    return '\n'.join(out)


# ---------------------------------------------------------------------------------------------- module
def sys_record_text(eff):
    tp = eff['tparams']
    pt = lambda s: parse_type(s, tp)
    lines = ['/-- the external operations the translated code calls (spec-declared), over an abstract world `W` -/',
             'structure Sys (W %s : Type) where' % ' '.join(tp)]
    for py, (f, ats, rt) in eff['ops'].items():
        lines.append('  %s : %sW → Except Exc %s × W    -- %s' % (
            f, ''.join(show_type(pt(a), False) + ' → ' for a in ats), show_type(pt(rt), False), py))
    for typ, ms in eff.get('methods_of', {}).items():
        for m, (f, ats, rt) in ms.items():
            lines.append('  %s : %s → %sW → Except Exc %s × W    -- <%s>.%s' % (
                f, typ, ''.join(show_type(pt(a), False) + ' → ' for a in ats), show_type(pt(rt), False), typ, m))
    return '\n'.join(lines) + '\n'


def class_state_text(cls, eff):
    tp = eff['tparams']
    lines = ['/-- object state of `%s` (the attributes declared in the spec) -/' % cls['name'],
             'structure %s.St (%s : Type) where' % (cls['lean_name'], ' '.join(tp))]
    for a, t in cls['state'].items():
        f = lean_field(a)
        lines.append('  %s : %s%s' % (f, show_type(parse_type(t, tp)), '' if f == a else '    -- ' + a))
    return '\n'.join(lines) + '\n'


def translate_source(src, specs, module_name, rel):
    tree = ast.parse(src)
    short = specs[0].get('gen_file') or module_name.split('.')[-1]
    eff = specs[0]['effect']
    eff['_all_specs'] = specs
    tp = ' '.join(eff['tparams'])
    parts, infos, head = [], [], []
    emitted, classes = [], []
    parts.append(sys_record_text(eff))
    for spec in specs:
        if spec['effect'] is not eff:
            raise RuntimeError('one generated file = one effect description')
        cls = spec.get('cls')
        if cls is not None and cls['lean_name'] not in classes:
            classes.append(cls['lean_name'])
            parts.append(class_state_text(cls, eff))
    parts.append('section\nvariable {W %s : Type} %s\n' % (tp, ' '.join('[Inhabited %s]' % t for t in eff['tparams'])))
    for spec in specs:
        info = {'function': '%s.%s' % (module_name, spec['qualname']), 'source_file': rel, 'lines': None,
                'lean_def': 'Src.%s.%s' % (short, spec['lean_name']), 'lean_pre': None,
                'tie_theorem': spec['tie_theorem']}
        infos.append(info)
        try:
            fdef = find_definition(tree, spec['qualname'])
            info['lines'] = '%d-%d' % (fdef.lineno, fdef.end_lineno)
            text = EffTranslator(fdef, spec, tree, emitted).emit()
            emitted.append(spec)
        except (Unsupported, RecursionError) as e:
            info['error'] = str(e) or type(e).__name__
            parts.append('-- NOT TRANSLATED: %s: %s\n' % (spec['qualname'], info['error'].replace('\n', ' ')))
            head.append('  %s -> NOT TRANSLATED' % spec['qualname'])
            continue
        parts.append(text)
        head.append('  %s (lines %s) -> Src.%s.%s' % (spec['qualname'], info['lines'], short, spec['lean_name']))
    parts.append('end\n')
    out = ('/- GENERATED by harness/py2lean_c05.py (effect mode) from %s - do not edit.\n'
           '   Compositional translation of the current source text (rules: notes/SRCTIE.md, "Effect mode"):\n%s\n-/\n'
           'import BoltonsVerif.PyRtC05\n\nnamespace Src.%s\nopen PyRtC05\n\n%s\nend Src.%s\n' % (
               rel, '\n'.join(head), short, '\n'.join(parts), short))
    return out, infos


def translate_module(module_name, specs, repo):
    mod = importlib.import_module(module_name)
    path = os.path.abspath(inspect.getsourcefile(mod))
    if not path.startswith(os.path.abspath(repo) + os.sep):
        raise RuntimeError('%s imported from %s, not from %s' % (module_name, path, repo))
    with open(path) as fh:
        src = fh.read()
    return translate_source(src, specs, module_name, os.path.relpath(path, os.path.abspath(repo)))
