#!/usr/bin/env python3
"""Point every `fixed` entry of known_findings/Cxx.json at the commit of /repo's main branch that carries the fix.

The fixes were first committed on per-property work branches and then cherry-picked onto /repo's main branch, which
gave them new hashes.  A fixed entry's text starts with `fixed: property=Cxx <hash> <subject of the fix commit>`; the
entry is matched to the `fix:` commit of /repo with the most similar subject, and `commit` + the text are rewritten.
Run by hand (never by a check); prints what it changed."""
import difflib
import json
import os
import re
import subprocess
import sys

VERIF = os.path.abspath(os.path.join(os.path.dirname(__file__), '..'))
REPO = os.environ.get('BOLTONS_REPO', '/repo')


# finding id -> commit on /repo's main branch that carries the fix (checked by hand against `git log -- boltons/<module>.py`)
MAIN_COMMIT = {
    'C01-update-repeated-new-key': '7bc8e18', 'C01-eq-mapping-values': '77ae5e0', 'C01-addlist-iterator': 'a18279b',
    'C01-popitem': '2d7340d', 'C01-copy-module': 'b9a1254', 'C01-eq-omd-none-pair': '1bb13e6',
    'C01-update-extend-kwargs': '949c784', 'C01-update-self-kwargs': 'cf88bcb',
    'C02-ior-bypasses-ring': 'b5a1252', 'C02-copy-perturbs-source-loses-order': '884e969', 'C02-copy-dict-order-not-recency': '884e969',
    'C02-eq-dict-recursion': '66dfc7e', 'C02-get-soft-miss-outside-lock': 'cf94e01',
    'C05-exit-error-leaves-part': '1fbe23b', 'C05-exit-error-leaves-part-fsync': '1fbe23b', 'C05-exit-error-leaves-part-close': '1fbe23b',
    'C05-setup-error-leaves-part': '99d5a15', 'C05-fdopen-error-leaves-part': '99d5a15', 'C05-stat-error-swallowed': '849c4dc',
    'C05-relative-part-path': '2646cb7',
    'C06-semicolon-query': '68e4307', 'C06-idna-host': 'f8d38ea', 'C06-idna-host-links': 'f8d38ea', 'C06-nul-host': 'bb81f2a',
    'C06-nul-host-v6': 'bb81f2a', 'C06-empty-username': '428f08e', 'C06-blank-query-value': '2cb9358', 'C06-fragment-newline': 'fc64015',
    'C06-rootless-path-authority': 'a54286b', 'C06-empty-authority-slashes': '91b2267', 'C06-relative-colon-segment': '7038b1d',
    'C07-empty-base-path-root': '4b3b454', 'C07-ipv6-family-lost': '95eadb7',
    'C09-split-maxsplit-zero': 'd40891c', 'C09-split-none-after-last-split': '233c56c',
    'C10-barrel-insert-at-end': '82f78c4', 'C10-barrel-insert-at-end-direct': '82f78c4',
    'C11-slice-after-removal': '725537b', 'C11-update-nary': 'ddccfbd', 'C11-intersection-update-nary': 'bb3fda3',
    'C11-difference-update-nary': '3c3631e', 'C11-cull-stale-interval': '035d0fa', 'C11-issuperset-duplicates': '3802705',
    'C11-symmetric-difference-update-duplicates': '48ebeca',
    'C13-expected-shifts-defaults': '0efc8bb', 'C13-doc-none': 'dfcab9f', 'C13-call-name-shadowed': '568e2e9', 'C13-call-name-rebound': '568e2e9',
    'C15-default-count-float-edge': '354977b', 'C15-default-count-zero-start': '354977b', 'C15-default-count-zero-start-raises': '354977b',
    'C15-default-count-overflow': '354977b',
    'C16-indexerror-no-exception-line': '5f8ff4a', 'C16-qualname': 'd660f84', 'C16-empty-message': 'a967937', 'C16-legacy-module-names': 'dfc5ca5',
    'C17-oto-update-iterator': 'e808cea', 'C17-oto-ior': 'faf1c4d', 'C17-m2m-replace-existing': '80b27fc', 'C17-m2m-update-aliasing': '9b9b34a',
    'C18-stringio-len-moves': '5848c8f', 'C18-stringio-list-after-seek': '5848c8f', 'C18-mfr-seek0-index': 'a32a964',
    'C18-stringio-rollover-readahead': '34d9e42',
    'C19-x2028-typo': '9dc056b', 'C19-reverse-leftover-buffer': '0cf9c84', 'C19-jsonl-reverse-leading-blank': '0cf9c84',
    'C20-most-common-none': '465b022', 'C20-update-mapping': '77947b3',
}


def main():
    log = subprocess.run(['git', '-C', REPO, 'log', '--format=%h\t%s'], capture_output=True, text=True, check=True).stdout
    fixes = [l.split('\t', 1) for l in log.splitlines() if '\tfix:' in l]
    subjects = {h: s[4:].strip() for h, s in fixes}
    changed = 0
    for f in sorted(os.listdir(os.path.join(VERIF, 'known_findings'))):
        p = os.path.join(VERIF, 'known_findings', f)
        d = json.load(open(p))
        for e in d['findings']:
            if e.get('status') != 'fixed':
                continue
            m = re.match(r'fixed: property=(C\d\d) (\w+) (.*)', e['what_fails'], re.S)
            if not m:
                print('?? cannot parse', e['id'])
                continue
            subj = m.group(3).split(' -- before:')[0]
            if e['id'] in MAIN_COMMIT:
                best, ratio = MAIN_COMMIT[e['id']], 1.0
                if best not in subjects:
                    print('?? %s: %s is not a fix: commit of %s' % (e['id'], best, REPO))
                    continue
            else:
                best = max(subjects, key=lambda h: difflib.SequenceMatcher(None, subjects[h].lower(), subj.lower()[:len(subjects[h]) + 40]).ratio())
                ratio = difflib.SequenceMatcher(None, subjects[best].lower(), subj.lower()[:len(subjects[best]) + 40]).ratio()
            ok = subprocess.run(['git', '-C', REPO, 'merge-base', '--is-ancestor', e.get('commit') or 'x', 'HEAD'],
                                capture_output=True).returncode == 0
            if ok:
                continue
            if ratio < 0.8:
                print('?? %s: no confident match (best %s %.2f %r)' % (e['id'], best, ratio, subjects[best]))
                continue
            old = e.get('commit')
            e['commit'] = best
            e['what_fails'] = e['what_fails'].replace('property=%s %s ' % (m.group(1), m.group(2)), 'property=%s %s ' % (m.group(1), best), 1)
            changed += 1
            print('%s: %s -> %s (%.2f) %s' % (e['id'], old, best, ratio, subjects[best][:70]))
        if '--write' in sys.argv:
            json.dump(d, open(p, 'w'), indent=1, ensure_ascii=False)
            open(p, 'a').write('\n')
    print('changed', changed, '(written)' if '--write' in sys.argv else '(dry run; pass --write)')


if __name__ == '__main__':
    main()
