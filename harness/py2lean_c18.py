"""py2lean_c18 - source translator for the file-like classes of boltons/ioutils.py (SrcTie, round 3c).

`harness/py2lean.py` translates pure / container code.  The classes of `boltons.ioutils` are GLUE around objects of
the standard library (`io.BytesIO`, `tempfile.TemporaryFile`, `os.fstat`): almost every statement is a call of a
method of such an object.  Those objects are not translated: they are SPEC-DECLARED ABSTRACT OPERATIONS
(`FILE_OPS` below -> `lean/BoltonsVerif/PyRtC18.lean`, `FileObj`), whose behaviour is the abstract file of the C18
hand model (`C18.File`) itself.  This module translates the glue, statement by statement and compositionally,
into the statement combinators of PyRtC18 (`seq`, `assign`, `cond`, `bindE`, `whileLoop`, `ret`, `raise`), with
exceptions as values and the object state threaded exactly as in py2lean's raising mode
(result `Except PyExc R x Cls.St`; the state component is the state also when the call raises).

Rules: notes/SRCTIE.md section 2c.  Anything not listed there raises `Unsupported`: the method is then "not
translated", no definition is emitted and its tie theorems stop checking.  Trusted like py2lean.py; validated
against CPython by `selftest` below (hooked into py2lean_selftest.run).

Public API (called through dispatch lines of py2lean.generate / py2lean_selftest.run):
    generate(pid, repo, specs) -> ({generated file name: text}, infos)
    selftest(pids, quick, seed, verbose) -> (number of mismatches, report)
"""
from __future__ import annotations

import ast
import importlib
import inspect
import os

from py2lean import Unsupported, indent, mangle, lean_field, EXC_NAMES

# ------------------------------------------------------------------------------------------------ types
INT, BOOL, UNIT, SEQ, FILE, OPAQUE, FD = ('Int',), ('Bool',), ('Unit',), ('Seq',), ('File',), ('Opaque',), ('Fd',)
CFILE, EBYTES = ('CFile',), ('EBytes',)     # the codec file of SpooledStringIO; utf-8 encoded text (code units)
PARTS, FILES = ('List', SEQ), ('List', FILE)
_ATOMS = {'Int': INT, 'Bool': BOOL, 'None': UNIT, 'Unit': UNIT, 'Bytes': SEQ, 'Seq': SEQ, 'File': FILE,
          'Opaque': OPAQUE, 'Fd': FD, 'CFile': CFILE, 'EBytes': EBYTES, 'Str': SEQ}


def parse_type(text):
    toks = text.split()
    if not toks:
        raise ValueError('bad type %r' % text)
    if toks[0] in ('Option', 'List') and len(toks) >= 2:
        return (toks[0], parse_type(' '.join(toks[1:])))
    if len(toks) == 1 and toks[0] in _ATOMS:
        return _ATOMS[toks[0]]
    raise ValueError('bad type %r' % text)


def show_type(t, unit, top=True):
    k = t[0]
    if k == 'Int':
        r = 'Int'
    elif k == 'Bool':
        r = 'Bool'
    elif k in ('Unit', 'Opaque'):
        r = 'Unit'
    elif k == 'Seq':
        r = 'List %s' % unit
    elif k == 'File':
        r = 'PyRtC18.FileObj %s' % unit
    elif k == 'Fd':
        r = 'PyRtC18.FileObj.Fd'
    elif k == 'CFile':
        r = 'PyRtC18.CFile'
    elif k == 'EBytes':
        r = 'List C18.CU'
    elif k in ('Option', 'List'):
        r = '%s %s' % (k, show_type(t[1], unit, False))
    else:
        raise ValueError(t)
    return r if top or ' ' not in r else '(' + r + ')'


def default_of(t, unit):
    k = t[0]
    if k == 'Int':
        return '(0 : Int)'
    if k == 'Bool':
        return 'false'
    if k in ('Unit', 'Opaque'):
        return '()'
    if k in ('Seq', 'List', 'EBytes'):
        return '([] : %s)' % show_type(t, unit)
    if k in ('File', 'Fd', 'CFile'):
        return '(default : %s)' % show_type(t, unit)
    if k == 'Option':
        return '(none : %s)' % show_type(t, unit)
    raise ValueError(t)


# ------------------------------------------------------------------------- the spec-declared abstract operations
# method of a file object -> [(parameter types, result type, Lean function, changes the object?)]
# (PyRtC18.FileObj; what each does is specified THERE, in terms of the hand model's `C18.File`)
FILE_OPS = {
    'read': [((INT,), SEQ, 'PyRtC18.FileObj.read', True), ((), SEQ, 'PyRtC18.FileObj.readAll', True)],
    'tell': [((), INT, 'PyRtC18.FileObj.tell', False)],
    'seek': [((INT, INT), INT, 'PyRtC18.FileObj.seek', True), ((INT,), INT, 'PyRtC18.FileObj.seek', True)],
    'write': [((SEQ,), INT, 'PyRtC18.FileObj.write', True)],
    'readline': [((INT,), SEQ, 'readline', True), ((), SEQ, 'readline', True)],
    'getvalue': [((), SEQ, 'PyRtC18.FileObj.getvalue', False)],
    'close': [((), UNIT, 'PyRtC18.FileObj.close', True)],
    'flush': [((), UNIT, 'PyRtC18.FileObj.flush', True)],
    'truncate': [((), INT, 'PyRtC18.FileObj.truncate', True)],
    'fileno': [((), FD, 'PyRtC18.FileObj.fileno', False)],
}
FILE_ATTRS = {'closed': (BOOL, 'PyRtC18.FileObj.isClosed')}
# the codec file `codecs.EncodedFile(stream, data_encoding='utf-8')` (PyRtC18.CFile = the hand model's stream + Reader)
CFILE_OPS = {
    'tell': [((), INT, 'PyRtC18.CFile.tell', False)],
    'write': [((EBYTES,), UNIT, 'PyRtC18.CFile.write', True)],
    'seek': [((INT,), UNIT, 'PyRtC18.CFile.seek', True)],
    'getvalue': [((), EBYTES, 'PyRtC18.CFile.getvalue', False)],
    'close': [((), UNIT, 'PyRtC18.CFile.close', True)],
}
CFILE_ATTRS = {'closed': (BOOL, 'PyRtC18.CFile.isClosed')}
# module-level names whose value is a constant of the standard library
CONSTS = {('os', 'SEEK_SET'): 0, ('os', 'SEEK_CUR'): 1, ('os', 'SEEK_END'): 2}
# exception classes: py2lean's, and OSError (only raised, never caught, by the translated methods) -> `Other`
EXC_MAP = dict({n: n for n in EXC_NAMES}, OSError='Other', NotImplementedError='Other')


def _is_self(node, self_name):
    return isinstance(node, ast.Name) and node.id == self_name


def _terminates(stmts):
    if not stmts:
        return False
    last = stmts[-1]
    if isinstance(last, (ast.Return, ast.Raise, ast.Break, ast.Continue)):
        return True
    if isinstance(last, ast.If):
        return _terminates(last.body) and _terminates(last.orelse)
    return False


# ------------------------------------------------------------------------------------------------ class lookup

class ClassCtx:
    """the class description of the spec + the module tree: method lookup along the declared `mro`"""

    def __init__(self, cls, tree):
        self.cls, self.tree = cls, tree
        self.unit = cls.get('unit') or 'β'
        self.state = {a: parse_type(t) for a, t in cls['state'].items()}
        self.defs = {}
        for cname in cls.get('mro', [cls['name']]):
            cdef = None
            for n in tree.body:
                if isinstance(n, ast.ClassDef) and n.name == cname:
                    cdef = n
            if cdef is None:
                raise Unsupported('class', 'class %s not found' % cname)
            for n in cdef.body:
                if isinstance(n, ast.FunctionDef):
                    cur = self.defs.setdefault(n.name, (cname, n))
                    if cur[0] == cname:
                        self.defs[n.name] = (cname, n)      # the LAST definition in a class body wins
                elif isinstance(n, ast.Assign):
                    for t in n.targets:                     # `next = __next__` and the like: not translated
                        if isinstance(t, ast.Name):
                            self.defs.setdefault(t.id, (cname, None))
        self._mut = {}

    def st_type(self):
        return '%s.St%s' % (self.cls['lean_name'], '' if self.cls.get('unit') else ' β')

    def tbinder(self):
        return '' if self.cls.get('unit') else '{β : Type} [Inhabited β] '

    def find(self, pyname):
        """(defining class, FunctionDef, is_property) of attribute `pyname`, or None"""
        got = self.defs.get(pyname)
        if got is None:
            return None
        cname, fdef = got
        if fdef is None:
            raise Unsupported('class', '%s.%s is not a plain method' % (cname, pyname))
        prop = False
        for d in fdef.decorator_list:
            if isinstance(d, ast.Name) and d.id == 'property':
                prop = True
            else:
                raise Unsupported(fdef, 'decorator of %s.%s' % (cname, pyname))
        return cname, fdef, prop

    def spec_of(self, pyname):
        for sp in self.cls['methods']:
            if sp['py'] == pyname:
                return sp
        return None

    def buffer_prop(self):
        return self.cls.get('buffer_property')

    def check_buffer_property(self):
        """the lazily creating property `buffer` is accepted in ONE normal form only:
               try: return self.<field>
               except AttributeError: self.<field> = <New>()
               return self.<field>
        and then `self.buffer` IS the file object in state field <field>, which a fresh object holds as an empty
        file of kind <New> (the spec's `new`; the tie's initial state says the same)."""
        bp = self.buffer_prop()
        if not bp:
            return
        got = self.find(bp['name'])
        if got is None or not got[2]:
            raise Unsupported('class', 'property %s not found' % bp['name'])
        f = got[1]
        body = [s for s in f.body if not (isinstance(s, ast.Expr) and isinstance(s.value, ast.Constant))]
        sn = f.args.args[0].arg

        def is_field(e):
            return isinstance(e, ast.Attribute) and _is_self(e.value, sn) and e.attr == bp['field']
        ok = (len(body) == 2 and isinstance(body[0], ast.Try) and isinstance(body[1], ast.Return)
              and is_field(body[1].value))
        if ok:
            t = body[0]
            ok = (len(t.body) == 1 and isinstance(t.body[0], ast.Return) and is_field(t.body[0].value)
                  and len(t.handlers) == 1 and isinstance(t.handlers[0].type, ast.Name)
                  and t.handlers[0].type.id == 'AttributeError' and t.handlers[0].name is None
                  and not t.orelse and not t.finalbody and len(t.handlers[0].body) == 1)
        if ok:
            a = body[0].handlers[0].body[0]
            want = bp['new'] if '(' in bp['new'] else bp['new'] + '()'
            ok = (isinstance(a, ast.Assign) and len(a.targets) == 1 and is_field(a.targets[0])
                  and ast.dump(a.value) == ast.dump(ast.parse(want, mode='eval').body))
        if not ok:
            raise Unsupported(f, 'property %s is not in the accepted normal form (lazily created %s)'
                              % (bp['name'], bp['new'] if '(' in bp['new'] else bp['new'] + '()'))

    def mutates(self, pyname, seen=()):
        """syntactic: does the method (or one it calls on `self`) change the object state?"""
        if pyname in self._mut:
            return self._mut[pyname]
        if pyname in seen:
            return False
        got = self.find(pyname)
        if got is None:
            raise Unsupported('class', 'no method %s' % pyname)
        fdef = got[1]
        sn = fdef.args.args[0].arg
        bp = self.buffer_prop()
        res = False
        for n in ast.walk(fdef):
            tg = []
            if isinstance(n, ast.Assign):
                tg = n.targets
            elif isinstance(n, (ast.AugAssign, ast.AnnAssign)):
                tg = [n.target]
            elif isinstance(n, ast.Delete):
                tg = n.targets
            for t in tg:
                for e in ast.walk(t):
                    if isinstance(e, ast.Attribute) and _is_self(e.value, sn):
                        res = True
            if isinstance(n, ast.Attribute) and _is_self(n.value, sn) and isinstance(n.ctx, ast.Load):
                if bp and n.attr == bp['name']:
                    continue
                if n.attr in self.defs and n.attr not in self.state:
                    if self.mutates(n.attr, seen + (pyname,)):
                        res = True
            if isinstance(n, ast.Call) and isinstance(n.func, ast.Attribute) and n.func.attr in FILE_OPS:
                # an operation on a file object reached from `self` (not on a local file object)
                if any(v[3] for v in FILE_OPS[n.func.attr]) and not isinstance(n.func.value, ast.Name):
                    res = True
            if isinstance(n, ast.For):
                res = res or not isinstance(n.iter, ast.Name)
        self._mut[pyname] = res
        return res


# ------------------------------------------------------------------------------------------------ one method

class Hoist:
    """the operations bound before the statement, in Python's evaluation order"""

    def __init__(self):
        self.binds = []          # (variable, Lean term of type  σ → Except PyExc α × σ)
        self.pure_self_reads = frozenset()  # attributes read by pure fragments that are still pending
        self.n = 0


class Method:
    def __init__(self, cc: ClassCtx, spec: dict):
        self.cc, self.spec = cc, spec
        got = cc.find(spec['py'])
        if got is None:
            raise Unsupported('class', 'no definition of %s' % spec['py'])
        self.defcls, self.f, self.is_prop = got
        self.unit = cc.unit
        self.name = '%s.%s' % (cc.cls['lean_name'], spec['name'])
        self.result_t = parse_type(spec['result'])
        a = self.f.args
        if a.kwonlyargs or a.posonlyargs or a.kwarg:
            raise Unsupported(self.f, 'only plain positional parameters')
        names = [x.arg for x in a.args]
        self.self_name = names[0]
        names = names[1:]
        if a.vararg:
            names.append(a.vararg.arg)
        for fn in spec.get('fixed', {}):
            if fn not in names:
                raise Unsupported(self.f, 'the spec fixes a parameter %s the method does not have' % fn)
        names = [n for n in names if n not in spec.get('fixed', {})]
        if list(spec['params']) != names:
            raise Unsupported(self.f, 'parameter list %s differs from the spec %s' % (names, list(spec['params'])))
        self.params = [(n, parse_type(spec['params'][n])) for n in names]
        self.vars = dict(self.params)           # python name -> type; locals added in order of first binding
        self.locals = []
        self.uses_while = False
        self.loop_defs = []
        self.counter = 0

    # -- names
    @property
    def st(self):
        return '%s.St%s' % (self.name, '' if self.cc.cls.get('unit') else ' β')

    def field(self, pyname):
        if pyname in self.spec['params']:
            return mangle(pyname)
        return 'loc%d' % (self.locals.index(pyname) + 1)

    def ty(self, t):
        return show_type(t, self.unit)

    def fresh(self, base='v'):
        self.counter += 1
        return '%s%d' % (base, self.counter)

    # -- expressions ---------------------------------------------------------------------------------
    def lift_self(self, app):
        """an operation on the object itself: `app` : Except PyExc α × Cls.St (a term over `s`)"""
        return '(fun s => let r := %s; (r.1, { s with self := r.2 }))' % app

    def lift_field(self, attr, app_of):
        f = lean_field(attr)
        return ('(fun s => let r := %s; (r.1, { s with self := { s.self with %s := r.2 } }))'
                % (app_of('s.self.%s' % f), f))

    def lift_local(self, name, app_of):
        f = self.field(name)
        return '(fun s => let r := %s; (r.1, { s with %s := r.2 }))' % (app_of('s.%s' % f), f)

    def hoist(self, h: Hoist, mterm, mutating, node):
        """`mutating`: False | True (any attribute may change) | the set of attributes the operation may change"""
        if mutating and (h.pure_self_reads if mutating is True else (h.pure_self_reads & frozenset(mutating))):
            raise Unsupported(node, 'a state-changing call after a read of the object state in the same statement')
        h.n += 1
        v = self.fresh('v')
        h.binds.append((v, mterm))
        return v

    def receiver(self, node, env):
        """a file-object expression as the receiver of an operation:
        ('field', attr) | ('local', name) | ('item', attr, index node)"""
        bp = self.cc.buffer_prop()
        if isinstance(node, ast.Attribute) and _is_self(node.value, self.self_name):
            if bp and node.attr == bp['name']:
                return ('field', bp['field'])
            if self.cc.state.get(node.attr) in (FILE, CFILE):
                return ('field', node.attr)
        if isinstance(node, ast.Name) and node.id in env.get('loopfile', ()):
            return ('loopvar', node.id)
        if isinstance(node, ast.Name) and self.vars.get(node.id) in (FILE, CFILE):
            return ('local', node.id)
        if isinstance(node, ast.Subscript) and isinstance(node.value, ast.Attribute) \
                and _is_self(node.value.value, self.self_name) and self.cc.state.get(node.value.attr) == FILES \
                and not isinstance(node.slice, ast.Slice):
            return ('item', node.value.attr, node.slice)
        return None

    def file_op(self, node, h, env, opvar='o'):
        """`<file>.<op>(args)` -> (receiver, op term `fun o => …` text builder, result type, mutating)"""
        rc = self.receiver(node.func.value, env)
        if rc is None:
            return None
        m = node.func.attr
        OPS = CFILE_OPS if self.rc_type(rc) == CFILE else FILE_OPS
        if m not in OPS:
            raise Unsupported(node, 'operation %s of a file object is not declared' % m)
        if node.keywords:
            raise Unsupported(node, 'keyword arguments of a file operation')
        saved = h.pure_self_reads
        args = [self.expr(a, h, env) for a in node.args]
        h.pure_self_reads = saved               # the arguments are evaluated inside the bound operation
        for ptypes, rt, lean, mut in OPS[m]:
            if len(ptypes) == len(args) and all(self.fits(at, pt) for (_, at), pt in zip(args, ptypes)):
                terms = [self.coerce(e, at, pt, node) for (e, at), pt in zip(args, ptypes)]
                if m == 'readline' and OPS is FILE_OPS:
                    nl = self.cc.cls.get('nl')
                    if not nl:
                        raise Unsupported(node, 'readline: the spec declares no newline test')
                    arg = '(some %s)' % terms[0] if terms else 'none'
                    return rc, (lambda o, nl=nl, arg=arg: 'PyRtC18.FileObj.readline %s %s %s' % (nl, o, arg)), rt, mut
                if m == 'seek' and len(terms) == 1 and OPS is FILE_OPS:
                    terms = terms + ['(0 : Int)']
                return rc, (lambda o, lean=lean, terms=terms: ' '.join([lean, o] + terms)), rt, mut
        raise Unsupported(node, 'arguments of file operation %s' % m)

    def rc_type(self, rc):
        if rc[0] == 'field':
            return self.cc.state[rc[1]]
        if rc[0] == 'local':
            return self.vars[rc[1]]
        return FILE

    def bind_op(self, rc, app_of, mut, h, env, node):
        """bind one operation on the file object `rc`; -> the variable holding its value"""
        if rc[0] == 'field':
            return self.hoist(h, self.lift_field(rc[1], app_of), {rc[1]} if mut else False, node)
        if rc[0] == 'local':
            return self.hoist(h, self.lift_local(rc[1], app_of), False, node)
        if rc[0] == 'item':
            saved = h.pure_self_reads
            ix, it = self.expr(rc[2], h, env)
            h.pure_self_reads = saved
            if it != INT:
                raise Unsupported(node, 'index of a tuple of files')
            f = lean_field(rc[1])
            m = ('(fun s => let r := PyRtC18.atFile s.self.%s %s (fun o => %s); '
                 '(r.1, { s with self := { s.self with %s := r.2 } }))' % (f, ix, app_of('o'), f))
            return self.hoist(h, m, {rc[1]} if mut else False, node)
        raise Unsupported(node, 'a file object of a loop used outside the accepted loop forms')

    @staticmethod
    def fits(at, pt):
        return at == pt or (pt[0] == 'Option' and (at == pt[1] or at == ('Option', None)))

    def coerce(self, e, at, pt, node):
        if at == pt:
            return e
        if pt[0] == 'Option' and at == pt[1]:
            return '(some %s)' % e
        if pt[0] == 'Option' and at == ('Option', None):
            return 'none'
        raise Unsupported(node, 'a value of type %s where %s is expected' % (at, pt))

    def expr(self, node, h: Hoist, env):
        """-> (Lean term over `s` and the bound variables, type)"""
        nn = env.get('nn', frozenset())
        if isinstance(node, ast.Constant):
            v = node.value
            if v is None:
                return 'none', ('Option', None)
            if isinstance(v, bool):
                return ('true' if v else 'false'), BOOL
            if isinstance(v, int):
                return '(%d : Int)' % v, INT
            if isinstance(v, (bytes, str)) and len(v) == 0:
                return '([] : %s)' % self.ty(SEQ), SEQ
            raise Unsupported(node, 'constant %r' % (v,))
        if isinstance(node, ast.Name) and node.id in self.spec.get('fixed', {}):
            return '(%d : Int)' % self.spec['fixed'][node.id], INT      # a parameter this variant fixes
        if isinstance(node, ast.Name) and node.id in self.cc.cls.get('module_params', {}) \
                and node.id not in self.vars:
            # a module-level constant the class reads: a field of the object state (the tie says what it holds)
            f = self.cc.cls['module_params'][node.id]
            h.pure_self_reads = h.pure_self_reads | {f}
            return 's.self.%s' % lean_field(f), self.cc.state[f]
        if isinstance(node, ast.Name):
            if node.id in env.get('bound', {}):
                return env['bound'][node.id]
            if node.id not in self.vars:
                raise Unsupported(node, 'name %s' % node.id)
            if node.id not in env['assigned'] and node.id not in self.spec['params']:
                raise Unsupported(node, 'local %s may be unbound here' % node.id)
            t = self.vars[node.id]
            if t in (FILE, CFILE) or t == FILES and node.id not in self.spec['params']:
                raise Unsupported(node, 'a file object used as a value')
            if t[0] == 'Option' and node.id in nn and t[1] in (INT,):
                return '(PyRt.unwrap s.%s)' % self.field(node.id), t[1]
            return 's.%s' % self.field(node.id), t
        if isinstance(node, ast.Attribute):
            if isinstance(node.value, ast.Name) and (node.value.id, node.attr) in CONSTS \
                    and node.value.id not in self.vars:
                return '(%d : Int)' % CONSTS[(node.value.id, node.attr)], INT
            if _is_self(node.value, self.self_name):
                if node.attr in self.cc.state:
                    t = self.cc.state[node.attr]
                    if t in (FILE, FILES, CFILE):
                        raise Unsupported(node, 'a file object of the state used as a value')
                    h.pure_self_reads = h.pure_self_reads | {node.attr}
                    return 's.self.%s' % lean_field(node.attr), t
                got = self.cc.find(node.attr)
                if got is not None and got[2]:
                    return self.call_method(node.attr, [], [], h, env, node, prop=True)
                raise Unsupported(node, 'attribute %s is not declared in the spec' % node.attr)
            # attribute of a file object: `<file>.closed`
            rc = self.receiver(node.value, env)
            if rc is not None and node.attr in FILE_ATTRS:
                rt, lean = (CFILE_ATTRS if self.rc_type(rc) == CFILE else FILE_ATTRS)[node.attr]
                v = self.bind_op(rc, lambda o: '%s %s' % (lean, o), False, h, env, node)
                return v, rt
            # `os.fstat(<fd>).st_size`
            if node.attr == 'st_size' and isinstance(node.value, ast.Call) and isinstance(node.value.func, ast.Attribute) \
                    and isinstance(node.value.func.value, ast.Name) and node.value.func.value.id == 'os' \
                    and node.value.func.attr == 'fstat' and len(node.value.args) == 1 and not node.value.keywords:
                fd_of = self.cc.cls.get('fd_of')
                if not fd_of:
                    raise Unsupported(node, 'os.fstat: the spec does not say whose descriptor it is')
                fd, ft = self.expr(node.value.args[0], h, env)
                if ft != FD:
                    raise Unsupported(node, 'os.fstat of something that is not a file descriptor')
                v = self.bind_op(('field', fd_of), lambda o: 'PyRtC18.FileObj.fstatSize %s %s' % (o, fd), False,
                                 h, env, node)
                return v, INT
            raise Unsupported(node, 'attribute')
        if isinstance(node, ast.UnaryOp) and isinstance(node.op, ast.USub):
            e, t = self.expr(node.operand, h, env)
            if t != INT:
                raise Unsupported(node, 'unary minus')
            return '(-%s)' % e, INT
        if isinstance(node, ast.BinOp) and isinstance(node.op, (ast.Add, ast.Sub, ast.Mult)):
            l, lt = self.expr(node.left, h, env)
            r, rt = self.expr(node.right, h, env)
            if lt == INT and rt == INT:
                return '(%s %s %s)' % (l, {ast.Add: '+', ast.Sub: '-', ast.Mult: '*'}[type(node.op)], r), INT
            if lt == SEQ and rt == SEQ and isinstance(node.op, ast.Add):
                return '(%s ++ %s)' % (l, r), SEQ
            raise Unsupported(node, 'arithmetic on %s / %s' % (lt, rt))
        if isinstance(node, (ast.Compare, ast.BoolOp)) or (isinstance(node, ast.UnaryOp)
                                                            and isinstance(node.op, ast.Not)):
            return 'decide (%s)' % self.cond(node, h, env), BOOL
        if isinstance(node, ast.Subscript) and not isinstance(node.slice, ast.Slice):
            b, bt = self.expr(node.value, h, env)
            if bt != PARTS:
                raise Unsupported(node, 'subscript of %s' % (bt,))
            ix, it = self.expr(node.slice, h, env)
            if it != INT:
                raise Unsupported(node, 'index type')
            v = self.hoist(h, '(fun s => (PyRt.index? %s %s, s))' % (b, ix), False, node)
            return v, SEQ
        if isinstance(node, ast.List) and not node.elts:
            return '([] : %s)' % self.ty(PARTS), PARTS      # the one list type of this subset: a list of sequences
        if isinstance(node, ast.Call):
            return self.call(node, h, env)
        raise Unsupported(node, 'expression')

    def call(self, node, h, env):
        f = node.func
        if isinstance(f, ast.Name):
            if f.id == 'len' and len(node.args) == 1 and not node.keywords:
                a = node.args[0]
                if isinstance(a, ast.Attribute) and _is_self(a.value, self.self_name) \
                        and self.cc.state.get(a.attr) == FILES:
                    h.pure_self_reads = h.pure_self_reads | {a.attr}
                    return '(PyRt.len s.self.%s)' % lean_field(a.attr), INT
                e, t = self.expr(a, h, env)
                if t not in (SEQ, PARTS, EBYTES):
                    raise Unsupported(node, 'len of %s' % (t,))
                return '(PyRt.len %s)' % e, INT
            if f.id == 'isinstance' and len(node.args) == 2 and not node.keywords \
                    and isinstance(node.args[1], ast.Name):
                rc = self.receiver(node.args[0], env)
                kind = node.args[1].id
                a0 = node.args[0]
                if rc is None and isinstance(a0, ast.Attribute) and a0.attr == 'stream':
                    rc0 = self.receiver(a0.value, env)       # `isinstance(<codec file>.stream, BytesIO)`
                    if rc0 is not None and self.rc_type(rc0) == CFILE and kind == 'BytesIO':
                        return self.bind_op(rc0, lambda o: 'PyRtC18.CFile.isMem %s' % o, False, h, env, node), BOOL
                if rc is not None:
                    if kind != 'BytesIO' or self.rc_type(rc) != FILE:
                        raise Unsupported(node, 'isinstance test of a file object against %s' % kind)
                    return self.bind_op(rc, lambda o: 'PyRtC18.FileObj.isMem %s' % o, False, h, env, node), BOOL
                e, t = self.expr(node.args[0], h, env)
                if t == SEQ and kind == self.cc.cls.get('seq_class', 'bytes'):
                    return 'true', BOOL         # decided by the declared type of the argument
                raise Unsupported(node, 'isinstance(%s, %s)' % (t, kind))
            if f.id == 'TemporaryFile' and not node.args and all(k.arg == 'dir' for k in node.keywords):
                for k in node.keywords:
                    e, t = self.expr(k.value, h, env)
                    if t not in (OPAQUE, ('Option', OPAQUE), ('Option', None)):
                        raise Unsupported(node, 'TemporaryFile(dir=%s)' % (t,))
                return '(PyRtC18.FileObj.newReal : %s)' % self.ty(FILE), ('NewFile', FILE)
            if f.id == 'BytesIO' and not node.args and not node.keywords:
                return '(PyRtC18.FileObj.newMem : %s)' % self.ty(FILE), ('NewFile', FILE)
            if f.id == 'EncodedFile' and len(node.args) == 1 and len(node.keywords) == 1 \
                    and node.keywords[0].arg == 'data_encoding' and isinstance(node.keywords[0].value, ast.Constant) \
                    and node.keywords[0].value.value == 'utf-8':
                inner, it = self.expr(node.args[0], h, env)
                if it != ('NewFile', FILE):
                    raise Unsupported(node, 'EncodedFile over something else than a fresh file')
                kind = 'newReal' if 'newReal' in inner else 'newMem'
                return '(PyRtC18.CFile.%s : PyRtC18.CFile)' % kind, ('NewFile', CFILE)
            raise Unsupported(node, 'call of %s' % f.id)
        if isinstance(f, ast.Attribute):
            if isinstance(f.value, ast.Name) and f.value.id == 'operator' and f.attr == 'index' \
                    and len(node.args) == 1 and not node.keywords and 'operator' not in self.vars:
                e, t = self.expr(node.args[0], h, env)
                if t != INT:
                    raise Unsupported(node, 'operator.index of %s' % (t,))
                return e, INT                   # the identity on a declared int
            if f.attr == 'encode' and len(node.args) == 1 and not node.keywords \
                    and isinstance(node.args[0], ast.Constant) and node.args[0].value == 'utf-8' \
                    and self.cc.cls.get('seq_class') == 'str':
                e, t = self.expr(f.value, h, env)
                if t != SEQ:
                    raise Unsupported(node, 'encode of %s' % (t,))
                return '(C18.encode %s)' % e, EBYTES
            if f.attr == 'decode' and len(node.args) == 1 and not node.keywords \
                    and isinstance(node.args[0], ast.Constant) and node.args[0].value == 'utf-8' \
                    and isinstance(f.value, ast.Call) and isinstance(f.value.func, ast.Attribute) \
                    and f.value.func.attr == 'readline' and not f.value.keywords and len(f.value.args) <= 1:
                # `<codec file>.readline([length]).decode('utf-8')`: one line of the codec reader, as text
                rc = self.receiver(f.value.func.value, env)
                if rc is not None and self.rc_type(rc) == CFILE:
                    if f.value.args:
                        saved = h.pure_self_reads
                        a, at = self.expr(f.value.args[0], h, env)
                        h.pure_self_reads = saved
                        if not self.fits(at, ('Option', INT)):
                            raise Unsupported(node, 'readline argument')
                        arg = self.coerce(a, at, ('Option', INT), node)
                    else:
                        arg = 'none'
                    return self.bind_op(rc, lambda o: 'PyRtC18.CFile.readlineText %s %s' % (o, arg), True,
                                        h, env, node), SEQ
            if f.attr == 'read' and isinstance(f.value, ast.Attribute) and f.value.attr == 'reader' \
                    and len(node.args) == 2 and not node.keywords:
                rc = self.receiver(f.value.value, env)       # `<codec file>.reader.read(size, chars)`
                if rc is not None and self.rc_type(rc) == CFILE:
                    saved = h.pure_self_reads
                    (a, at), (b, bt) = self.expr(node.args[0], h, env), self.expr(node.args[1], h, env)
                    h.pure_self_reads = saved
                    if at != INT or bt != INT:
                        raise Unsupported(node, 'reader.read arguments')
                    return self.bind_op(rc, lambda o: 'PyRtC18.CFile.read %s %s %s' % (o, a, b), True,
                                        h, env, node), SEQ
            if _is_self(f.value, self.self_name):
                if self.cc.find(f.attr) is None:
                    raise Unsupported(node, 'no method %s' % f.attr)
                return self.call_method(f.attr, node.args, node.keywords, h, env, node)
            if f.attr == 'join' and len(node.args) == 1 and not node.keywords:
                sep, st = self.expr(f.value, h, env)
                if st != SEQ:
                    raise Unsupported(node, 'join on %s' % (st,))
                a = node.args[0]
                if isinstance(a, (ast.GeneratorExp, ast.ListComp)):
                    parts = self.files_comprehension(a, h, env)
                else:
                    parts, pt = self.expr(a, h, env)
                    if pt != PARTS:
                        raise Unsupported(node, 'join of %s' % (pt,))
                return '(PyRtC18.join %s %s)' % (sep, parts), SEQ
            got = self.file_op(node, h, env)
            if got is not None:
                rc, app_of, rt, mut = got
                return self.bind_op(rc, app_of, mut, h, env, node), rt
        raise Unsupported(node, 'call')

    def files_comprehension(self, node, h, env):
        """`f.op(args) for f in self.<files>` consumed on the spot: every member in order"""
        if len(node.generators) != 1:
            raise Unsupported(node, 'comprehension')
        g = node.generators[0]
        it = g.iter
        if g.ifs or g.is_async or not isinstance(g.target, ast.Name) \
                or not (isinstance(it, ast.Attribute) and _is_self(it.value, self.self_name)
                        and self.cc.state.get(it.attr) == FILES):
            raise Unsupported(node, 'comprehension over something else than the files of the object')
        return self.for_each(g.target.id, it.attr, node.elt, h, env, node)

    def for_each(self, var, attr, call, h, env, node):
        if var in self.vars:
            raise Unsupported(node, 'loop variable shadows a variable')
        if not (isinstance(call, ast.Call) and isinstance(call.func, ast.Attribute)
                and isinstance(call.func.value, ast.Name) and call.func.value.id == var):
            raise Unsupported(node, 'loop body other than one operation on the loop file')
        for a in ast.walk(ast.Module(body=[ast.Expr(x) for x in call.args], type_ignores=[])):
            if isinstance(a, ast.Name) and a.id == var:
                raise Unsupported(node, 'the loop file used as an argument')
        env2 = dict(env, loopfile=(var,))
        h2 = Hoist()
        got = self.file_op(call, h2, env2)
        if h2.binds:
            raise Unsupported(node, 'an operation inside the arguments of a per-file operation')
        rc, app_of, rt, mut = got
        f = lean_field(attr)
        m = ('(fun s => let r := PyRtC18.forEachFile (fun o => %s) s.self.%s; '
             '(r.1, { s with self := { s.self with %s := r.2 } }))' % (app_of('o'), f, f))
        return self.hoist(h, m, {attr}, node)

    def call_method(self, pyname, args, keywords, h, env, node, prop=False):
        cname, fdef, is_prop = self.cc.find(pyname)
        if is_prop != prop:
            raise Unsupported(node, '%s: property / method mix-up' % pyname)
        names = [a.arg for a in fdef.args.args][1:]
        defaults0 = dict(zip(names[len(names) - len(fdef.args.defaults):], fdef.args.defaults)) \
            if fdef.args.defaults else {}
        bound0 = dict(zip(names, args))
        for kw in keywords:
            if kw.arg is not None:
                bound0[kw.arg] = kw.value
        sp = None
        for cand in self.cc.cls['methods']:       # variants of one method: one that FIXES a parameter is picked when
            if cand['py'] != pyname:              # the call passes exactly that constant (or omits it with that default)
                continue
            okv = True
            for fn, fv in cand.get('fixed', {}).items():
                a = bound0.get(fn, defaults0.get(fn))
                if isinstance(a, ast.Attribute) and isinstance(a.value, ast.Name) and (a.value.id, a.attr) in CONSTS:
                    a = ast.Constant(value=CONSTS[(a.value.id, a.attr)])
                if not (isinstance(a, ast.Constant) and type(a.value) is int and a.value == fv):
                    okv = False
            if okv:
                sp = cand
                break
        if sp is None:
            raise Unsupported(node, 'method %s is not in the spec' % pyname)
        if sp['name'] not in env['emitted']:
            raise Unsupported(node, 'method %s is not translated (before this one)' % pyname)
        callee_lfuel = bool(env['emitted'][sp['name']].get('lfuel'))
        if callee_lfuel:
            self.uses_while = True              # the caller hands its own loop fuel on
        names = [n for n in names if n not in sp.get('fixed', {})]
        args = [a for n, a in zip([a.arg for a in fdef.args.args][1:], args) if n not in sp.get('fixed', {})]
        keywords = [kw for kw in keywords if kw.arg not in sp.get('fixed', {})]
        if fdef.args.vararg or len(args) > len(names):
            raise Unsupported(node, 'arguments of %s' % pyname)
        defaults = dict(zip(names[len(names) - len(fdef.args.defaults):], fdef.args.defaults)) \
            if fdef.args.defaults else {}
        bound = dict(zip(names, args))
        for kw in keywords:
            if kw.arg is None or kw.arg in bound or kw.arg not in names:
                raise Unsupported(node, 'keyword arguments of %s' % pyname)
            bound[kw.arg] = kw.value
        saved = h.pure_self_reads
        terms = []
        for n in names:
            pt = parse_type(sp['params'][n])
            a = bound.get(n, defaults.get(n))
            if a is None:
                raise Unsupported(node, 'argument %s of %s missing' % (n, pyname))
            if n not in bound and not (isinstance(a, ast.Constant) or (
                    isinstance(a, ast.UnaryOp) and isinstance(a.op, ast.USub) and isinstance(a.operand, ast.Constant)
                    and type(a.operand.value) is int) or (
                    isinstance(a, ast.Attribute) and isinstance(a.value, ast.Name)
                    and (a.value.id, a.attr) in CONSTS)):
                raise Unsupported(node, 'default value of %s is not a constant' % n)
            e, at = self.expr(a, h, env)
            if not self.fits(at, pt):
                raise Unsupported(node, 'argument %s of %s: %s for %s' % (n, pyname, at, pt))
            terms.append(self.coerce(e, at, pt, node))
        h.pure_self_reads = saved
        app = ' '.join(['%s.%s' % (self.cc.cls['lean_name'], sp['name'])] + (['lfuel'] if callee_lfuel else [])
                       + ['s.self'] + terms)
        v = self.hoist(h, self.lift_self(app), self.cc.mutates(pyname), node)
        return v, parse_type(sp['result'])

    def truthy(self, e, t, node):
        if t == BOOL:
            return '%s = true' % e
        if t == INT:
            return '%s ≠ 0' % e
        if t in (SEQ, PARTS):
            return '%s ≠ []' % e
        if t == ('Option', INT):
            return 'PyRtC18.truthyOptInt %s = true' % e
        raise Unsupported(node, 'truth value of %s' % (t,))

    def cond(self, node, h, env):
        """Lean Prop (decidable) of a Python condition"""
        if isinstance(node, ast.BoolOp):
            parts = []
            truthy_before = set()
            for i, v in enumerate(node.values):
                n0 = h.n
                if isinstance(node.op, ast.And) and isinstance(v, ast.Compare) and len(v.ops) == 1 \
                        and isinstance(v.ops[0], ast.NotIn) and isinstance(v.left, ast.Subscript) \
                        and isinstance(v.left.value, ast.Name) and v.left.value.id in truthy_before \
                        and isinstance(v.left.slice, ast.UnaryOp) and isinstance(v.left.slice.op, ast.USub) \
                        and isinstance(v.left.slice.operand, ast.Constant) and v.left.slice.operand.value == 1 \
                        and isinstance(v.comparators[0], ast.Constant) and isinstance(v.comparators[0].value, str) \
                        and self.vars.get(v.left.value.id) == SEQ and self.cc.cls.get('seq_class') == 'str':
                    # `x and x[-1] not in '<chars>'`: evaluated only for a non-empty x, so the index cannot raise
                    x, _ = self.expr(v.left.value, h, env)
                    cs = ', '.join('Char.ofNat %d' % ord(c) for c in v.comparators[0].value)
                    parts.append('(PyRtC18.lastNotIn %s [%s] = true)' % (x, cs))
                    continue
                if isinstance(v, ast.Name) and self.vars.get(v.id) == SEQ:
                    truthy_before.add(v.id)
                parts.append(self.cond(v, h, env))
                if i > 0 and h.n != n0:
                    raise Unsupported(v, 'an operation that can raise in a conditionally evaluated operand')
            return '(' + (' ∧ ' if isinstance(node.op, ast.And) else ' ∨ ').join(parts) + ')'
        if isinstance(node, ast.UnaryOp) and isinstance(node.op, ast.Not):
            return '¬ %s' % self.cond(node.operand, h, env)
        if isinstance(node, ast.Compare):
            if len(node.ops) != 1:
                raise Unsupported(node, 'comparison chain')
            op, right = node.ops[0], node.comparators[0]
            if isinstance(op, (ast.Is, ast.IsNot)) and isinstance(right, ast.Constant) and right.value is None \
                    and isinstance(node.left, ast.Name) and self.vars.get(node.left.id, ('x',))[0] == 'Option':
                return '(s.%s %s none)' % (self.field(node.left.id), '=' if isinstance(op, ast.Is) else '≠')
            l, lt = self.expr(node.left, h, env)
            r, rt = self.expr(right, h, env)
            sym = {ast.Lt: '<', ast.LtE: '≤', ast.Gt: '>', ast.GtE: '≥', ast.Eq: '=', ast.NotEq: '≠'}.get(type(op))
            if sym is None or lt != rt or lt not in (INT, BOOL, SEQ) or (lt != INT and sym not in ('=', '≠')):
                raise Unsupported(node, 'comparison of %s / %s' % (lt, rt))
            return '(%s %s %s)' % (l, sym, r)
        if isinstance(node, ast.Name) and self.vars.get(node.id, ('x',))[0] == 'Option':
            # truth value of the variable itself (not of its narrowed read)
            if node.id not in env['assigned'] and node.id not in self.spec['params']:
                raise Unsupported(node, 'local %s may be unbound here' % node.id)
            return '(%s)' % self.truthy('s.%s' % self.field(node.id), self.vars[node.id], node)
        e, t = self.expr(node, h, env)
        return '(%s)' % self.truthy(e, t, node)

    @staticmethod
    def narrow(test):
        """(names known not to be None when the test is true, … when it is false)"""
        e = frozenset()
        if isinstance(test, ast.Name):
            return frozenset([test.id]), e
        if isinstance(test, ast.UnaryOp) and isinstance(test.op, ast.Not):
            t, f = Method.narrow(test.operand)
            return f, t
        if isinstance(test, ast.Compare) and len(test.ops) == 1 and isinstance(test.left, ast.Name) \
                and isinstance(test.comparators[0], ast.Constant) and test.comparators[0].value is None:
            if isinstance(test.ops[0], ast.IsNot):
                return frozenset([test.left.id]), e
            if isinstance(test.ops[0], ast.Is):
                return e, frozenset([test.left.id])
        if isinstance(test, ast.BoolOp) and isinstance(test.op, ast.And):
            parts = [Method.narrow(v) for v in test.values]
            return frozenset().union(*[p[0] for p in parts]), e
        return e, e

    # -- statements ---------------------------------------------------------------------------------
    def wrap(self, h: Hoist, text):
        for v, m in reversed(h.binds):
            text = 'PyRtC18.bindE %s (fun %s =>\n%s)' % (m, v, indent(text))
        return text

    def bind_local(self, name, t, node):
        if t == ('Option', None):
            raise Unsupported(node, 'a local first bound to None')
        if name in self.spec['params']:
            pt = self.vars[name]
            if not self.fits(t, pt):
                raise Unsupported(node, 'parameter %s assigned a %s' % (name, t))
            return pt
        if name not in self.vars:
            self.vars[name] = t
            self.locals.append(name)
        elif self.vars[name] != t and not self.fits(t, self.vars[name]):
            raise Unsupported(node, 'variable %s: %s and %s' % (name, self.vars[name], t))
        return self.vars[name]

    def assign(self, tgt, value, env, node, aug=None):
        """-> (Lean statement, names assigned)"""
        h = Hoist()
        if aug is not None:
            value = ast.BinOp(left=ast.copy_location(
                ast.Name(id=tgt.id, ctx=ast.Load()) if isinstance(tgt, ast.Name)
                else ast.Attribute(value=tgt.value, attr=tgt.attr, ctx=ast.Load()), tgt), op=aug, right=value)
            ast.copy_location(value, node)
            ast.fix_missing_locations(value)
        if isinstance(tgt, ast.Attribute) and _is_self(tgt.value, self.self_name) \
                and self.cc.state.get(tgt.attr) in (FILE, FILES, CFILE) and isinstance(value, ast.Name):
            e, t = None, self.vars.get(value.id)
        else:
            e, t = self.expr(value, h, env)
        if isinstance(tgt, ast.Name):
            if tgt.id == self.self_name or tgt.id in env.get('bound', {}):
                raise Unsupported(node, 'assignment to %s' % tgt.id)
            if t[0] == 'NewFile':
                t = t[1]
            elif t in (FILE, CFILE):
                raise Unsupported(node, 'alias of a file object')
            vt = self.bind_local(tgt.id, t, node)
            upd = '%s := %s' % (self.field(tgt.id), self.coerce(e, t, vt, node))
            return self.wrap(h, 'PyRtC18.assign (fun s => { s with %s })' % upd), {tgt.id}, \
                (t[0] != 'Option')
        if isinstance(tgt, ast.Attribute) and _is_self(tgt.value, self.self_name):
            if tgt.attr not in self.cc.state:
                raise Unsupported(node, 'attribute %s is not declared in the spec' % tgt.attr)
            st = self.cc.state[tgt.attr]
            if st in (FILE, CFILE):
                # a file object moves from a local into the object: the local is dead afterwards (checked)
                if not (isinstance(value, ast.Name) and self.vars.get(value.id) == st
                        and value.id in env['assigned']):
                    if t != ('NewFile', st):
                        raise Unsupported(node, 'a file attribute assigned something else than a fresh local file')
                    src = e
                else:
                    src = 's.%s' % self.field(value.id)
                    env['moved'].add(value.id)
                upd = 'self := { s.self with %s := %s }' % (lean_field(tgt.attr), src)
                return self.wrap(h, 'PyRtC18.assign (fun s => { s with %s })' % upd), set(), True
            if st == FILES:
                if not (isinstance(value, ast.Name) and value.id in self.spec['params']
                        and self.vars[value.id] == FILES):
                    raise Unsupported(node, 'the tuple of files assigned something else than the parameter')
                upd = 'self := { s.self with %s := s.%s }' % (lean_field(tgt.attr), self.field(value.id))
                return self.wrap(h, 'PyRtC18.assign (fun s => { s with %s })' % upd), set(), True
            upd = 'self := { s.self with %s := %s }' % (lean_field(tgt.attr), self.coerce(e, t, st, node))
            return self.wrap(h, 'PyRtC18.assign (fun s => { s with %s })' % upd), set(), True
        raise Unsupported(node, 'assignment target')

    def exc_of(self, st: ast.Raise):
        if st.cause is not None or st.exc is None:
            raise Unsupported(st, 'raise form')
        e = st.exc
        args = []
        if isinstance(e, ast.Call) and isinstance(e.func, ast.Name) and not e.keywords:
            args, e = e.args, e.func
        if not isinstance(e, ast.Name) or e.id not in EXC_MAP:
            raise Unsupported(st, 'exception class outside %s' % (sorted(EXC_MAP),))
        for a in args:
            self.harmless(a)
        return 'PyExc.%s' % EXC_MAP[e.id]

    def harmless(self, a):
        """an expression of an exception's arguments: only the class is modelled, so it must be unable to raise or
        to have an effect: constants, bound names, `x if <y is [not] None> else z`, `'…'.format(…)`, `'…' % …`,
        `type(x).__name__`"""
        if isinstance(a, ast.Constant):
            return
        if isinstance(a, ast.Name) and (a.id in self.spec['params'] or a.id in ('EINVAL',)):
            return
        if isinstance(a, ast.IfExp) and isinstance(a.test, ast.Compare) and len(a.test.ops) == 1 \
                and isinstance(a.test.ops[0], (ast.Is, ast.IsNot)) and isinstance(a.test.left, ast.Name) \
                and a.test.left.id in self.spec['params'] and isinstance(a.test.comparators[0], ast.Constant):
            self.harmless(a.body)
            self.harmless(a.orelse)
            return
        if isinstance(a, ast.Call) and isinstance(a.func, ast.Attribute) and a.func.attr == 'format' \
                and isinstance(a.func.value, ast.Constant) and isinstance(a.func.value.value, str) and not a.keywords:
            for x in a.args:
                self.harmless(x)
            return
        if isinstance(a, ast.Attribute) and isinstance(a.value, ast.Name) and (a.value.id, a.attr) in CONSTS \
                and a.value.id not in self.vars:
            return
        if isinstance(a, ast.JoinedStr):            # f'…{x}…' / f'…{x!r}…' of harmless values, no format spec
            for v in a.values:
                if isinstance(v, ast.Constant):
                    continue
                if not (isinstance(v, ast.FormattedValue) and v.format_spec is None):
                    raise Unsupported(a, 'argument of an exception that is not obviously harmless')
                self.harmless(v.value)
            return
        if isinstance(a, ast.BinOp) and isinstance(a.op, ast.Mod) and isinstance(a.left, ast.Constant) \
                and isinstance(a.left.value, str):      # '…%r…' % x  /  '…' % (x, y)
            for x in (a.right.elts if isinstance(a.right, ast.Tuple) else [a.right]):
                self.harmless(x)
            return
        if isinstance(a, ast.Attribute) and a.attr == '__name__' and isinstance(a.value, ast.Call) \
                and isinstance(a.value.func, ast.Name) and a.value.func.id == 'type' and len(a.value.args) == 1 \
                and isinstance(a.value.args[0], ast.Name) and a.value.args[0].id in self.spec['params']:
            return
        raise Unsupported(a, 'argument of an exception that is not obviously harmless')

    def block(self, stmts, env, in_loop=False):
        """-> Lean term : PyRtC18.Stmt <St> <R>; updates env['assigned'] / env['nn'] to the state after the block"""
        out = []
        stmts = list(stmts)
        for idx, st in enumerate(stmts):
            for mv in env['moved']:
                for n in ast.walk(st):
                    if isinstance(n, ast.Name) and n.id == mv:
                        raise Unsupported(n, 'a local file object used after it was stored in the object')
            if isinstance(st, ast.Expr) and isinstance(st.value, ast.Constant) and isinstance(st.value.value, str):
                continue
            if isinstance(st, ast.Pass):
                continue
            if isinstance(st, ast.Assign):
                if len(st.targets) != 1:
                    raise Unsupported(st, 'chained assignment')
                text, names, nonnull = self.assign(st.targets[0], st.value, env, st)
                env['assigned'] = env['assigned'] | names
                env['nn'] = (env['nn'] | names) if nonnull else (env['nn'] - names)
                out.append(text)
            elif isinstance(st, ast.AugAssign):
                if not isinstance(st.op, (ast.Add, ast.Sub)):
                    raise Unsupported(st, 'augmented assignment operator')
                text, names, nonnull = self.assign(st.target, st.value, env, st, aug=st.op)
                out.append(text)
            elif isinstance(st, ast.Expr):
                out.append(self.expr_stmt(st, env))
            elif isinstance(st, ast.Return):
                h = Hoist()
                if st.value is None:
                    e, t = 'none', ('Option', None)
                else:
                    e, t = self.expr(st.value, h, env)
                out.append(self.wrap(h, 'PyRtC18.ret (fun s => %s)' % self.to_result(e, t, st)))
            elif isinstance(st, ast.Raise):
                out.append('PyRtC18.raise %s' % self.exc_of(st))
            elif isinstance(st, ast.If) and self.static_test(st.test) is not None:
                # the test compares a parameter this variant FIXES with a constant: only the live branch exists
                live = st.body if self.static_test(st.test) else st.orelse
                out.append(self.block(live, env, in_loop))
                if _terminates(live) and idx != len(stmts) - 1:
                    raise Unsupported(stmts[idx + 1], 'unreachable statement')
            elif isinstance(st, ast.If):
                h = Hoist()
                c = self.cond(st.test, h, env)
                t_, f_ = self.narrow(st.test)
                ea = dict(env, nn=env['nn'] | t_)
                eb = dict(env, nn=env['nn'] | f_)
                a = self.block(st.body, ea, in_loop)
                b = self.block(st.orelse, eb, in_loop)
                ta, tb = _terminates(st.body), _terminates(st.orelse)
                if ta and tb:
                    pass
                elif ta:
                    env['assigned'], env['nn'] = eb['assigned'], eb['nn']
                elif tb:
                    env['assigned'], env['nn'] = ea['assigned'], ea['nn']
                else:
                    env['assigned'] = ea['assigned'] & eb['assigned']
                    env['nn'] = ea['nn'] & eb['nn']
                out.append(self.wrap(h, 'PyRtC18.cond (fun s => decide (%s))\n%s\n%s' % (
                    c, indent(self._p(a)), indent(self._p(b)))))
            elif isinstance(st, ast.While):
                if st.orelse or in_loop:
                    raise Unsupported(st, 'while/else, nested loops')
                h = Hoist()
                assigned_in = {n.id for x in st.body for n in ast.walk(x)
                               if isinstance(n, ast.Name) and isinstance(n.ctx, ast.Store)}
                eb = dict(env, nn=env['nn'] - self._maybe_none_assigned(st.body))
                c = self.cond(st.test, h, eb)
                if h.binds:
                    raise Unsupported(st, 'a `while` condition that can raise or change the state')
                body = self.block(st.body, eb, True)
                env['nn'] = env['nn'] - self._maybe_none_assigned(st.body)
                self.uses_while = True
                # the loop's condition and body are definitions of their own (`<method>.loop<k>.cond/.body`), so that
                # tie proofs can state what ONE iteration does
                k = len(self.loop_defs) + 1
                ln = '%s.loop%d' % (self.name, k)
                self.loop_defs.append((ln, 'fun s => decide (%s)' % c, body))
                out.append('PyRtC18.whileLoop %s.cond %s.body lfuel' % (ln, ln))
            elif isinstance(st, ast.For):
                if st.orelse or in_loop or not isinstance(st.target, ast.Name) or len(st.body) != 1 \
                        or not isinstance(st.body[0], ast.Expr) \
                        or not (isinstance(st.iter, ast.Attribute) and _is_self(st.iter.value, self.self_name)
                                and self.cc.state.get(st.iter.attr) == FILES):
                    raise Unsupported(st, '`for` other than  for f in self.<files>: f.<operation>(…)')
                h = Hoist()
                self.for_each(st.target.id, st.iter.attr, st.body[0].value, h, env, st)
                out.append(self.wrap(h, 'PyRtC18.skip'))
            elif isinstance(st, ast.Break) and in_loop:
                out.append('PyRtC18.brk')
            elif isinstance(st, ast.Continue) and in_loop:
                out.append('PyRtC18.cont')
            else:
                raise Unsupported(st, 'statement')
            if isinstance(st, (ast.Return, ast.Raise, ast.Break, ast.Continue)) and idx != len(stmts) - 1:
                raise Unsupported(stmts[idx + 1], 'unreachable statement')
        if not out:
            return 'PyRtC18.skip'
        text = out[-1]
        for t in reversed(out[:-1]):
            text = 'PyRtC18.seq\n%s\n%s' % (indent(self._p(t)), indent(self._p(text)))
        return text

    def static_test(self, test):
        fixed = self.spec.get('fixed', {})
        if isinstance(test, ast.Compare) and len(test.ops) == 1 and isinstance(test.ops[0], (ast.Eq, ast.NotEq)) \
                and isinstance(test.left, ast.Name) and test.left.id in fixed:
            r = test.comparators[0]
            v = None
            if isinstance(r, ast.Constant) and type(r.value) is int:
                v = r.value
            elif isinstance(r, ast.Attribute) and isinstance(r.value, ast.Name) and (r.value.id, r.attr) in CONSTS:
                v = CONSTS[(r.value.id, r.attr)]
            if v is not None:
                return (fixed[test.left.id] == v) == isinstance(test.ops[0], ast.Eq)
        return None

    def _maybe_none_assigned(self, stmts):
        out = set()
        for x in stmts:
            for n in ast.walk(x):
                if isinstance(n, ast.Assign):
                    for t in n.targets:
                        if isinstance(t, ast.Name) and not (self.vars.get(t.id, ('x',))[0] != 'Option'):
                            out.add(t.id)
        return frozenset(out)

    @staticmethod
    def _p(text):
        return '(' + text + ')'

    def to_result(self, e, t, node):
        rt = self.result_t
        if t == rt:
            return e
        if rt == UNIT and t == ('Option', None):
            return '()'
        if rt[0] == 'Option' and t == ('Option', None):
            return 'none'
        if rt[0] == 'Option' and t == rt[1]:
            return '(some %s)' % e
        raise Unsupported(node, 'a %s returned where the spec says %s' % (t, rt))

    def expr_stmt(self, st, env):
        node = st.value
        h = Hoist()
        if isinstance(node, ast.Call) and isinstance(node.func, ast.Attribute) and node.func.attr == 'append' \
                and isinstance(node.func.value, ast.Name) and self.vars.get(node.func.value.id) == PARTS \
                and node.func.value.id not in self.spec['params'] and len(node.args) == 1 and not node.keywords:
            name = node.func.value.id
            if name not in env['assigned']:
                raise Unsupported(node, 'local %s may be unbound here' % name)
            e, t = self.expr(node.args[0], h, env)
            if t != SEQ:
                raise Unsupported(node, 'append of %s' % (t,))
            f = self.field(name)
            return self.wrap(h, 'PyRtC18.assign (fun s => { s with %s := PyRt.append s.%s %s })' % (f, f, e))
        if not isinstance(node, ast.Call):
            raise Unsupported(st, 'expression statement')
        self.expr(node, h, env)
        if not h.binds:
            raise Unsupported(st, 'expression statement without an operation')
        return self.wrap(h, 'PyRtC18.skip')

    # -- emission -----------------------------------------------------------------------------------
    def emit(self, emitted):
        env = {'assigned': frozenset(), 'nn': frozenset(), 'emitted': emitted, 'moved': set(), 'bound': {}}
        body = list(self.f.body)
        text = self.block(body, env)
        if not _terminates([s for s in body if not isinstance(s, ast.Pass)]):
            if self.result_t == UNIT:
                tail = 'PyRtC18.ret (fun _ => ())'
            elif self.result_t[0] == 'Option':
                tail = 'PyRtC18.ret (fun _ => none)'
            else:
                raise Unsupported(self.f, 'the method can fall off its end but the spec result is %s' % (self.result_t,))
            text = 'PyRtC18.seq\n%s\n%s' % (indent(self._p(text)), indent(self._p(tail)))
        cst = self.cc.st_type()
        tb = self.cc.tbinder()
        fields = [('self', cst)] + [(mangle(n), self.ty(t)) for n, t in self.params] \
            + [('loc%d' % (i + 1), self.ty(self.vars[n])) for i, n in enumerate(self.locals)]
        out = ['/-- all Python variables of `%s.%s` -/' % (self.defcls, self.spec['py']),
               'structure %s.St %swhere' % (self.name, '' if self.cc.cls.get('unit') else '(β : Type) ')]
        for (fn, ft), py in zip(fields, ['self'] + [n for n, _ in self.params] + self.locals):
            out.append('  %s : %s%s' % (fn, ft, '' if fn == py or fn == 'self' else '    -- ' + py))
        out.append('')
        lf = '(lfuel : Nat) ' if self.uses_while else ''
        rty = self.ty(self.result_t) if ' ' not in self.ty(self.result_t) else '(%s)' % self.ty(self.result_t)
        for ln, c, b in self.loop_defs:
            out.append('def %s.cond %s: %s → Bool :=\n  %s\n' % (ln, tb, self.st, c))
            out.append('def %s.body %s: PyRtC18.Stmt (%s) %s :=\n%s\n' % (ln, tb, self.st, rty, indent(b)))
        out.append('def %s.body %s%s: PyRtC18.Stmt (%s) %s :=\n%s\n' % (
            self.name, tb, lf, self.st, self.ty(self.result_t) if ' ' not in self.ty(self.result_t)
            else '(%s)' % self.ty(self.result_t), indent(text)))
        plist = ''.join('(%s : %s) ' % (mangle(n), self.ty(t)) for n, t in self.params)
        init = ['self := self'] + ['%s := %s' % (mangle(n), mangle(n)) for n, _ in self.params] \
            + ['loc%d := %s' % (i + 1, default_of(self.vars[n], self.unit)) for i, n in enumerate(self.locals)]
        out.append('def %s %s%s(self : %s) %s: Except PyExc %s × %s :=\n  PyRtC18.finish (·.self) (%s.body %s{ %s })\n' % (
            self.name, tb, lf, cst, plist, show_type(self.result_t, self.unit, False), cst, self.name,
            'lfuel ' if self.uses_while else '', ', '.join(init)))
        return '\n'.join(out)


# ------------------------------------------------------------------------------------------------ module level

def class_state_text(cc: ClassCtx):
    cls = cc.cls
    out = ['/-- object state of `%s` (the attributes declared in the spec) -/' % cls['name'],
           'structure %s.St %swhere' % (cls['lean_name'], '' if cls.get('unit') else '(β : Type) ')]
    for a, t in cc.state.items():
        f = lean_field(a)
        out.append('  %s : %s%s' % (f, show_type(t, cc.unit), '' if f == a else '    -- ' + a))
    out.append('deriving DecidableEq')
    return '\n'.join(out) + '\n'


def translate_source(src, specs, module_name, rel):
    tree = ast.parse(src)
    short = module_name.split('.')[-1]
    parts, infos, head = [], [], []
    ccs, emitted = {}, {}
    for spec in specs:
        cls = spec['cls']
        info = {'function': '%s.%s.%s' % (module_name, cls['name'], spec['py']), 'source_file': rel, 'lines': None,
                'lean_def': 'Src.%s.%s.%s' % (spec.get('gen_file', short), cls['lean_name'], spec['name']),
                'lean_pre': None, 'tie_theorem': spec['tie_theorem']}
        infos.append(info)
        try:
            key = cls['lean_name']
            first = key not in ccs
            if first:
                ccs[key] = ClassCtx(cls, tree)
                emitted[key] = {}
                parts.append(class_state_text(ccs[key]))
            cc = ccs[key]
            cc.check_buffer_property()
            m = Method(cc, spec)
            info['function'] = '%s.%s.%s' % (module_name, m.defcls, spec['py'])
            info['lines'] = '%d-%d' % (m.f.lineno, m.f.end_lineno)
            text = m.emit(emitted[key])
            emitted[key][spec['name']] = {'lfuel': m.uses_while}
        except (Unsupported, RecursionError) as e:
            info['error'] = str(e) or type(e).__name__
            parts.append('-- NOT TRANSLATED: %s.%s: %s\n' % (cls['name'], spec['py'], info['error'].replace('\n', ' ')))
            head.append('  %s.%s -> NOT TRANSLATED' % (cls['name'], spec['py']))
            continue
        parts.append(text)
        head.append('  %s.%s (lines %s) -> %s' % (m.defcls, spec['py'], info['lines'], info['lean_def']))
    gen = specs[0].get('gen_file', short)
    out = ('/- GENERATED by harness/py2lean_c18.py from %s - do not edit.\n'
           '   Compositional translation of the current source text into the statement combinators of PyRtC18\n'
           '   (rules: notes/SRCTIE.md section 2c); the file objects are spec-declared abstract operations:\n%s\n-/\n'
           'import BoltonsVerif.PyRtC18\n\nnamespace Src.%s\n\n%s\nend Src.%s\n' % (
               rel, '\n'.join(head), gen, '\n'.join(parts), gen))
    return out, infos


def read_module_source(module_name, repo):
    mod = importlib.import_module(module_name)
    path = os.path.abspath(inspect.getsourcefile(mod))
    if not path.startswith(os.path.abspath(repo) + os.sep):
        raise RuntimeError('%s imported from %s, not from %s' % (module_name, path, repo))
    with open(path) as fh:
        return fh.read(), os.path.relpath(path, os.path.abspath(repo))


def generate(pid, repo, specs):
    """all generated files of the specs of `pid` handled by this module"""
    by = {}
    for sp in specs:
        by.setdefault((sp['module'], sp['gen_file']), []).append(sp)
    files, infos = {}, []
    for (module_name, gen), sps in sorted(by.items()):
        src, rel = read_module_source(module_name, repo)
        text, inf = translate_source(src, sps, module_name, rel)
        files['Src_%s.lean' % gen] = text
        infos.extend(inf)
    return files, infos


# ------------------------------------------------------------------------------------------------ self-test
# CPython (the real boltons classes on real io.BytesIO / tempfile.TemporaryFile objects) vs the generated
# definitions: for every translated method, states x arguments; compared are the value or the exception class AND
# the whole object state after the call (content, position, closed, kind of every file object), also after a raising
# call.  A Lean result `PyExc.Other` means "not specified by the abstract file" (module docstring of PyRtC18): such
# cases are counted (`unspecified`), not compared.

SELFTEST_CODEC = r'''
abbrev P := StateT (List Int) Option
def pInt : P Int := fun l => match l with | x :: t => some (x, t) | [] => none
def pBool : P Bool := do let x ← pInt; pure (x != 0)
def pNat : P Nat := do let x ← pInt; pure x.toNat
def pMany {α : Type} (p : P α) : Nat → P (List α)
  | 0 => pure []
  | n + 1 => do let x ← p; let xs ← pMany p n; pure (x :: xs)
def pList {α : Type} (p : P α) : P (List α) := do let n ← pNat; pMany p n
def pBytes : P (List UInt8) := pList (do let x ← pInt; pure (UInt8.ofNat x.toNat))
def pOptInt : P (Option Int) := do let t ← pInt; if t == 0 then pure none else (do let x ← pInt; pure (some x))
def pOptUnit : P (Option Unit) := do let t ← pInt; pure (if t == 0 then none else some ())
def pFile : P (PyRtC18.FileObj UInt8) := do
  let d ← pBytes; let p ← pNat; let c ← pBool; let r ← pBool; let st ← pBool
  pure ⟨⟨d, p⟩, c, r, st⟩
def pCU : P C18.CU := do let c ← pNat; let i ← pNat; pure (Char.ofNat c, i)
def pChars : P (List Char) := pList (do let c ← pNat; pure (Char.ofNat c))
def pCFile : P PyRtC18.CFile := do
  let d ← pList pCU; let p ← pNat; let bb ← pList pCU; let cb ← pChars; let lb ← pList pChars
  let c ← pBool; let r ← pBool
  pure ⟨⟨d, p⟩, ⟨bb, cb, lb, false⟩, c, r⟩
def eBytes (b : List UInt8) : List Int := (b.length : Int) :: b.map (fun x => (x.toNat : Int))
def eBool (b : Bool) : List Int := [if b then 1 else 0]
def eFile (o : PyRtC18.FileObj UInt8) : List Int :=
  if o.closed then [0, 0, 1] ++ eBool o.real else eBytes o.f.data ++ [(o.f.pos : Int), 0] ++ eBool o.real
def eFiles (l : List (PyRtC18.FileObj UInt8)) : List Int := (l.length : Int) :: (l.map eFile).flatten
def eChars (l : List Char) : List Int := (l.length : Int) :: l.map (fun c => (c.toNat : Int))
def eCFile (o : PyRtC18.CFile) : List Int :=
  if o.closed then [1] ++ eBool o.real
  else [0] ++ eBool o.real ++ eBytes (C18.realBytes o.st.data) ++ [(o.st.pos : Int)] ++ eBytes (C18.realBytes o.rd.bytebuf)
    ++ eChars o.rd.charbuf ++ [(o.rd.linebuf.length : Int)] ++ (o.rd.linebuf.map eChars).flatten
def eOptInt : Option Int → List Int | none => [0] | some x => [1, x]
def excCode : PyExc → Int
  | .KeyError => 0 | .ValueError => 1 | .TypeError => 2 | .IndexError => 3 | .ZeroDivisionError => 4
  | .StopIteration => 5 | .RecursionError => 6 | .Other => 7 | .OutOfFuel => 8
def eExcept {α : Type} (e : α → List Int) : Except PyExc α → List Int
  | .ok v => 1 :: e v
  | .error x => [0, excCode x]
def showInts (l : List Int) : String := " ".intercalate (l.map toString)
def parseInts (s : String) : Option (List Int) :=
  (s.trim.splitOn " ").filter (· ≠ "") |>.mapM String.toInt?
'''

_P_TEXT = {SEQ: 'pChars', CFILE: 'pCFile'}
_E_TEXT = {SEQ: 'eChars', CFILE: 'eCFile'}
_P = {INT: 'pInt', BOOL: 'pBool', SEQ: 'pBytes', ('Option', INT): 'pOptInt', FILE: 'pFile', FILES: 'pList pFile',
      OPAQUE: '(pure ())', ('Option', OPAQUE): 'pOptUnit'}
_E = {INT: '(fun x => [x])', BOOL: 'eBool', SEQ: 'eBytes', ('Option', INT): 'eOptInt', FILE: 'eFile', FILES: 'eFiles',
      OPAQUE: '(fun _ => [])', UNIT: '(fun _ => [])', FD: '(fun _ => [])'}
SELFTEST_FUEL = 60


def _st_specs(pids):
    import srctie_specs
    out = []
    for pid in pids:
        for sp in srctie_specs.SPECS.get(pid, []):
            if sp.get('translator') == 'py2lean_c18':
                out.append(sp)
    return out


def build_driver(specs, repo):
    by = {}
    for sp in specs:
        by.setdefault((sp['module'], sp['gen_file']), []).append(sp)
    body = ['import BoltonsVerif.PyRtC18', 'set_option linter.all false', '']
    lfuel = {}
    for (module_name, gen), sps in sorted(by.items()):
        src, rel = read_module_source(module_name, repo)
        text, infos = translate_source(src, sps, module_name, rel)
        for i in infos:
            if i.get('error'):
                raise RuntimeError('not translated: %s: %s' % (i['function'], i['error']))
        body.append(text.replace('import BoltonsVerif.PyRtC18\n', ''))
        for sp in sps:
            lfuel[id(sp)] = ('(lfuel : Nat)' in text.split('def %s.%s ' % (sp['cls']['lean_name'], sp['name']))[1]
                             .split(':=')[0])
    body.append(SELFTEST_CODEC)
    arms = []
    for n, sp in enumerate(specs):
        cls = sp['cls']
        state = [(lean_field(a), parse_type(t)) for a, t in cls['state'].items()]
        params = [(mangle(p), parse_type(t)) for p, t in sp['params'].items()]
        text = cls.get('seq_class') == 'str'
        P = {**_P, **_P_TEXT} if text else _P
        E = {**_E, **_E_TEXT} if text else _E
        binds = ['let f_%s ← %s' % (f, P[t]) for f, t in state] + ['let a_%s ← %s' % (p, P[t]) for p, t in params]
        full = 'Src.%s.%s.%s' % (sp['gen_file'], cls['lean_name'], sp['name'])
        targ = '' if cls.get('unit') else ' (β := UInt8)'
        call = '%s%s %s{ %s } %s' % (full, targ, ('%d ' % SELFTEST_FUEL) if lfuel[id(sp)] else '',
                                    ', '.join('%s := f_%s' % (f, f) for f, _ in state),
                                    ' '.join('a_' + p for p, _ in params))
        enc = ' ++ '.join(['eExcept %s r.1' % E[parse_type(sp['result'])]]
                          + ['%s r.2.%s' % (E[t], f) for f, t in state])
        arms.append('  | %d :: t => (match (do %s; pure (let r := %s; %s) : P (List Int)).run t with\n'
                    '    | some (out, []) => showInts out\n    | _ => "bad-args")'
                    % (n, '; '.join(binds), call, enc))
    body.append('def handle : List Int → String\n' + '\n'.join(arms) + '\n  | _ => "bad-function"\n')
    body.append('''partial def loop (h : IO.FS.Stream) (out : IO.FS.Stream) : IO Unit := do
  let line ← h.getLine
  if line.isEmpty then return
  match parseInts line with
  | some l => out.putStrLn ("R " ++ handle l)
  | none => out.putStrLn "R bad-line"
  loop h out

def main : IO Unit := do
  loop (← IO.getStdin) (← IO.getStdout)
''')
    return '\n'.join(body)


# -- abstract values <-> tokens / real Python objects

def _enc(t, v, out):
    if t == INT:
        out.append(int(v))
    elif t == BOOL:
        out.append(1 if v else 0)
    elif t == SEQ and isinstance(v, str):
        out.append(len(v))
        out.extend(ord(c) for c in v)
    elif t == SEQ:
        out.append(len(v))
        out.extend(v)
    elif t == ('Option', INT):
        out.extend([0] if v is None else [1, int(v)])
    elif t == ('Option', OPAQUE):
        out.append(0 if v is None else 1)
    elif t == OPAQUE:
        pass
    elif t == FILE:
        _enc(SEQ, v['data'], out)
        out.extend([v['pos'], int(v['closed']), int(v['real']), int(v['stale'])])
    elif t == FILES:
        out.append(len(v))
        for x in v:
            _enc(FILE, x, out)
    elif t == CFILE:
        def cus(text):
            r = []
            for ch in text:
                for i in range(len(ch.encode('utf-8'))):
                    r.append((ord(ch), i))
            return r
        def put_cus(l):
            out.append(len(l))
            for c, i in l:
                out.extend([c, i])
        def put_chars(x):
            out.append(len(x))
            out.extend(ord(c) for c in x)
        put_cus(cus(v['text']))
        out.append(v['pos'])
        put_cus(v['bytebuf'])
        put_chars(v['charbuf'])
        out.append(len(v['linebuf']))
        for l in v['linebuf']:
            put_chars(l)
        out.extend([int(v['closed']), int(v['real'])])
    else:
        raise ValueError(t)


def _mk_file(v):
    import io
    import tempfile
    data = bytes(v['data'])
    if v['real']:
        f = tempfile.TemporaryFile()
        if v['stale']:
            k = len(data) // 2
            f.write(data[:k])
            f.flush()
            f.write(data[k:])           # still in the userspace buffer; position = end of the data
            assert v['pos'] == len(data)
        else:
            f.write(data)
            f.seek(v['pos'])
    else:
        f = io.BytesIO(data)
        f.seek(v['pos'])
    if v['closed']:
        f.close()
    return f


def _mk_cfile(v):
    import codecs
    import io
    import tempfile
    data = v['text'].encode('utf-8')
    if v['real']:
        st = tempfile.TemporaryFile()
        st.write(data)
    else:
        st = io.BytesIO(data)
    st.seek(v['pos'])
    ef = codecs.EncodedFile(st, data_encoding='utf-8')
    ef.reader.bytebuffer = b''.join(chr(c).encode('utf-8')[i:i + 1] for c, i in v['bytebuf'])
    ef.reader.charbuffer = v['charbuf']
    ef.reader.linebuffer = list(v['linebuf']) if v['linebuf'] else None
    if v['closed']:
        ef.close()
    return ef


def _obs_cfile(ef):
    import io
    st = ef.stream
    real = not isinstance(st, io.BytesIO)
    if st.closed:
        return [1, int(real)]
    pos = st.tell()
    if real:
        st.seek(0)
        data = st.read()
        st.seek(pos)
    else:
        data = st.getvalue()
    bb = ef.reader.bytebuffer
    cb = ef.reader.charbuffer or ''
    lb = ef.reader.linebuffer or []
    out = [0, int(real), len(data)] + list(data) + [pos, len(bb)] + list(bb) + [len(cb)] + [ord(c) for c in cb] + [len(lb)]
    for l in lb:
        out += [len(l)] + [ord(c) for c in l]
    return out


def _obs_file(f):
    import io
    real = not isinstance(f, io.BytesIO)
    if f.closed:
        return [0, 0, 1, int(real)]
    pos = f.tell()
    if real:
        f.seek(0)
        data = f.read()
        f.seek(pos)
    else:
        data = f.getvalue()
    return [len(data)] + list(data) + [pos, 0, int(real)]


def _canon_state(t, v):
    if t == CFILE:
        return _obs_cfile(v)
    if t == SEQ and isinstance(v, str):
        return [len(v)] + [ord(c) for c in v]
    if t == FILE:
        return _obs_file(v)
    if t == FILES:
        out = [len(v)]
        for x in v:
            out += _obs_file(x)
        return out
    if t == INT:
        return [int(v)]
    if t == SEQ:
        return [len(v)] + list(v)
    if t == OPAQUE:
        return []
    raise ValueError(t)


def _canon_result(t, v):
    if t in (UNIT, FD, OPAQUE):
        return []
    if t == INT:
        if type(v) is not int:
            raise ValueError('not an int: %r' % (v,))
        return [v]
    if t == BOOL:
        if type(v) is not bool:
            raise ValueError('not a bool: %r' % (v,))
        return [int(v)]
    if t == SEQ and type(v) is str:
        return [len(v)] + [ord(c) for c in v]
    if t == SEQ:
        if type(v) is not bytes:
            raise ValueError('not bytes: %r' % (v,))
        return [len(v)] + list(v)
    if t == ('Option', INT):
        return [0] if v is None else [1, int(v)]
    raise ValueError(t)


def call_real(sp, case):
    """run the real method on real objects built from the abstract state -> (('ok', value) | ('exc', class name),
    canonical state after)"""
    mod = importlib.import_module(sp['module'])
    pycls = getattr(mod, sp['cls']['name'])
    obj = pycls.__new__(pycls)
    state = {}
    for a, tt in sp['cls']['state'].items():
        t = parse_type(tt)
        v = case['self'][a]
        if t == CFILE:
            v = _mk_cfile(v)
        elif a in sp['cls'].get('module_params', {}).values():
            for gname, fld in sp['cls']['module_params'].items():
                if fld == a:
                    setattr(mod, gname, v)          # the module constant the class reads
            state[a] = t
            continue
        elif t == FILE:
            v = _mk_file(v)
        elif t == FILES:
            v = tuple(_mk_file(x) for x in v)
        elif t == SEQ:
            v = bytes(v)
        elif t == OPAQUE:
            v = None
        setattr(obj, a, v)
        state[a] = t
    text = sp['cls'].get('seq_class') == 'str'
    args = []
    for p, tt in sp['params'].items():
        v = case['args'][p]
        if parse_type(tt) == SEQ and not text:
            v = bytes(v)
        args.append(v)
    got = py2lean_find_attr(pycls, sp['py'])
    try:
        if isinstance(got, property):
            res = ('ok', getattr(obj, sp['py']))
        else:
            res = ('ok', getattr(obj, sp['py'])(*args))
    except Exception as e:  # noqa: BLE001
        res = ('exc', type(e).__name__)
    after = []
    for a, t in state.items():
        if a in sp['cls'].get('module_params', {}).values():
            gname = [g for g, f in sp['cls']['module_params'].items() if f == a][0]
            after += _canon_state(t, getattr(mod, gname))
            continue
        after += _canon_state(t, getattr(obj, a))
    for a, t in state.items():      # release the temporary files
        v = getattr(obj, a, None)
        for f in (v if isinstance(v, tuple) else [v]):
            if hasattr(f, 'close'):
                try:
                    f.close()
                except Exception:  # noqa: BLE001
                    pass
    try:
        obj._buffer = None          # SpooledIOBase.__del__ closes `self.buffer`
        import io
        obj._buffer = io.BytesIO()
    except Exception:  # noqa: BLE001
        pass
    return res, after


def py2lean_find_attr(pycls, name):
    for c in pycls.__mro__:
        if name in c.__dict__:
            return c.__dict__[name]
    return None


def _rand_file(rng, wild=True):
    n = rng.choice([0, 0, 1, 2, 3, 5, 8])
    data = [rng.choice([10, 10, 97, 98, 0, 255]) for _ in range(n)]
    real = rng.random() < 0.5
    stale = real and rng.random() < 0.25
    pos = len(data) if stale else rng.choice([0, 0, len(data), rng.randint(0, len(data) + 2)])
    closed = wild and rng.random() < 0.08
    return {'data': data, 'pos': pos, 'closed': closed, 'real': real, 'stale': stale and not closed}


def _rand_bytes(rng):
    return [rng.choice([10, 97, 98, 0]) for _ in range(rng.choice([0, 1, 1, 2, 3, 6]))]


def cases_for(sp, rng, quick):
    cls = sp['cls']['name']
    n = 120 if quick else 700
    for _ in range(n):
        if cls == 'SpooledStringIO':
            alpha = ['a', 'b', '\n', '\r', '\x0c', '\u00e9', '\u65e5', '\U0001f600', '\u2028']
            text = ''.join(rng.choice(alpha) for _ in range(rng.choice([0, 1, 2, 3, 4, 6, 8])))
            k = rng.randint(0, len(text))
            pos = len(text[:k].encode('utf-8'))
            r = rng.random()
            if r < 0.06:
                pos = len(text.encode('utf-8')) + 1
            elif r < 0.12 and pos > 0:
                pos -= 1            # possibly inside a character: UnicodeDecodeError / not specified
            cb, lb, bb = '', [], []
            r = rng.random()
            if r < 0.25:
                cb = ''.join(rng.choice(alpha) for _ in range(rng.randint(1, 3)))
            elif r < 0.33:
                lb = [''.join(rng.choice(['a', 'b']) for _ in range(rng.randint(1, 2))) + '\n' for _ in range(2)]
            st = {'_buffer': {'text': text, 'pos': pos, 'bytebuf': bb, 'charbuf': cb, 'linebuf': lb,
                              'closed': rng.random() < 0.05, 'real': rng.random() < 0.5},
                  '_tell': rng.randint(0, 6), '_max_size': rng.randint(0, 14), '_dir': None,
                  'chunk': rng.choice([1, 2, 3, 5, 21333])}
        elif cls == 'MultiFileReader':
            files = [_rand_file(rng) for _ in range(rng.choice([0, 1, 2, 2, 3, 4]))]
            st = {'_fileobjs': files, '_index': rng.choice([0, 0, 0, 1, 2, len(files), len(files) + 1, -1]),
                  '_joiner': []}
        else:
            st = {'_buffer': _rand_file(rng), '_max_size': rng.randint(-1, 12), '_dir': None}
        args = {}
        for p, tt in sp['params'].items():
            t = parse_type(tt)
            if t == INT:
                if cls == 'SpooledStringIO':
                    v = rng.choice([0, 0, 1, 1, 2, 3]) if p == 'mode' else rng.randint(-1, 9)
                elif p in ('mode', 'whence'):
                    v = rng.choice([0, 0, 0, 1, 1, 2, 2, 3, -1])
                elif p == 'offset':
                    v = rng.choice([0, 0, 0, 1, -1])
                else:
                    v = rng.randint(-3, 12)
            elif t == ('Option', INT) and cls == 'SpooledStringIO':
                v = rng.choice([None, None, None, None, None, 0, 3])
            elif t == ('Option', INT):
                v = rng.choice([None, None, 0, 1, 2, 3, 5, 9, -1, -2, rng.randint(0, 14)])
            elif t == ('Option', OPAQUE):
                v = None
            elif t == SEQ and cls == 'SpooledStringIO':
                v = ''.join(rng.choice(['a', '\n', '\u00e9', '\u65e5', '\U0001f600']) for _ in range(rng.choice([0, 1, 2, 4])))
            elif t == SEQ:
                v = _rand_bytes(rng)
            else:
                raise ValueError(t)
            args[p] = v
        yield {'self': st, 'args': args}


def selftest(pids, quick=False, seed=0, verbose=True, repo=None):
    """-> (number of mismatches, report dict) in the format of py2lean_selftest.run"""
    import random
    import shutil
    import subprocess
    import tempfile
    import time
    from bv import common
    common.ensure_repo_on_path()
    t0 = time.time()
    specs = _st_specs(pids)
    src = build_driver(specs, repo or common.REPO)
    rng = random.Random('py2lean-c18-selftest-%d' % seed)
    lines, meta = [], []
    for n, sp in enumerate(specs):
        for case in cases_for(sp, rng, quick):
            toks = [n]
            for a, tt in sp['cls']['state'].items():
                _enc(parse_type(tt), case['self'][a], toks)
            for p, tt in sp['params'].items():
                _enc(parse_type(tt), case['args'][p], toks)
            lines.append(' '.join(map(str, toks)))
            meta.append((sp, case))
    tmp = tempfile.mkdtemp(prefix='py2lean-c18-selftest-')
    try:
        drv = os.path.join(tmp, 'SrcSelfTestC18.lean')
        with open(drv, 'w') as fh:
            fh.write(src)
        with common.BuildLock():
            rc, out = common._run(['lake', 'build', 'BoltonsVerif.PyRtC18'])
        if rc != 0:
            raise common.InfraError('cannot build BoltonsVerif.PyRtC18: ' + out[-500:])
        t1 = time.time()
        p = subprocess.run(['lake', 'env', 'lean', '--run', drv], cwd=common.LEAN, input='\n'.join(lines) + '\n',
                           stdout=subprocess.PIPE, stderr=subprocess.STDOUT, text=True, timeout=1800)
        t_lean = time.time() - t1
    finally:
        shutil.rmtree(tmp, ignore_errors=True)
    outs = [ln[2:] for ln in p.stdout.split('\n') if ln.startswith('R ')]
    if p.returncode != 0 or len(outs) != len(lines):
        raise common.InfraError('scratch driver failed (rc %s, %d lines for %d inputs): %s' % (
            p.returncode, len(outs), len(lines), p.stdout[-1500:]))
    exc_codes = {n: i for i, n in enumerate(EXC_NAMES)}
    report, mismatches = {}, []
    for (sp, case), got in zip(meta, outs):
        r = report.setdefault(sp['lean_name'], {'cases': 0, 'compared': 0, 'python_raises': 0, 'unspecified': 0,
                                                'mismatches': 0})
        r['cases'] += 1
        if got.startswith('bad'):
            raise common.InfraError('driver rejected a line: %s for %r' % (got, case))
        val = [int(x) for x in got.split()]
        (kind, res), after = call_real(sp, case)
        if val[:2] == [0, 7] and not (kind == 'exc' and res not in exc_codes):
            # `Other` where Python does not raise an exception of an unmodelled class (OSError, NotImplementedError,
            # AttributeError …): outside what the abstract file specifies
            r['unspecified'] += 1
            continue
        r['compared'] += 1
        if val[:2] == [0, 7] and sp['cls'].get('seq_class') == 'str':
            continue        # an unmodelled exception class on both sides (UnicodeDecodeError …): the state is not specified
        try:
            if kind == 'exc':
                r['python_raises'] += 1
                want = [0, exc_codes.get(res, 7)]
            else:
                want = [1] + _canon_result(parse_type(sp['result']), res)
            want = want + after
        except Exception as e:  # noqa: BLE001
            want = 'unencodable %r (%s)' % (res, e)
        if want != val:
            r['mismatches'] += 1
            mismatches.append((sp['lean_name'], case, 'Python %s %r, after %r but Lean stream %s' % (kind, res, want, val)))
    nrej = reject_tests(verbose)
    if nrej:
        mismatches.append(('py2lean_c18.reject_tests', {}, '%d snippets were not handled as expected' % nrej))
    report['_reject_snippets'] = {'snippets': len(REJECT) + 1, 'not_as_expected': nrej}
    report['_mismatches'] = [{'function': n, 'case': c, 'what': b} for n, c, b in mismatches[:5]]
    report['_wall_s'] = round(time.time() - t0, 2)
    report['_lean_s'] = round(t_lean, 2)
    if verbose:
        for name, r in report.items():
            print(name, r)
        for name, case, bad in mismatches[:20]:
            print('MISMATCH %s %r: %s' % (name, case, bad))
    return len(mismatches), report


# ------------------------------------------------------------------------------------------------ must be refused
_REJ_CLS = {'name': 'K', 'lean_name': 'K', 'unit': 'UInt8', 'seq_class': 'bytes', 'nl': 'PyRtC18.isNL', 'fd_of': '_buffer',
            'buffer_property': {'name': 'buffer', 'field': '_buffer', 'new': 'BytesIO'},
            'state': {'_buffer': 'File', '_n': 'Int', '_fs': 'List File'}}
_REJ_HEAD = (
    "class K:\n"
    "    @property\n"
    "    def buffer(self):\n"
    "        try:\n"
    "            return self._buffer\n"
    "        except AttributeError:\n"
    "            self._buffer = BytesIO()\n"
    "        return self._buffer\n"
    "    def bump(self):\n"
    "        self._n += 1\n"
    "        return self._n\n")
# (method source, parameter types, result, why it must be refused; 'control': must TRANSLATE)
REJECT = [
    ('def m(self):\n        x = self._buffer\n        return x.tell()', {}, 'Int', 'alias of a file object'),
    ('def m(self):\n        return self._n + self.bump()', {}, 'Int', 'state-changing call after a read of the state'),
    ('def m(self):\n        return self.bump() + self._n', {}, 'Int', 'control: the read comes after the call'),
    ('def m(self, a):\n        if a > 0:\n            x = 1\n        return x', {'a': 'Int'}, 'Int', 'unbound local'),
    ('def m(self, a):\n        if a > 0:\n            x = 1\n        else:\n            x = 2\n        return x', {'a': 'Int'},
     'Int', 'control: assigned on both paths'),
    ('def m(self):\n        return self.buffer.peek()', {}, 'Bytes', 'undeclared file operation'),
    ('def m(self):\n        return self.other', {}, 'Int', 'undeclared attribute'),
    ('def m(self, a):\n        while a > 0:\n            while a > 1:\n                a -= 1\n            a -= 1\n        return a',
     {'a': 'Int'}, 'Int', 'nested while'),
    ('def m(self, a):\n        while self.bump() < a:\n            a -= 1\n        return a', {'a': 'Int'}, 'Int',
     'while condition with an operation'),
    ('def m(self, a):\n        return a > 0 and self.buffer.tell() > a', {'a': 'Int'}, 'Bool',
     'operation in a conditionally evaluated operand'),
    ('def m(self):\n        try:\n            return self.buffer.tell()\n        except ValueError:\n            return 0', {}, 'Int',
     'try/except'),
    ('def m(self):\n        t = TemporaryFile()\n        self._buffer = t\n        return t.tell()', {}, 'Int',
     'local file used after it was stored'),
    ('def m(self):\n        t = TemporaryFile()\n        p = t.tell()\n        self._buffer = t\n        return p', {}, 'Int',
     'control: a fresh local file moved into the object'),
    ('def m(self):\n        for f in self._fs:\n            f.seek(0)\n            f.read()\n        return 0', {}, 'Int',
     'loop body with two operations'),
    ('def m(self):\n        for f in self._fs:\n            f.seek(0)\n        return 0', {}, 'Int', 'control: per-file loop'),
    ('def m(self, a):\n        raise ValueError(a.foo())', {'a': 'Int'}, 'None', 'exception argument that could raise'),
    ('def m(self, *a):\n        return 0', {}, 'Int', 'parameter list differs from the spec'),
    ('def m(self):\n        return self.buffer.read(n=3)', {}, 'Bytes', 'keyword argument of a file operation'),
    ('def m(self, a):\n        return a // 2', {'a': 'Int'}, 'Int', 'operator outside the subset'),
    ('def m(self, a):\n        if a > 0:\n            return 1', {'a': 'Int'}, 'Int', 'falls off its end with a non-None result'),
    ('def m(self):\n        self._fs[0] = self._buffer\n        return 0', {}, 'Int', 'item assignment'),
    ('def m(self):\n        return os.fstat(3).st_size', {}, 'Int', 'fstat of something that is not a descriptor'),
]
_REJ_BAD_PROP = (
    "class K:\n"
    "    @property\n"
    "    def buffer(self):\n"
    "        if not hasattr(self, '_buffer'):\n"
    "            self._buffer = BytesIO(b'x')\n"
    "        return self._buffer\n"
    "    def m(self):\n"
    "        return self.buffer.tell()\n")


def reject_tests(verbose=True):
    """-> number of snippets that were NOT handled as expected"""
    bad = 0

    def run(src, params, result):
        cls = dict(_REJ_CLS)
        sp = {'py': 'm', 'name': 'm', 'params': params, 'result': result, 'cls': cls, 'tie_theorem': '-',
              'gen_file': 'rej'}
        bump = {'py': 'bump', 'name': 'bump', 'params': {}, 'result': 'Int', 'cls': cls, 'tie_theorem': '-',
                'gen_file': 'rej'}
        cls['methods'] = [bump, sp] if 'def bump' in src else [sp]
        _, infos = translate_source(src, cls['methods'], 'rej', 'rej.py')
        return infos[-1].get('error')
    for body, params, result, why in REJECT:
        err = run(_REJ_HEAD + '    ' + body + '\n', params, result)
        expect_ok = why.startswith('control')
        if bool(err) == expect_ok:
            bad += 1
            if verbose:
                print('REJECT-TEST FAILED (%s): -> %r' % (why, err))
    if not run(_REJ_BAD_PROP, {}, 'Int'):
        bad += 1
        if verbose:
            print('REJECT-TEST FAILED: a buffer property outside the normal form was accepted')
    if verbose:
        print('py2lean_c18 reject tests: %d snippets, %d not as expected' % (len(REJECT) + 1, bad))
    return bad


if __name__ == '__main__':
    import sys
    sys.path.insert(0, os.path.dirname(os.path.abspath(__file__)))
    n = selftest(['C18'], quick='--quick' in sys.argv, seed=0)[0]
    sys.exit(1 if n else 0)
