"""Self-test of harness/py2lean_prepass.py (the desugaring pre-pass of the SrcTie translator).

Positive cases: a synthetic module with a function `f(xs)` using the constructs the pre-pass rewrites.  The
rewritten FunctionDef is compiled INSIDE a copy of the same module namespace and must (a) contain none of the
rewritten constructs any more, and (b) return the same value as the original function on every argument of a
small exhaustive family (CPython against CPython - no Lean involved).
Negative cases: modules in which a side condition of a rewrite does not hold (a constant bound twice, a `global`
declaration, a helper with a second statement, an alias bound in a loop, an alias of a rebound list, a local
shadowing the constant, isinstance on a rebound parameter ...): the construct must be left alone.

    run() -> (number of cases compared, list of problems)        (~20 ms)
"""
import ast
import copy
import itertools

import py2lean_prepass

SPEC = {'params': {'xs': 'List Str'}}

POSITIVE = {
    'constants_tuple_unpack': '''
A, B = 'p', 'q'
BOTH = (A, B)
LIMIT = 2
def f(xs):
    out = []
    for x in xs:
        if x == A:
            continue
        if x in BOTH and len(out) < LIMIT:
            out.append(B)
        else:
            out.append(x)
    return out
''',
    'helper_inlined_with_constant_inside': '''
EMPTY = ''
def _only_root(segs):
    "doc"
    return len(segs) == 1 and segs[0] == EMPTY
def f(xs):
    out = []
    for x in xs:
        if x == 'q':
            if out and not _only_root(out):
                out.pop()
        else:
            out.append(x)
    return out
''',
    'helper_calls_helper': '''
def _short(s):
    return len(s) < 2
def _keep(s, t):
    return _short(s) and not _short(t)
def f(xs):
    out = []
    for x in xs:
        if _keep(out, xs):
            out.append(x)
    return out
''',
    'bound_methods': '''
def f(xs):
    out = []
    push, pop = out.append, out.pop
    n = 0
    for x in xs:
        if x == 'q':
            if n > 0:
                pop()
                n -= 1
        else:
            push(x)
            n += 1
    return out
''',
    'bound_method_single_and_other_binding': '''
def f(xs):
    out = []
    push, n = out.append, 0
    for x in xs:
        push(x)
        n += 1
    if n > 1:
        push('')
    return out
''',
    'isinstance_true_branch_dead': '''
def f(xs):
    if not isinstance(xs, (tuple, list)):
        xs = tuple(xs)
    out = []
    for x in xs:
        out.append(x)
    return out
''',
    'isinstance_false': '''
def f(xs):
    out = []
    if isinstance(xs, str):
        out.append('text')
    else:
        out.append('seq')
    for x in xs:
        out.append(x)
    return out
''',
    'del_last_item': '''
def f(xs):
    out = []
    keep = list(xs)
    for x in xs:
        if x == 'q':
            if len(out) > (1 if (out and not out[0]) else 0):
                del out[-1]
        elif x == 'r':
            del out[-1]
            del keep[-1]
        else:
            out.append(x)
    return out + keep
''',
    'constant_tests': '''
DEBUG = False
def f(xs):
    out = []
    for x in xs:
        if DEBUG and x == 'p':
            out.append('dbg')
        if not DEBUG or x == 'q':
            out.append(x)
    return out
''',
}

# (module source, construct that must survive un-rewritten: a predicate on the resulting FunctionDef)
NEGATIVE = {
    'constant_bound_twice': ('''
A = 'p'
A = 'q'
def f(xs):
    return [x for x in xs if x == A]
''', 'name:A'),
    'constant_declared_global': ('''
A = 'p'
def g():
    global A
    A = 'q'
def f(xs):
    return [x for x in xs if x == A]
''', 'name:A'),
    'constant_is_a_list': ('''
A = ['p']
def f(xs):
    return [x for x in xs if x in A]
''', 'name:A'),
    'constant_shadowed_by_local': ('''
A = 'p'
def f(xs):
    A = 'q'
    return [x for x in xs if x == A]
''', 'name:A'),
    'star_import': ('''
from os.path import *
A = 'p'
def f(xs):
    return [x for x in xs if x == A]
''', 'name:A'),
    'helper_two_statements': ('''
def h(s):
    s = s + ['z']
    return len(s) == 1
def f(xs):
    return [x for x in xs if h(xs)]
''', 'call:h'),
    'helper_with_default': ('''
def h(s, n=1):
    return len(s) == n
def f(xs):
    return [x for x in xs if h(xs)]
''', 'call:h'),
    'helper_reads_unresolved_global': ('''
STATE = []
def h(s):
    return len(s) == len(STATE)
def f(xs):
    STATE = xs
    return [x for x in xs if h(xs)]
''', 'call:h'),
    'helper_argument_not_simple': ('''
def h(s):
    return len(s) == 1
def f(xs):
    return [x for x in xs if h(xs + xs)]
''', 'call:h'),
    'helper_redefined': ('''
def h(s):
    return len(s) == 1
def h(s):
    return len(s) == 2
def f(xs):
    return [x for x in xs if h(xs)]
''', 'call:h'),
    'alias_bound_in_loop': ('''
def f(xs):
    out = []
    for x in xs:
        push = out.append
        push(x)
    return out
''', 'name:push'),
    'alias_of_rebound_list': ('''
def f(xs):
    out = []
    push = out.append
    out = ['fresh']
    for x in xs:
        push(x)
    return out
''', 'name:push'),
    'alias_escapes': ('''
def f(xs):
    out = []
    push = out.append
    fs = [push]
    for x in xs:
        push(x)
    return out
''', 'name:push'),
    'alias_bound_twice': ('''
def f(xs):
    out = []
    other = []
    push = out.append
    push = other.append
    for x in xs:
        push(x)
    return out
''', 'name:push'),
    'isinstance_on_rebound_parameter': ('''
def f(xs):
    xs = list(xs)
    if isinstance(xs, (list, tuple)):
        return xs
    return []
''', 'call:isinstance'),
    'isinstance_list_only': ('''
def f(xs):
    if isinstance(xs, list):
        return xs
    return []
''', 'call:isinstance'),
    'del_last_of_parameter': ('''
def f(xs):
    del xs[-1]
    return xs
''', 'del:xs'),
    'del_last_of_non_list': ('''
def f(xs):
    d = []
    d = {-1: 'p'}
    del d[-1]
    return list(d)
''', 'del:d'),
    'del_last_of_loop_variable': ('''
def f(xs):
    out = []
    for out in xs:
        pass
    del out[-1]
    return []
''', 'del:out'),
    'del_other_index': ('''
def f(xs):
    out = list(xs)
    del out[-2]
    return out
''', 'del:out'),
    'del_last_slice': ('''
def f(xs):
    out = list(xs)
    del out[-1:]
    return out
''', 'del:out'),
    'del_last_list_rebound': ('''
list = dict
def f(xs):
    out = list()
    del out[-1]
    return []
''', 'del:out'),
    'isinstance_rebound_builtin': ('''
list = dict
def f(xs):
    if isinstance(xs, (list, tuple)):
        return xs
    return []
''', 'call:isinstance'),
}


def _rewrite(src):
    tree = ast.parse(src)
    fdef = [n for n in tree.body if isinstance(n, ast.FunctionDef) and n.name == 'f'][-1]
    info = {}
    new = py2lean_prepass.run(fdef, tree, SPEC, info)
    return tree, fdef, new, info


def _compile_in_module(src, new_fdef):
    """the original module namespace, and one in which `f` has been replaced by the rewritten definition"""
    ns1 = {}
    exec(compile(src, '<orig>', 'exec'), ns1)
    ns2 = {}
    exec(compile(src, '<orig>', 'exec'), ns2)
    mod = ast.Module(body=[copy.deepcopy(new_fdef)], type_ignores=[])
    ast.fix_missing_locations(mod)
    exec(compile(mod, '<rewritten>', 'exec'), ns2)
    return ns1['f'], ns2['f']


def _has(fdef, what):
    kind, name = what.split(':')
    for n in ast.walk(fdef):
        if kind == 'name' and isinstance(n, ast.Name) and n.id == name and isinstance(n.ctx, ast.Load):
            return True
        if kind == 'call' and isinstance(n, ast.Call) and isinstance(n.func, ast.Name) and n.func.id == name:
            return True
        if kind == 'del' and isinstance(n, ast.Delete) and any(
                isinstance(t, ast.Subscript) and isinstance(t.value, ast.Name) and t.value.id == name
                for t in n.targets):
            return True
    return False


def run():
    problems = []
    compared = 0
    args = []
    for n in range(0, 5):
        for t in itertools.product(['p', 'q', 'r', ''], repeat=n):
            args.append(list(t))
            if n <= 2:
                args.append(tuple(t))
    for name, src in POSITIVE.items():
        tree, fdef, new, info = _rewrite(src)
        if new is fdef or not info.get('prepass'):
            problems.append('%s: nothing rewritten (%r)' % (name, info))
            continue
        module_names = {n.id for st in tree.body if isinstance(st, ast.Assign) for n in ast.walk(st)
                        if isinstance(n, ast.Name) and isinstance(n.ctx, ast.Store)}
        helper_names = {n.name for n in tree.body if isinstance(n, ast.FunctionDef) and n.name != 'f'}
        left = [n.id for n in ast.walk(new) if isinstance(n, ast.Name) and isinstance(n.ctx, ast.Load)
                and n.id in (module_names | helper_names | {'isinstance'})]
        if left:
            problems.append('%s: still refers to %s after the pre-pass' % (name, sorted(set(left))))
        if any(isinstance(n, ast.Attribute) and not isinstance(getattr(n, 'ctx', None), ast.Store)
               and not _is_call_func(new, n) for n in ast.walk(new)):
            problems.append('%s: a bare attribute access is left' % name)
        f1, f2 = _compile_in_module(src, new)
        for a in args:
            try:
                r1 = ('ok', list(f1(copy.copy(a))))
            except Exception as e:       # noqa: BLE001
                r1 = ('exc', type(e).__name__)
            try:
                r2 = ('ok', list(f2(copy.copy(a))))
            except Exception as e:       # noqa: BLE001
                r2 = ('exc', type(e).__name__)
            compared += 1
            if r1 != r2:
                problems.append('%s: f(%r) = %r, rewritten gives %r' % (name, a, r1, r2))
                break
    for name, (src, what) in NEGATIVE.items():
        tree, fdef, new, info = _rewrite(src)
        if not _has(new, what):
            problems.append('%s: %s was rewritten although a side condition fails (%r)' % (name, what, info))
    return compared, problems


def _is_call_func(fdef, attr):
    for n in ast.walk(fdef):
        if isinstance(n, ast.Call) and n.func is attr:
            return True
    return False


if __name__ == '__main__':
    n, probs = run()
    print('py2lean_prepass selftest: %d comparisons, %d problems' % (n, len(probs)))
    for p in probs:
        print('  ' + p)
    raise SystemExit(1 if probs else 0)
