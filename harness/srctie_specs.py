"""Specs of the source-translated functions (SrcTie), per property.

One entry per function:
  module, qualname      where the function lives in the repo under test
  lean_name             name of the generated definition inside `namespace Src.<module>`
  method                True: the first parameter is `self` (dropped)
  params                {python parameter: Lean type}  (order = the Python signature, checked)
  self_len              True: `len(self)` is read -> extra parameter `self_len : Int`
  self_attrs            {attr: type}: `self.<attr>` is read -> extra parameter `self_<attr>`
  tparams               type variables (items seen only through `len`)
  kind, result          'function' returning `result` | 'generator' yielding `result` (-> `List result`)
  guards                module-level validating functions whose calls  p = g(p, consts)  become conjuncts
                        of the generated precondition `<lean_name>_pre`
  locals                optional {python local: type} overriding the inference
  tie_theorem           the theorem of lean/BoltonsVerif/Cxx/SrcTie.lean that ties the generated
                        definition to the hand model
Types: Int | Bool | Str (= List Char) | List T | Option T | T × U | α
"""

SPECS = {
    'C09': [
        {
            'module': 'boltons.iterutils', 'qualname': 'chunk_ranges', 'lean_name': 'chunk_ranges',
            'params': {'input_size': 'Int', 'chunk_size': 'Int', 'input_offset': 'Int',
                       'overlap_size': 'Int', 'align': 'Bool'},
            'kind': 'generator', 'result': 'Int × Int',
            'guards': ['_validate_positive_int'],
            'tie_theorem': 'C09.src_chunk_ranges_eq_model',
        },
    ],
    'C11': [
        {
            'module': 'boltons.setutils', 'qualname': 'IndexedSet._get_real_index',
            'lean_name': 'get_real_index', 'method': True,
            'params': {'index': 'Int'}, 'self_len': True,
            'self_attrs': {'dead_indices': 'List (Int × Int)'},
            'kind': 'function', 'result': 'Int',
            'tie_theorem': 'C11.src_get_real_index_eq_model',
        },
        {
            'module': 'boltons.setutils', 'qualname': 'IndexedSet._get_apparent_index',
            'lean_name': 'get_apparent_index', 'method': True,
            'params': {'index': 'Int'}, 'self_len': True,
            'self_attrs': {'dead_indices': 'List (Int × Int)'},
            'kind': 'function', 'result': 'Int',
            'tie_theorem': 'C11.src_get_apparent_index_eq_model',
        },
    ],
    'C10': [
        {
            'module': 'boltons.listutils', 'qualname': 'BarrelList._translate_index',
            'lean_name': 'translate_index', 'method': True,
            'params': {'index': 'Int'}, 'self_len': True,
            'self_attrs': {'lists': 'List (List α)'}, 'tparams': ['α'],
            'kind': 'function', 'result': 'Option Int × Option Int',
            'tie_theorem': 'C10.src_translate_index_eq_model',
        },
    ],
    'C07': [
        {
            'module': 'boltons.urlutils', 'qualname': 'resolve_path_parts', 'lean_name': 'resolve_path_parts',
            'params': {'path_parts': 'List Str'},
            'kind': 'function', 'result': 'List Str',
            'tie_theorem': 'C07.src_resolve_path_parts_eq_model',
        },
    ],
}
