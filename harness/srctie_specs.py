"""Specs of the source-translated functions (SrcTie), per property.

One entry per function:
  module, qualname      where the function lives in the repo under test
  lean_name             name of the generated definition inside `namespace Src.<module>`
  method                True: the first parameter is `self` (dropped)
  params                {python parameter: Lean type}  (order = the Python signature, checked)
  self_len              True: `len(self)` is read -> extra parameter `self_len : Int`
  self_attrs            {attr: type}: `self.<attr>` is read -> extra parameter `self_<attr>`
  tparams               type variables (items seen only through `len`)
  kind, result          'function' returning `result` | 'generator' yielding `result` (-> `List result`)
  guards                module-level validating functions whose calls  p = g(p, consts)  become conjuncts
                        of the generated precondition `<lean_name>_pre`
  locals                optional {python local: type} overriding the inference
  tie_theorem           the theorem of lean/BoltonsVerif/Cxx/SrcTie.lean that ties the generated
                        definition to the hand model
Types: Int | Bool | Str (= List Char) | List T | Option T | T × U | α | Dict K V | None (= Unit)

Methods of a class WITH OBJECT STATE (round 3): the class is described once (`name`, `lean_name`, `tparams`,
`deceq` = type variables used as dict keys, `state` = {attribute: type}); each method spec carries
  cls                   the class description (its `methods` list is filled in below: callee lookup)
  py                    Python name of the method (several specs may translate one method at different
                        argument kinds: `update` of an iterable of keys / of a mapping)
  raises                True: raising mode (exceptions as values, result `Except PyExc R`)
  fuel                  True: the method is (mutually) recursive: extra parameter `fuel : Nat` (call depth)
  kwargs                {name: Dict type} of `**name`
The result is `R`, `Except PyExc R`, or paired with the new state (`… × Cls.St`) when the method changes it.
A fixed-length LIST of ints that the code indexes with constants (`[count, delta]`) is declared as a product.
"""


def _cls_methods(cls, module, methods):
    out = []
    for m in methods:
        sp = dict(m)
        sp.update(module=module, cls=cls, method=True, qualname='%s.%s' % (cls['name'], m['py']),
                  lean_name='%s.%s' % (cls['lean_name'], m['name']))
        sp.setdefault('kind', 'function')
        sp.setdefault('raises', True)
        del sp['name']
        out.append(sp)
    cls['methods'] = out
    return out


# boltons.cacheutils.ThresholdCounter.  `_thresh_count` (= int(1 / threshold), float arithmetic in __init__)
# is a state field; __init__ itself is not translated.
THRESHOLD_COUNTER = {
    'name': 'ThresholdCounter', 'lean_name': 'ThresholdCounter', 'tparams': ['κ'], 'deceq': ['κ'],
    'state': {'total': 'Int', '_count_map': 'Dict κ (Int × Int)', '_cur_bucket': 'Int', '_thresh_count': 'Int'},
    # round 3b: the names above are ROLES (they name the record fields); which private attribute of the class under
    # test plays which role is found by evaluating the real class on these probe objects (py2lean_clsprep.
    # resolve_roles): the attribute whose values in the probes are the signature.  `total` is public API (fixed).
    # probes: fresh at threshold 1/4, fresh at 1/10, threshold 1/4 after add('a'..'e') (one compaction, then 'e').
    'role_probe': {
        'objects': [({'threshold': 0.25}, []), ({'threshold': 0.1}, []),
                    ({'threshold': 0.25}, [('add', 'a'), ('add', 'b'), ('add', 'c'), ('add', 'd'), ('add', 'e')])],
        'signature': {'total': [0, 0, 5], '_count_map': [{}, {}, {'e': [1, 1]}], '_cur_bucket': [1, 1, 2],
                      '_thresh_count': [4, 10, 4]},
        'fixed': ['total'],
    },
    'helpers': True,         # private / unlisted methods called through `self.` are translated on demand
    'clsprep': True,         # class-level desugaring pre-pass (aliases of attributes, dict-building loops, ...)
}
_TC = _cls_methods(THRESHOLD_COUNTER, 'boltons.cacheutils', [
    {'py': 'add', 'name': 'add', 'params': {'key': 'κ'}, 'result': 'None',
     'tie_theorem': 'C20.src_add_eq_model'},
    {'py': '__getitem__', 'name': 'getitem', 'params': {'key': 'κ'}, 'result': 'Int',
     'tie_theorem': 'C20.src_getitem_eq_model'},
    {'py': '__len__', 'name': 'len', 'params': {}, 'result': 'Int',
     'tie_theorem': 'C20.src_len_eq_model'},
    {'py': '__contains__', 'name': 'contains', 'params': {'key': 'κ'}, 'result': 'Bool',
     'tie_theorem': 'C20.src_contains_eq_model'},
    {'py': 'get', 'name': 'get', 'params': {'key': 'κ', 'default': 'Int'}, 'result': 'Int',
     'tie_theorem': 'C20.src_get_eq_model'},
    {'py': 'get_common_count', 'name': 'get_common_count', 'params': {}, 'result': 'Int',
     'tie_theorem': 'C20.src_get_common_count_eq_model'},
    {'py': 'get_uncommon_count', 'name': 'get_uncommon_count', 'params': {}, 'result': 'Int',
     'tie_theorem': 'C20.src_get_uncommon_count_eq_model'},
    {'py': 'iteritems', 'name': 'iteritems', 'params': {}, 'kind': 'generator', 'result': 'κ × Int',
     'tie_theorem': 'C20.src_iteritems_eq_model'},
    {'py': 'most_common', 'name': 'most_common', 'params': {'n': 'Option Int'}, 'result': 'List (κ × Int)',
     'tie_theorem': 'C20.src_most_common_eq_model'},
    {'py': 'update', 'name': 'update_map', 'params': {'iterable': 'Option (Dict κ Int)'},
     'kwargs': {'kwargs': 'Dict κ Int'}, 'result': 'None', 'fuel': True,
     'tie_theorem': 'C20.src_update_map_eq_model'},
    {'py': 'update', 'name': 'update_keys', 'params': {'iterable': 'Option (List κ)'},
     'kwargs': {'kwargs': 'Dict κ Int'}, 'result': 'None', 'fuel': True,
     'tie_theorem': 'C20.src_update_keys_eq_model'},
])


# boltons.dictutils.OneToOne(dict).  The object IS its forward dict (spec field `fwd`, reached in the code as
# `self` / `dict.<m>(self, ...)`); `self.inv` is an object of the same class that IS the inverse dict and whose
# own `.inv` is `self`: one record, two fields, `St.swap` = the view from the other side (the convention of
# C17/Model.lean).  `__init__` / `unique` / `copy` (`*a, **kw`, `self.__class__(...)`, marker objects) are not
# translated.  `_MISSING` is the "argument omitted" marker of `pop`.
ONE_TO_ONE = {
    'name': 'OneToOne', 'lean_name': 'OneToOne', 'tparams': ['κ'], 'deceq': ['κ'],
    'state': {'fwd': 'Dict κ κ', 'inv': 'Dict κ κ'},
    'dict_base': 'fwd', 'peer': {'attr': 'inv', 'swap': {'fwd': 'inv', 'inv': 'fwd'}},
    'sentinels': ['_MISSING'],
    'helpers': True, 'clsprep': True,     # round 3b: helper methods on demand, class-level desugaring pre-pass
}
_OTO = _cls_methods(ONE_TO_ONE, 'boltons.dictutils', [
    {'py': '__delitem__', 'name': 'delitem', 'params': {'key': 'κ'}, 'result': 'None',
     'tie_theorem': 'C17.src_oto_delitem_eq_model'},
    {'py': '__setitem__', 'name': 'setitem', 'params': {'key': 'κ', 'val': 'κ'}, 'result': 'None',
     'tie_theorem': 'C17.src_oto_setitem_eq_model'},
    {'py': 'clear', 'name': 'clear', 'params': {}, 'result': 'None',
     'tie_theorem': 'C17.src_oto_clear_eq_model'},
    {'py': 'pop', 'name': 'pop', 'params': {'key': 'κ', 'default': 'Option κ'}, 'result': 'κ',
     'tie_theorem': 'C17.src_oto_pop_eq_model'},
    {'py': 'popitem', 'name': 'popitem', 'params': {}, 'result': 'κ × κ',
     'tie_theorem': 'C17.src_oto_popitem_eq_model'},
    {'py': 'setdefault', 'name': 'setdefault', 'params': {'key': 'κ', 'default': 'κ'}, 'result': 'κ',
     'tie_theorem': 'C17.src_oto_setdefault_eq_model'},
    {'py': 'update', 'name': 'update_pairs', 'params': {'dict_or_iterable': 'List (κ × κ)'},
     'kwargs': {'kw': 'Dict κ κ'}, 'result': 'None', 'tie_theorem': 'C17.src_oto_update_pairs_eq_model'},
    {'py': 'update', 'name': 'update_dict', 'params': {'dict_or_iterable': 'Dict κ κ'},
     'kwargs': {'kw': 'Dict κ κ'}, 'result': 'None', 'tie_theorem': 'C17.src_oto_update_dict_eq_model'},
])

# boltons.dictutils.ManyToMany.  `self.data` and `self.inv.data` (the inverse object's dict; `self.inv.inv is self`)
# are the two fields of one record; `inv_data` is not an attribute name, the path `self.inv.data` is mapped to it.
# Methods that ITERATE OVER A SET (`__setitem__`, `__delitem__`, `replace`, `iteritems`, `update(other
# ManyToMany)`) are refused: Python does not specify the order and the translator has no proof of independence.
MANY_TO_MANY = {
    'name': 'ManyToMany', 'lean_name': 'ManyToMany', 'tparams': ['κ'], 'deceq': ['κ'],
    'state': {'data': 'Dict κ (Set κ)', 'inv_data': 'Dict κ (Set κ)'},
    'paths': {'inv.data': 'inv_data'}, 'virtual': ['inv_data'],
    'helpers': True, 'clsprep': True,     # round 3b
}
_M2M = _cls_methods(MANY_TO_MANY, 'boltons.dictutils', [
    {'py': 'add', 'name': 'add', 'params': {'key': 'κ', 'val': 'κ'}, 'result': 'None',
     'tie_theorem': 'C17.src_m2m_add_eq_model'},
    {'py': 'remove', 'name': 'remove', 'params': {'key': 'κ', 'val': 'κ'}, 'result': 'None',
     'tie_theorem': 'C17.src_m2m_remove_eq_model'},
    {'py': '__getitem__', 'name': 'getitem', 'params': {'key': 'κ'}, 'result': 'Set κ',
     'tie_theorem': 'C17.src_m2m_getitem_eq_model'},
    {'py': 'get', 'name': 'get', 'params': {'key': 'κ', 'default': 'Set κ'}, 'result': 'Set κ',
     'tie_theorem': 'C17.src_m2m_get_eq_model'},
    {'py': '__contains__', 'name': 'contains', 'params': {'key': 'κ'}, 'result': 'Bool',
     'tie_theorem': 'C17.src_m2m_contains_eq_model'},
    {'py': '__len__', 'name': 'len', 'params': {}, 'result': 'Int',
     'tie_theorem': 'C17.src_m2m_len_eq_model'},
    {'py': 'update', 'name': 'update_pairs', 'params': {'iterable': 'List (κ × κ)'}, 'result': 'None',
     'tie_theorem': 'C17.src_m2m_update_pairs_eq_model'},
    {'py': 'update', 'name': 'update_dict', 'params': {'iterable': 'Dict κ κ'}, 'result': 'None',
     'tie_theorem': 'C17.src_m2m_update_dict_eq_model'},
])

# boltons.cacheutils.LRI / LRU (round 3b, HEAP MODE: notes/SRCTIE.md "Object store").  The ring of four-slot list
# cells `[PREV, NEXT, KEY, VALUE]` shared between the ring and `_link_lookup` lives in the object store `heap`; what
# `_anchor`, the values of `_link_lookup`, the cell slots and the locals hold are dynamically typed `Val`s.  The
# object IS its dict (`d`, reached as `self` / `super().<m>`); `heap` and `d` are not attribute names (`virtual`).
# `on_miss` is a parameter: a callable κ -> (a value | an exception) or None, assumed not to touch the cache.
# `with self._lock:` is transparent here (one method call = one atomic step; the locks are C03's subject).
# `__init__`, `copy`, `__eq__`/`__ne__`/`__ior__`/`__repr__`, `_get_flattened_ll`/`_print_ll` (debugging helpers no
# public method uses) are not translated; `__contains__`/`__len__` are inherited from dict.
LRI = {
    'name': 'LRI', 'lean_name': 'LRI', 'tparams': ['κ', 'ν'], 'deceq': ['κ'], 'inhabited': ['ν'],
    'heap': {'field': 'heap', 'key': 'κ', 'val': 'ν'},
    'state': {'heap': 'Heap', 'd': 'Dict κ ν', 'hit_count': 'Int', 'miss_count': 'Int', 'soft_miss_count': 'Int',
              'max_size': 'Int', '_link_lookup': 'Dict κ Val', '_anchor': 'Val', 'on_miss': 'Option (Fun κ ν)'},
    'virtual': ['heap', 'd'], 'dict_base': 'd', 'sentinels': ['_MISSING'], 'ignore_with': ['_lock'],
}
_LRI_GEN = 'cacheutils_lri'
_LRI = _cls_methods(LRI, 'boltons.cacheutils', [
    {'py': '_init_ll', 'name': 'init_ll', 'params': {}, 'result': 'None',
     'tie_theorem': 'C02.src_init_ll_eq_model'},
    {'py': '_get_link_and_move_to_front_of_ll', 'name': 'move_to_front', 'params': {'key': 'κ'}, 'result': 'Val',
     'tie_theorem': 'C02.src_move_to_front_eq_model'},
    {'py': '_set_key_and_add_to_front_of_ll', 'name': 'add_to_front', 'params': {'key': 'κ', 'value': 'ν'},
     'result': 'None', 'tie_theorem': 'C02.src_add_to_front_eq_model'},
    {'py': '_set_key_and_evict_last_in_ll', 'name': 'evict_last', 'params': {'key': 'κ', 'value': 'ν'},
     'result': 'Val', 'tie_theorem': 'C02.src_evict_last_eq_model'},
    {'py': '_remove_from_ll', 'name': 'remove_from_ll', 'params': {'key': 'κ'}, 'result': 'None',
     'tie_theorem': 'C02.src_remove_from_ll_eq_model'},
    {'py': '__setitem__', 'name': 'setitem', 'params': {'key': 'κ', 'value': 'ν'}, 'result': 'None',
     'tie_theorem': 'C02.src_setitem_eq_model'},
    {'py': '__getitem__', 'name': 'getitem', 'params': {'key': 'κ'}, 'result': 'Val',
     'tie_theorem': 'C02.src_getitem_eq_model'},
    {'py': 'get', 'name': 'get', 'params': {'key': 'κ', 'default': 'ν'}, 'result': 'Val',
     'tie_theorem': 'C02.src_get_eq_model'},
    {'py': '__delitem__', 'name': 'delitem', 'params': {'key': 'κ'}, 'result': 'None',
     'tie_theorem': 'C02.src_delitem_eq_model'},
    {'py': 'pop', 'name': 'pop', 'params': {'key': 'κ', 'default': 'Option ν'}, 'result': 'ν',
     'tie_theorem': 'C02.src_pop_eq_model'},
    {'py': 'popitem', 'name': 'popitem', 'params': {}, 'result': 'κ × ν',
     'tie_theorem': 'C02.src_popitem_eq_model'},
    {'py': 'clear', 'name': 'clear', 'params': {}, 'result': 'None',
     'tie_theorem': 'C02.src_clear_eq_model'},
    {'py': 'setdefault', 'name': 'setdefault', 'params': {'key': 'κ', 'default': 'ν'}, 'result': 'Val',
     'tie_theorem': 'C02.src_setdefault_eq_model'},
    {'py': 'update', 'name': 'update_pairs', 'params': {'E': 'List (κ × ν)'}, 'kwargs': {'F': 'Dict κ ν'},
     'result': 'None', 'tie_theorem': 'C02.src_update_pairs_eq_model'},
    {'py': 'update', 'name': 'update_dict', 'params': {'E': 'Dict κ ν'}, 'kwargs': {'F': 'Dict κ ν'},
     'result': 'None', 'tie_theorem': 'C02.src_update_dict_eq_model'},
])
# LRU(LRI): the same object state; `__getitem__` is overridden, so the inherited `get` / `setdefault` (whose
# `self[key]` is LRU.__getitem__) are translated again in the context of LRU; every other method is LRI's.
LRU = dict(LRI, name='LRU', lean_name='LRU', state_lean='LRI', mro=['LRU', 'LRI'])
_LRU = []
for _m in [{'py': '__getitem__', 'name': 'getitem', 'qualname': 'LRU.__getitem__', 'params': {'key': 'κ'},
            'result': 'Val', 'tie_theorem': 'C02.src_lru_getitem_eq_model'},
           {'py': 'get', 'name': 'get', 'qualname': 'LRI.get', 'params': {'key': 'κ', 'default': 'ν'},
            'result': 'Val', 'tie_theorem': 'C02.src_lru_get_eq_model'},
           {'py': 'setdefault', 'name': 'setdefault', 'qualname': 'LRI.setdefault',
            'params': {'key': 'κ', 'default': 'ν'}, 'result': 'Val',
            'tie_theorem': 'C02.src_lru_setdefault_eq_model'}]:
    _sp = dict(_m, module='boltons.cacheutils', cls=LRU, method=True, lean_name='LRU.' + _m['name'], kind='function',
               raises=True)
    del _sp['name']
    _LRU.append(_sp)
LRU['methods'] = [sp for sp in _LRI if sp['py'] not in ('__getitem__', 'get', 'setdefault')] + _LRU
for _sp in _LRI + _LRU:
    _sp['gen_file'] = _LRI_GEN

# boltons.queueutils.BasePriorityQueue (round 3b, heap mode).  An entry `[priority, count, task]` is ONE cell of the
# object store referenced from both `_entry_map[task]` and the backend `_pq`; `remove` marks it through the dict
# (`entry[-1] = _REMOVED`), `_cull` sees the mark through the backend.  `_pq` is an ABSTRACT BACKEND (type variable β,
# operations `PyHeap.Backend`: truthiness, `[0]`, `_push_entry`, `_pop_entry` - heapq / BList+insort are not translated),
# `_counter` (an `itertools.count`) an int incremented per `next`, `_get_priority` (the `priority_key`) a parameter
# Int -> Int | exception; priorities are ints (the convention of C10/Model.lean's `Op.add`), `default` any object of
# the second item type.  `__init__` (`**kw`, `itertools.count()`) is not translated.
BPQ = {
    'name': 'BasePriorityQueue', 'lean_name': 'BPQ', 'tparams': ['κ', 'ν', 'β'], 'deceq': ['κ'], 'inhabited': ['ν'],
    'heap': {'field': 'heap', 'key': 'κ', 'val': 'ν', 'int_slots': True},
    'backend': {'attr': '_pq', 'type': 'β', 'push': '_push_entry', 'pop': '_pop_entry'},
    'state': {'heap': 'Heap', '_pq': 'β', '_entry_map': 'Dict κ Val', '_counter': 'Counter',
              '_get_priority': 'Fun Int Int'},
    'virtual': ['heap'], 'sentinels': ['_REMOVED'], 'test_class': 'HeapPriorityQueue',
}
_BPQ = _cls_methods(BPQ, 'boltons.queueutils', [
    {'py': 'remove', 'name': 'remove', 'params': {'task': 'κ'}, 'result': 'None',
     'tie_theorem': 'C10.src_remove_eq_model'},
    {'py': 'add', 'name': 'add', 'params': {'task': 'κ', 'priority': 'Int'}, 'result': 'None',
     'tie_theorem': 'C10.src_add_eq_model'},
    {'py': '_cull', 'name': 'cull', 'params': {'raise_exc': 'Bool'}, 'result': 'None', 'loop_fuel': True,
     'tie_theorem': 'C10.src_cull_eq_model'},
    {'py': 'peek', 'name': 'peek', 'params': {'default': 'Option ν'}, 'result': 'Val', 'loop_fuel': True,
     'tie_theorem': 'C10.src_peek_eq_model'},
    {'py': 'pop', 'name': 'pop', 'params': {'default': 'Option ν'}, 'result': 'Val', 'loop_fuel': True,
     'tie_theorem': 'C10.src_pop_eq_model'},
    {'py': '__len__', 'name': 'len', 'params': {}, 'result': 'Int',
     'tie_theorem': 'C10.src_len_eq_model'},
])
for _sp in _BPQ:
    _sp['gen_file'] = 'queueutils_bpq'

# boltons.ioutils (round 3c, C18): MultiFileReader and SpooledBytesIO (on SpooledIOBase).  Translated by
# harness/py2lean_c18.py (spec key `translator`): the objects of the standard library the classes hold
# (`io.BytesIO`, `tempfile.TemporaryFile`, the member files of a MultiFileReader) are SPEC-DECLARED ABSTRACT
# OPERATIONS (py2lean_c18.FILE_OPS -> lean/BoltonsVerif/PyRtC18.lean `FileObj`, the abstract file `C18.File` of the
# hand model).  Types: Int | Bool | None | Bytes (the sequence type the file holds) | List Bytes | File | List File |
# Opaque (a value only passed on) | Fd | Option T.  `unit`: the unit type of the files (omitted: a type variable β).
def _c18_methods(cls, methods):
    out = []
    for m in methods:
        sp = dict(m, module='boltons.ioutils', cls=cls, method=True, translator='py2lean_c18', gen_file='ioutils',
                  qualname='%s.%s' % (cls['name'], m['py']), lean_name='%s.%s' % (cls['lean_name'], m['name']),
                  kind='function', raises=True)
        out.append(sp)
    cls['methods'] = out
    return out


MULTI_FILE_READER = {
    'name': 'MultiFileReader', 'lean_name': 'MultiFileReader',
    'state': {'_fileobjs': 'List File', '_index': 'Int', '_joiner': 'Bytes'},
}
_MFR = _c18_methods(MULTI_FILE_READER, [
    {'py': 'read', 'name': 'read', 'params': {'amt': 'Option Int'}, 'result': 'Bytes',
     'tie_theorem': 'C18.src_mfr_read_eq_model'},
    {'py': 'seek', 'name': 'seek', 'params': {'offset': 'Int', 'whence': 'Int'}, 'result': 'None',
     'tie_theorem': 'C18.src_mfr_seek_eq_model'},
])
# SpooledBytesIO(SpooledIOBase): `self.buffer` is the lazily creating property (accepted in one normal form, then it
# IS the state field `_buffer`, an empty BytesIO in a fresh object); `os.fstat(fd)` of a descriptor obtained from the
# object is about `_buffer` (`fd_of`); `nl`: the newline test of `readline` on this kind of file.
SPOOLED_BYTES = {
    'name': 'SpooledBytesIO', 'lean_name': 'SpooledBytesIO', 'mro': ['SpooledBytesIO', 'SpooledIOBase'],
    'unit': 'UInt8', 'seq_class': 'bytes', 'nl': 'PyRtC18.isNL', 'fd_of': '_buffer',
    'buffer_property': {'name': 'buffer', 'field': '_buffer', 'new': 'BytesIO'},
    'state': {'_buffer': 'File', '_max_size': 'Int', '_dir': 'Opaque'},
}
_SB = _c18_methods(SPOOLED_BYTES, [
    {'py': 'closed', 'name': 'closed', 'params': {}, 'result': 'Bool', 'tie_theorem': 'C18.src_sb_closed_eq_model'},
    {'py': '_checkClosed', 'name': 'checkClosed', 'params': {'msg': 'Option Opaque'}, 'result': 'None',
     'tie_theorem': 'C18.src_sb_checkClosed_eq_model'},
    {'py': '_rolled', 'name': 'rolled', 'params': {}, 'result': 'Bool', 'tie_theorem': 'C18.src_sb_rolled_eq_model'},
    {'py': 'tell', 'name': 'tell', 'params': {}, 'result': 'Int', 'tie_theorem': 'C18.src_sb_tell_eq_model'},
    {'py': 'seek', 'name': 'seek', 'params': {'pos': 'Int', 'mode': 'Int'}, 'result': 'Int',
     'tie_theorem': 'C18.src_sb_seek_eq_model'},
    {'py': 'read', 'name': 'read', 'params': {'n': 'Int'}, 'result': 'Bytes',
     'tie_theorem': 'C18.src_sb_read_eq_model'},
    {'py': 'readline', 'name': 'readline', 'params': {'length': 'Option Int'}, 'result': 'Bytes',
     'tie_theorem': 'C18.src_sb_readline_eq_model'},
    {'py': 'rollover', 'name': 'rollover', 'params': {}, 'result': 'None',
     'tie_theorem': 'C18.src_sb_rollover_eq_model'},
    {'py': 'write', 'name': 'write', 'params': {'s': 'Bytes'}, 'result': 'None',
     'tie_theorem': 'C18.src_sb_write_eq_model'},
    {'py': 'fileno', 'name': 'fileno', 'params': {}, 'result': 'Fd', 'tie_theorem': 'C18.src_sb_fileno_eq_model'},
    {'py': 'len', 'name': 'len', 'params': {}, 'result': 'Int', 'tie_theorem': 'C18.src_sb_len_eq_model'},
    {'py': 'getvalue', 'name': 'getvalue', 'params': {}, 'result': 'Bytes',
     'tie_theorem': 'C18.src_sb_getvalue_eq_model'},
    {'py': 'truncate', 'name': 'truncate', 'params': {'size': 'Option Int'}, 'result': 'Option Int',
     'tie_theorem': 'C18.src_sb_truncate_eq_model'},
])

# boltons.funcutils.FunctionBuilder (round 3c; extension module harness/py2lean_c13.py, notes/SRCTIE.md section 1f).
# Argument names are an abstract type κ with decidable equality, default values an abstract type ν.  `defaults` is
# `None` or a tuple; `kwonlydefaults` a dict; `exc_sub` is not an attribute: it holds the tag of a user-defined
# exception class in flight (`MissingArgument` / `ExistingArgument`, both plain subclasses of ValueError, which is
# what PyExc shows of them).  `NO_DEFAULT` is the "argument omitted" marker of `add_arg`.  Attributes the translated
# methods do not touch (`doc`, `module`, `body`, `annotations`, `dict`, `indent`, `filename`, `is_async`) are not
# declared: a method that starts using one leaves the subset.
FUNCTION_BUILDER = {
    'name': 'FunctionBuilder', 'lean_name': 'FunctionBuilder', 'tparams': ['κ', 'ν'], 'deceq': ['κ'],
    'inhabited': ['ν'],
    'state': {'name': 'κ', 'args': 'List κ', 'defaults': 'Option (List ν)', 'kwonlyargs': 'List κ',
              'kwonlydefaults': 'Dict κ ν', 'varargs': 'Option κ', 'varkw': 'Option κ', 'exc_sub': 'Int'},
    'sentinels': ['NO_DEFAULT'], 'ext': 'py2lean_c13',
    'user_exc': {'MissingArgument': {'base': 'ValueError', 'tag': 1},
                 'ExistingArgument': {'base': 'ValueError', 'tag': 2}},
}
_FB_GEN = 'funcutils_fb'
_FB = _cls_methods(FUNCTION_BUILDER, 'boltons.funcutils', [
    {'py': 'get_defaults_dict', 'name': 'get_defaults_dict', 'params': {}, 'result': 'Dict κ ν',
     'tie_theorem': 'C13.src_get_defaults_dict_eq_model'},
    {'py': 'get_arg_names', 'name': 'get_arg_names', 'params': {'only_required': 'Bool'}, 'result': 'List κ',
     'tie_theorem': 'C13.src_get_arg_names_eq_model'},
    {'py': 'add_arg', 'name': 'add_arg', 'params': {'arg_name': 'κ', 'default': 'Option ν', 'kwonly': 'Bool'},
     'result': 'None', 'tie_theorem': 'C13.src_add_arg_eq_model'},
    {'py': 'remove_arg', 'name': 'remove_arg', 'params': {'arg_name': 'κ'}, 'result': 'None',
     'tie_theorem': 'C13.src_remove_arg_eq_model'},
])
# the decision logic of `update_wrapper` on the builder `fb` (a REGION of the module-level function, cut out by the
# pre-pass: the statements after `fb = FunctionBuilder.from_func(...)` up to the first one that uses anything but the
# declared parameters and the builder's declared attributes / translated methods): the `injected` loop, the `expected`
# loop and the `call_name` collision loop.  `call_name` is a NAME built from string literals: `PyRtC13.Names κ`.
_UW = {'py': 'update_wrapper', 'qualname': 'update_wrapper', 'module': 'boltons.funcutils', 'cls': FUNCTION_BUILDER,
       'method': True, 'lean_name': 'FunctionBuilder.update_wrapper_core', 'kind': 'function', 'raises': True,
       'loop_fuel': True, 'region': {'object': 'fb', 'result': 'call_name'}, 'names': ['call_name'],
       'classes': ['PyRtC13.Names κ'],
       'params': {'injected': 'List κ', 'expected_items': 'List (κ × Option ν)', 'inject_to_varkw': 'Bool'},
       'result': 'κ', 'tie_theorem': 'C13.src_update_wrapper_core_eq_model'}
_FB = _FB + [_UW]
for _sp in _FB:
    _sp['gen_file'] = _FB_GEN

# boltons.dictutils.OrderedMultiDict (round 3b, target C; heap mode).  The object IS a dict key -> list of values (`d`,
# reached as `self` / `super()`); `_map : key -> list of cells`; the cells `[PREV, NEXT, KEY, VALUE]` and `root`
# (`[PREV, NEXT, None]`) live in the object store.  The per-key lists of `d` and `_map` are referenced only from their dict
# (and, briefly, from locals): they are VALUE lists mutated through ITEM ALIASES (notes/SRCTIE.md), which is the
# representation of C01/Concrete.lean (`OMD3`: `vals`, `PL.map`).  Not translated here: `__new__/__init__`, the readers and
# iterators, `update*`, `setdefault`, `copy`, `poplast`/`popitem` (they read a KEY back out of a cell).
OMD = {
    'name': 'OrderedMultiDict', 'lean_name': 'OMD', 'tparams': ['κ', 'ν'], 'deceq': ['κ'], 'inhabited': ['ν'],
    'heap': {'field': 'heap', 'key': 'κ', 'val': 'ν'},
    'state': {'heap': 'Heap', 'd': 'Dict κ (List ν)', '_map': 'Dict κ (List Val)', 'root': 'Val'},
    'virtual': ['heap', 'd'], 'dict_base': 'd', 'sentinels': ['_MISSING'],
}
_OMD = _cls_methods(OMD, 'boltons.dictutils', [
    {'py': '_clear_ll', 'name': 'clear_ll', 'params': {}, 'result': 'None',
     'tie_theorem': 'C01.src_clear_ll_eq_model'},
    {'py': '_insert', 'name': 'insert', 'params': {'k': 'κ', 'v': 'ν'}, 'result': 'None',
     'tie_theorem': 'C01.src_insert_eq_model'},
    {'py': '_remove', 'name': 'remove', 'params': {'k': 'κ'}, 'result': 'None',
     'tie_theorem': 'C01.src_remove_eq_model'},
    {'py': '_remove_all', 'name': 'remove_all', 'params': {'k': 'κ'}, 'result': 'None', 'loop_fuel': True,
     'tie_theorem': 'C01.src_remove_all_eq_model'},
    {'py': 'add', 'name': 'add', 'params': {'k': 'κ', 'v': 'ν'}, 'result': 'None',
     'tie_theorem': 'C01.src_add_eq_model'},
    {'py': 'addlist', 'name': 'addlist', 'params': {'k': 'κ', 'v': 'List ν'}, 'result': 'None',
     'tie_theorem': 'C01.src_addlist_eq_model'},
    {'py': '__setitem__', 'name': 'setitem', 'params': {'k': 'κ', 'v': 'ν'}, 'result': 'None', 'loop_fuel': True,
     'tie_theorem': 'C01.src_setitem_eq_model'},
    {'py': '__delitem__', 'name': 'delitem', 'params': {'k': 'κ'}, 'result': 'None', 'loop_fuel': True,
     'tie_theorem': 'C01.src_delitem_eq_model'},
    {'py': 'popall', 'name': 'popall', 'params': {'k': 'κ', 'default': 'Option (List ν)'}, 'result': 'List ν',
     'loop_fuel': True, 'tie_theorem': 'C01.src_popall_eq_model'},
    {'py': 'clear', 'name': 'clear', 'params': {}, 'result': 'None',
     'tie_theorem': 'C01.src_clear_eq_model'},
])
# round 3e (continuation): the methods that read a KEY back out of a cell (`k = self.root[PREV][KEY]`): extension module
# harness/py2lean_c01.py (spec `ext`; `key_locals`: the locals of the static key type that receive a CHECKED UNBOXING,
# `PyRtC01.unboxKey?`), `if self:` of the dict subclass, `try / except KeyError` around a translated method.
OMD['ext'] = 'py2lean_c01'
_OMD = _OMD + _cls_methods(OMD, 'boltons.dictutils', [
    {'py': 'poplast', 'name': 'poplast', 'params': {'k': 'Option κ', 'default': 'Option ν'}, 'result': 'ν',
     'key_locals': ['k'], 'tie_theorem': 'C01.src_poplast_eq_model'},
    {'py': 'pop', 'name': 'pop', 'params': {'k': 'κ', 'default': 'Option ν'}, 'result': 'ν', 'loop_fuel': True,
     'tie_theorem': 'C01.src_pop_eq_model'},
    {'py': 'popitem', 'name': 'popitem', 'params': {}, 'result': 'κ × ν', 'loop_fuel': True, 'key_locals': ['k'],
     'tie_theorem': 'C01.src_popitem_eq_model'},
])
# the readers `self[k]` and `getlist(k[, default])` (K4: the item of `dict.__getitem__(self, k)` bound first)
_OMD = _OMD + _cls_methods(OMD, 'boltons.dictutils', [
    {'py': '__getitem__', 'name': 'getitem', 'params': {'k': 'κ'}, 'result': 'ν',
     'tie_theorem': 'C01.src_getitem_eq_model'},
    {'py': 'getlist', 'name': 'getlist', 'params': {'k': 'κ', 'default': 'Option (List ν)'}, 'result': 'List ν',
     'tie_theorem': 'C01.src_getlist_eq_model'},
])
# the generator `iterkeys(multi=False)`: walks the store with `while curr is not root` (loop fuel), the keys it yields are
# read back out of the cells (K1 / K6), the local `yielded = set()` is the list of the keys added (K5 / K7)
_OMD = _OMD + _cls_methods(OMD, 'boltons.dictutils', [
    {'py': 'iterkeys', 'name': 'iterkeys', 'kind': 'generator', 'params': {'multi': 'Bool'}, 'result': 'κ',
     'loop_fuel': True, 'key_locals': ['k'], 'yield_unbox': True, 'locals': {'yielded': 'List κ'},
     'tie_theorem': 'C01.src_iterkeys_eq_model'},
    {'py': 'iteritems', 'name': 'iteritems', 'kind': 'generator', 'params': {'multi': 'Bool'}, 'result': 'κ × ν',
     'loop_fuel': True, 'key_locals': [], 'yield_unbox': ['key', 'val'], 'tie_theorem': 'C01.src_iteritems_eq_model'},
])
OMD['methods'] = _OMD
for _sp in _OMD:
    _sp['gen_file'] = 'dictutils_omd'

# C03 (lock discipline of LRI / LRU) is anchored in the same methods: the same generated definitions, the ties restated
# under C03 names in lean/BoltonsVerif/C03/SrcTie.lean together with the serializability of the generated machine.
# (Copies of the C02 specs that differ in `tie_theorem` only; `py2lean.generate` emits one definition per `lean_name`.)
_C03 = [dict(_sp, tie_theorem=_sp['tie_theorem'].replace('C02.', 'C03.')) for _sp in _LRI + _LRU]

# boltons.fileutils.AtomicSaver / atomic_rename / replace / set_cloexec (round 3c, EFFECT MODE: harness/py2lean_c05.py,
# notes/SRCTIE.md "Effect mode").  Every `os.*` / `fcntl.fcntl` / file-object call is a field of the generated record
# `Src.fileutils.Sys W Path Fd File Mode Obj` over an abstract world `W`; `Path`, `Fd`, `File`, `Mode` (the mode string
# handed to os.fdopen) and `Obj` (exc_type / exc_val / exc_tb: None or an always-true object) are type parameters: the
# code only passes these values around.  Platform fixed by the spec: posix, `fcntl` importable.  `__init__` is not
# translated (kwargs.pop, os.path.*): the attributes it leaves are the state record.
FILEUTILS_EFFECTS = {
    'tparams': ['Path', 'Fd', 'File', 'Mode', 'Obj'],
    'truthy': ['File', 'Obj'],          # objects whose truth value is always True (file objects, classes)
    'ops': {
        'os.stat': ('os_stat', ['Path'], 'StatRes'),
        'os.path.lexists': ('os_path_lexists', ['Path'], 'Bool'),
        'os.open': ('os_open', ['Path', 'Nat', 'Nat'], 'Fd'),
        'os.fdopen': ('os_fdopen', ['Fd', 'Mode', 'Int'], 'File'),
        'os.chmod': ('os_chmod', ['Path', 'Nat'], 'None'),
        'os.unlink': ('os_unlink', ['Path'], 'None'),
        'os.close': ('os_close', ['Fd'], 'None'),
        'os.fsync': ('os_fsync', ['Fd'], 'None'),
        'os.rename': ('os_rename', ['Path', 'Path'], 'None'),
        'os.link': ('os_link', ['Path', 'Path'], 'None'),
        'fcntl.fcntl': ('fcntl_fcntl', ['Fd', 'Nat', 'Nat'], 'Nat'),
    },
    'methods_of': {'File': {'flush': ('file_flush', [], 'None'), 'close': ('file_close', [], 'None'),
                            'fileno': ('file_fileno', [], 'Fd')}},
    'pure': {'stat.S_IMODE': ('PyRtC05.S_IMODE', ['Nat'], 'Nat')},
    # constants of the platform the spec fixes (Linux); the self-test checks them against the running interpreter
    'consts': {'errno.ENOENT': 2, 'errno.EEXIST': 17, 'fcntl.F_GETFD': 1, 'fcntl.F_SETFD': 2, 'fcntl.FD_CLOEXEC': 1},
}
ATOMIC_SAVER = {
    'name': 'AtomicSaver', 'lean_name': 'AtomicSaver',
    'state': {'dest_path': 'Path', 'part_path': 'Path', 'overwrite': 'Bool', 'file_perms': 'Option Nat',
              'overwrite_part': 'Bool', 'rm_part_on_exc': 'Bool', 'mode': 'Mode', 'buffering': 'Int',
              'open_flags': 'Nat', 'part_file': 'Option File'},
}
_OBJ3 = {'exc_type': 'Option Obj', 'exc_val': 'Option Obj', 'exc_tb': 'Option Obj'}
_C05 = []
for _q, _n, _cls, _params, _res, _thm in [
        ('set_cloexec', 'set_cloexec', None, {'fd': 'Fd'}, 'None', 'C05.src_set_cloexec_eq_model'),
        ('replace', 'replace', None, {'src': 'Path', 'dst': 'Path'}, 'None', 'C05.src_replace_eq_model'),
        ('atomic_rename', 'atomic_rename', None, {'src': 'Path', 'dst': 'Path', 'overwrite': 'Bool'}, 'None',
         'C05.src_atomic_rename_eq_model'),
        ('AtomicSaver._rm_part_on_exc', 'AtomicSaver.rm_part_on_exc', ATOMIC_SAVER, {}, 'None',
         'C05.src_rm_part_on_exc_eq_model'),
        ('AtomicSaver._open_part_file', 'AtomicSaver.open_part_file', ATOMIC_SAVER, {}, 'None',
         'C05.src_open_part_file_eq_model'),
        ('AtomicSaver.setup', 'AtomicSaver.setup', ATOMIC_SAVER, {}, 'None', 'C05.src_setup_eq_model'),
        ('AtomicSaver.__enter__', 'AtomicSaver.enter', ATOMIC_SAVER, {}, 'Option File', 'C05.src_enter_eq_model'),
        ('AtomicSaver.__exit__', 'AtomicSaver.exit', ATOMIC_SAVER, _OBJ3, 'None', 'C05.src_exit_eq_model')]:
    _C05.append({'module': 'boltons.fileutils', 'qualname': _q, 'lean_name': _n, 'cls': _cls, 'params': _params,
                 'result': _res, 'tie_theorem': _thm, 'effect': FILEUTILS_EFFECTS, 'translator': 'py2lean_c05',
                 'py': _q.split('.')[-1], 'method': _cls is not None, 'kind': 'function', 'raises': True})

# boltons.strutils integer-list functions and shell quoting (round 3d, C14; extension module harness/py2lean_c14.py,
# notes/SRCTIE.md section 1h).  A `str` is the list of its code points; string methods / f-strings / `str.format` /
# `collections.deque` / `min` / `max` of a list are rewritten by the module's pre-pass into SPEC-DECLARED STRING
# OPERATIONS (lean/BoltonsVerif/PyRtC14.lean).  Raising mode (ValueError / IndexError as values).
_C14_GEN = 'strutils_c14'
_C14 = [
    {'module': 'boltons.strutils', 'qualname': 'format_int_list', 'lean_name': 'format_int_list',
     'params': {'int_list': 'List Int', 'delim': 'Str', 'range_delim': 'Str', 'delim_space': 'Bool'},
     'kind': 'function', 'result': 'Str', 'raises': True, 'tie_theorem': 'C14.src_format_int_list_eq_model'},
    {'module': 'boltons.strutils', 'qualname': 'parse_int_list', 'lean_name': 'parse_int_list',
     'params': {'range_string': 'Str', 'delim': 'Str', 'range_delim': 'Str'},
     'kind': 'function', 'result': 'List Int', 'raises': True, 'tie_theorem': 'C14.src_parse_int_list_eq_model'},
    {'module': 'boltons.strutils', 'qualname': 'complement_int_list', 'lean_name': 'complement_int_list',
     'params': {'range_string': 'Str', 'range_start': 'Int', 'range_end': 'Option Int', 'delim': 'Str',
                'range_delim': 'Str'},
     'kind': 'function', 'result': 'Str', 'raises': True, 'tie_theorem': 'C14.src_complement_int_list_eq_model'},
    {'module': 'boltons.strutils', 'qualname': 'int_ranges_from_int_list', 'lean_name': 'int_ranges_from_int_list',
     'params': {'range_string': 'Str', 'delim': 'Str', 'range_delim': 'Str'},
     'kind': 'function', 'result': 'List (Int × Int)', 'raises': True,
     'tie_theorem': 'C14.src_int_ranges_from_int_list_eq_model'},
    {'module': 'boltons.strutils', 'qualname': 'args2sh', 'lean_name': 'args2sh',
     'params': {'args': 'List Str', 'sep': 'Str'},
     'kind': 'function', 'result': 'Str', 'raises': True, 'tie_theorem': 'C14.src_args2sh_eq_model'},
]
# `args2cmd` (round 3f): iteration over the characters of a string, `str * int`, nested loops, the flag read after the
# inner loop (rules `iter` / `mul` of py2lean_c14); tied in C14/SrcTie.lean section 12 (notes/SRCTIE.md section 1h).
_C14.append(
    {'module': 'boltons.strutils', 'qualname': 'args2cmd', 'lean_name': 'args2cmd',
     'params': {'args': 'List Str', 'sep': 'Str'},
     'kind': 'function', 'result': 'Str', 'raises': True, 'tie_theorem': 'C14.src_args2cmd_eq_model'})
# `escape_shell_args` (round 3f): `sys.platform` is a spec-declared EXTERNAL INPUT (rule `extern` of py2lean_c14: the
# trailing parameter `_sys_platform`; the self-test patches the real attribute for the call: `py_call`); a falsy style
# (`None` / `''`) is the empty string, as in the model.
_C14.append(
    {'module': 'boltons.strutils', 'qualname': 'escape_shell_args', 'lean_name': 'escape_shell_args',
     'params': {'args': 'List Str', 'sep': 'Str', 'style': 'Str', '_sys_platform': 'Str'},
     'extern_params': {'sys.platform': '_sys_platform'}, 'py_call': True,
     'kind': 'function', 'result': 'Str', 'raises': True, 'tie_theorem': 'C14.src_escape_shell_args_eq_model'})
C14_PENDING = []
for _sp in _C14:
    _sp.update(ext='py2lean_c14', gen_file=_C14_GEN)

# boltons.socketutils.BufferedSocket (round 3d, SOCKET MODE: harness/py2lean_c12.py, notes/SRCTIE.md "Socket mode").
# `self.sock.recv / settimeout / send` and `time.time()` are fields of `PyRtC12.Net W φ` over an abstract world `W`; `φ` is
# the carrier of floats (timeouts, clock readings).  `__init__` is not translated (float(), int(), RLock()): the attributes
# it leaves are the state record.  Parameter types: `Unset T` = the `_UNSET` default or a `T`.
BUFFERED_SOCKET = {
    'name': 'BufferedSocket', 'lean_name': 'BufferedSocket',
    'state': {'rbuf': 'Bytes', 'sbuf': 'List Bytes', 'maxsize': 'Int', 'timeout': 'Option Time', '_recvsize': 'Int'},
    'sock': 'sock', 'locks': ['_recv_lock', '_send_lock'], 'sentinel': '_UNSET', 'consts': ['_RECV_LARGE_MAXSIZE'],
    'ops': {'sock.recv': ('recv', ['Int'], 'Bytes'), 'sock.settimeout': ('settimeout', ['Option Time'], 'None'),
            'sock.send': ('send', ['Bytes'], 'Int'), 'time.time': ('time', [], 'Time')},
}
_C12 = []
_C12_TIED = 9          # how many of the methods below have their tie theorem in C12/SrcTie.lean
for _py, _params, _res, _thm in [
        ('recv_size', {'size': 'Int', 'timeout': 'Unset (Option Time)'}, 'Bytes', 'C12.src_recv_size_eq_model'),
        ('recv_until', {'delimiter': 'Bytes', 'timeout': 'Unset (Option Time)', 'maxsize': 'Unset (Option Int)',
                        'with_delimiter': 'Bool'}, 'Bytes', 'C12.src_recv_until_eq_model'),
        ('peek', {'size': 'Int', 'timeout': 'Unset (Option Time)'}, 'Bytes', 'C12.src_peek_eq_model'),
        ('recv_close', {'timeout': 'Unset (Option Time)', 'maxsize': 'Unset (Option Int)'}, 'Bytes',
         'C12.src_recv_close_eq_model'),
        ('recv', {'size': 'Int', 'flags': 'Int', 'timeout': 'Unset (Option Time)'}, 'Bytes', 'C12.src_recv_eq_model'),
        # round 3f, send side: `sbuf` is a mutable list attribute (`sbuf = self.sbuf` is its one alias; `append`, `[:] =`, `[0]`)
        ('buffer', {'data': 'Bytes'}, 'None', 'C12.src_buffer_eq_model'),
        ('send', {'data': 'Bytes', 'flags': 'Int', 'timeout': 'Unset (Option Time)'}, 'Int', 'C12.src_send_eq_model'),
        ('sendall', {'data': 'Bytes', 'flags': 'Int', 'timeout': 'Unset (Option Time)'}, 'Int', 'C12.src_sendall_eq_model'),
        ('flush', {}, 'None', 'C12.src_flush_eq_model'),
        ][:_C12_TIED]:
    _C12.append({'module': 'boltons.socketutils', 'qualname': 'BufferedSocket.' + _py, 'lean_name': 'BufferedSocket.' + _py,
                 'cls': BUFFERED_SOCKET, 'params': _params, 'result': _res, 'tie_theorem': _thm,
                 'translator': 'py2lean_c12', 'py': _py, 'method': True, 'kind': 'function', 'raises': True})

# boltons.iterutils.backoff_iter / backoff (round 3d, C15): GENERATORS OVER AN ABSTRACT NUMBER CARRIER, translated by
# harness/py2lean_c15.py (notes/SRCTIE.md section 2d).  Type `A` = a Python float = a value of the type parameter `α`
# with the operations C15/Model.lean is polymorphic over (order, `==`, `*`, `-`, unary minus, 0, 1; `float()` of a
# carrier value is the identity); `Count` = `None` | str | int (`PyRtC15.CountV`); `random.random()` = the scripted
# draw list `rnd : Nat -> α`.  The generated definitions go to Generated/Src_iterutils_backoff.lean (namespace
# Src.iterutils; C09's chunk_ranges stays in Src_iterutils.lean).  Default parameter values are not translated.
_C15 = [
    {'module': 'boltons.iterutils', 'qualname': 'backoff_iter', 'lean_name': 'backoff_iter', 'kind': 'generator',
     'params': {'start': 'A', 'stop': 'A', 'count': 'Count', 'factor': 'A', 'jitter': 'A'}, 'result': 'A',
     'gen_file': 'iterutils_backoff', 'translator': 'py2lean_c15', 'raises': True,
     'tie_theorem': 'C15.src_backoff_iter_eq_model'},
    {'module': 'boltons.iterutils', 'qualname': 'backoff', 'lean_name': 'backoff', 'kind': 'function',
     'params': {'start': 'A', 'stop': 'A', 'count': 'Count', 'factor': 'A', 'jitter': 'A'}, 'result': 'ListA',
     'gen_file': 'iterutils_backoff', 'translator': 'py2lean_c15', 'raises': True,
     'tie_theorem': 'C15.src_backoff_eq_model'},
]

# SpooledStringIO(SpooledIOBase): `_buffer` is a `codecs.EncodedFile(stream, data_encoding='utf-8')`, the spec-declared
# abstract codec file `PyRtC18.CFile` = the hand model's stream + transliterated `codecs.StreamReader`.  The module constant
# READ_CHUNK_SIZE is read through the state field `chunk` (`module_params`; the tie's initial state holds the regenerated
# constant).  `seek` is translated twice: `seek0` FIXES `mode = 0` (what `len` and `rollover` call; it does not call `len`),
# then `len`, then the full `seek`.
SPOOLED_STRING = {
    'name': 'SpooledStringIO', 'lean_name': 'SpooledStringIO', 'mro': ['SpooledStringIO', 'SpooledIOBase'],
    'unit': 'Char', 'seq_class': 'str',
    'buffer_property': {'name': 'buffer', 'field': '_buffer', 'new': "EncodedFile(BytesIO(), data_encoding='utf-8')"},
    'state': {'_buffer': 'CFile', '_tell': 'Int', '_max_size': 'Int', '_dir': 'Opaque', 'chunk': 'Int'},
    'module_params': {'READ_CHUNK_SIZE': 'chunk'},
}
_SS = _c18_methods(SPOOLED_STRING, [
    {'py': 'closed', 'name': 'closed', 'params': {}, 'result': 'Bool', 'tie_theorem': 'C18.src_ss_closed_eq_model'},
    {'py': '_checkClosed', 'name': 'checkClosed', 'params': {'msg': 'Option Opaque'}, 'result': 'None',
     'tie_theorem': 'C18.src_ss_checkClosed_eq_model'},
    {'py': '_rolled', 'name': 'rolled', 'params': {}, 'result': 'Bool', 'tie_theorem': 'C18.src_ss_rolled_eq_model'},
    {'py': 'tell', 'name': 'tell', 'params': {}, 'result': 'Int', 'tie_theorem': 'C18.src_ss_tell_eq_model'},
    {'py': 'read', 'name': 'read', 'params': {'n': 'Int'}, 'result': 'Str', 'tie_theorem': 'C18.src_ss_read_eq_model'},
    {'py': '_traverse_codepoints', 'name': 'traverse', 'params': {'current_position': 'Int', 'n': 'Int'},
     'result': 'Int', 'tie_theorem': 'C18.src_ss_traverse_eq_model'},
    {'py': 'seek', 'name': 'seek0', 'params': {'pos': 'Int'}, 'fixed': {'mode': 0}, 'result': 'Int',
     'tie_theorem': 'C18.src_ss_seek0_eq_model'},
    {'py': 'len', 'name': 'len', 'params': {}, 'result': 'Int', 'tie_theorem': 'C18.src_ss_len_eq_model'},
    {'py': 'seek', 'name': 'seek', 'params': {'pos': 'Int', 'mode': 'Int'}, 'result': 'Int',
     'tie_theorem': 'C18.src_ss_seek_end_eq_model'},
    {'py': 'rollover', 'name': 'rollover', 'params': {}, 'result': 'None',
     'tie_theorem': 'C18.src_ss_rollover_eq_model'},
    {'py': 'write', 'name': 'write', 'params': {'s': 'Str'}, 'result': 'None',
     'tie_theorem': 'C18.src_ss_write_eq_model'},
    {'py': 'readline', 'name': 'readline', 'params': {'length': 'Option Int'}, 'result': 'Str',
     'tie_theorem': 'C18.src_ss_readline_eq_model'},
])

SPECS = {
    'C14': _C14,
    'C12': _C12,
    'C15': _C15,
    'C18': _MFR + _SB + _SS,
    'C13': _FB,
    'C01': _OMD,
    'C05': _C05,
    'C02': _LRI + _LRU,
    'C03': _C03,
    'C20': _TC,
    'C17': _OTO + _M2M,
    'C09': [
        {
            'module': 'boltons.iterutils', 'qualname': 'chunk_ranges', 'lean_name': 'chunk_ranges',
            'params': {'input_size': 'Int', 'chunk_size': 'Int', 'input_offset': 'Int',
                       'overlap_size': 'Int', 'align': 'Bool'},
            'kind': 'generator', 'result': 'Int × Int',
            'guards': ['_validate_positive_int'],
            'tie_theorem': 'C09.src_chunk_ranges_eq_model',
        },
    ],
    'C11': [
        {
            'module': 'boltons.setutils', 'qualname': 'IndexedSet._get_real_index',
            'lean_name': 'get_real_index', 'method': True,
            'params': {'index': 'Int'}, 'self_len': True,
            'self_attrs': {'dead_indices': 'List (Int × Int)'},
            'kind': 'function', 'result': 'Int',
            'tie_theorem': 'C11.src_get_real_index_eq_model',
        },
        {
            'module': 'boltons.setutils', 'qualname': 'IndexedSet._get_apparent_index',
            'lean_name': 'get_apparent_index', 'method': True,
            'params': {'index': 'Int'}, 'self_len': True,
            'self_attrs': {'dead_indices': 'List (Int × Int)'},
            'kind': 'function', 'result': 'Int',
            'tie_theorem': 'C11.src_get_apparent_index_eq_model',
        },
    ],
    'C10': _BPQ + [
        {
            'module': 'boltons.listutils', 'qualname': 'BarrelList._translate_index',
            'lean_name': 'translate_index', 'method': True,
            'params': {'index': 'Int'}, 'self_len': True,
            'self_attrs': {'lists': 'List (List α)'}, 'tparams': ['α'],
            'kind': 'function', 'result': 'Option Int × Option Int',
            'tie_theorem': 'C10.src_translate_index_eq_model',
        },
    ],
    'C07': [
        {
            'module': 'boltons.urlutils', 'qualname': 'resolve_path_parts', 'lean_name': 'resolve_path_parts',
            'params': {'path_parts': 'List Str'},
            'kind': 'function', 'result': 'List Str',
            'tie_theorem': 'C07.src_resolve_path_parts_eq_model',
        },
    ],
}


# --- round 3d: C19, the line readers (harness/py2lean_c19.py: spec keys `translator` + `ext`).  `c19.regex`: the compiled
# regex whose `finditer(<text>)` becomes the extra parameter of that name (list of group spans); `c19.text`: the
# parameters that are texts; `poly_text`: a str is a list over a type variable (the code only slices / measures it).
_C19 = [
    {'module': 'boltons.strutils', 'qualname': 'iter_splitlines', 'lean_name': 'iter_splitlines',
     'params': {'text': 'List α', 're_spans': 'List (Int × Int)'}, 'tparams': ['α'],
     'kind': 'generator', 'result': 'List α', 'tie_theorem': 'C19.src_iter_splitlines_eq_model',
     'translator': 'py2lean_c19', 'ext': 'py2lean_c19', 'gen_file': 'strutils_lines',
     'c19': {'text': ['text'], 'regex': {'_line_ending_re': 're_spans'}, 'group': 0, 'poly_text': True}},
    # `key` (a caller-supplied predicate) is the instance [PyRtC19.LineKey α]; `re_spans` is iter_splitlines' parameter
    {'module': 'boltons.strutils', 'qualname': 'indent', 'lean_name': 'indent',
     'params': {'text': 'List α', 'margin': 'List α', 'newline': 'List α', 're_spans': 'List (Int × Int)'},
     'tparams': ['α'], 'classes': ['PyRtC19.LineKey α'],
     'kind': 'function', 'result': 'List α', 'tie_theorem': 'C19.src_indent_eq_model',
     'translator': 'py2lean_c19', 'ext': 'py2lean_c19', 'gen_file': 'strutils_lines',
     'c19': {'text': ['text'], 'text_params': ['margin', 'newline'], 'poly_text': True, 'pred': {'key': 'line_key'},
             'join': True}},
    # binary mode: `file_obj` is a binary file object WITHOUT `.encoding` / `.detach` (io.BytesIO) = (content, position);
    # `encoding` is None; a byte is an item of β with [PyRtC19.Byte β]
    {'module': 'boltons.jsonutils', 'qualname': 'reverse_iter_lines', 'lean_name': 'reverse_iter_lines',
     'params': {'file_data': 'List β', 'file_pos': 'Int', 'blocksize': 'Int', 'preseek': 'Bool'},
     'tparams': ['β'], 'deceq': ['β'], 'classes': ['PyRtC19.Byte β'],
     'kind': 'generator', 'result': 'List β', 'raises': True, 'loop_fuel': True,
     'tie_theorem': 'C19.src_reverse_iter_lines_eq_model',
     'translator': 'py2lean_c19', 'ext': 'py2lean_c19', 'gen_file': 'jsonutils_lines',
     'c19': {'file': {'param': 'file_obj', 'data': 'file_data', 'pos': 'file_pos'}, 'none_params': ['encoding']}},
    # round 3f, text mode: the SAME function at its other declared kind: `encoding` is the non-empty str 'utf-8' (so
    # `encoding or file_obj.encoding` is `encoding`), `file_obj` as above; `line.decode(encoding)` = PyRtC19.decodeUtf8?
    {'module': 'boltons.jsonutils', 'qualname': 'reverse_iter_lines', 'lean_name': 'reverse_iter_lines_text',
     'params': {'file_data': 'List β', 'file_pos': 'Int', 'blocksize': 'Int', 'preseek': 'Bool'},
     'tparams': ['β'], 'deceq': ['β'], 'classes': ['PyRtC19.Byte β'],
     'kind': 'generator', 'result': 'Str', 'raises': True, 'loop_fuel': True,
     'tie_theorem': 'C19.src_reverse_iter_lines_text_eq_model',
     'translator': 'py2lean_c19', 'ext': 'py2lean_c19', 'gen_file': 'jsonutils_lines_text',
     'c19': {'file': {'param': 'file_obj', 'data': 'file_data', 'pos': 'file_pos'}, 'truthy_params': ['encoding'],
             'codec': 'utf-8'}},
    # round 3f: JSONLIterator.next on a BINARY file: the stored line iterator `self._line_iter` is the list of the lines it still
    # yields (bytes), `self.ignore_errors` a bool; `json.loads` is the instance [PyRtC19.JsonLoads β γ] (a pure function of the
    # line: what the hand model's `parse` assumes); the result is (the object, the lines left)
    {'module': 'boltons.jsonutils', 'qualname': 'JSONLIterator.next', 'lean_name': 'JSONLIterator_next',
     'params': {'line_iter': 'List (List β)', 'ignore_errors': 'Bool'},
     'tparams': ['β', 'γ'], 'deceq': ['β'], 'inhabited': ['γ'], 'classes': ['PyRtC19.Byte β', 'PyRtC19.JsonLoads β γ'],
     'kind': 'function', 'result': 'γ × List (List β)', 'raises': True, 'loop_fuel': True,
     'tie_theorem': 'C19.src_jsonl_next_eq_model',
     'translator': 'py2lean_c19', 'ext': 'py2lean_c19', 'gen_file': 'jsonutils_jsonl',
     'c19': {'jsonl': {'iter_attr': '_line_iter', 'iter_param': 'line_iter', 'flags': {'ignore_errors': 'ignore_errors'},
                       'loads': 'json.loads', 'line_kind': 'bytes'}}},
    # the same method on a TEXT-mode file: the lines are str (an item of β is a code point, [PyRtC19.Byte β] gives its value)
    {'module': 'boltons.jsonutils', 'qualname': 'JSONLIterator.next', 'lean_name': 'JSONLIterator_next_text',
     'params': {'line_iter': 'List (List β)', 'ignore_errors': 'Bool'},
     'tparams': ['β', 'γ'], 'deceq': ['β'], 'inhabited': ['γ'], 'classes': ['PyRtC19.Byte β', 'PyRtC19.JsonLoads β γ'],
     'kind': 'function', 'result': 'γ × List (List β)', 'raises': True, 'loop_fuel': True,
     'tie_theorem': 'C19.src_jsonl_next_text_eq_model',
     'translator': 'py2lean_c19', 'ext': 'py2lean_c19', 'gen_file': 'jsonutils_jsonl_text',
     'c19': {'jsonl': {'iter_attr': '_line_iter', 'iter_param': 'line_iter', 'flags': {'ignore_errors': 'ignore_errors'},
                       'loads': 'json.loads', 'line_kind': 'str'}}},
]
SPECS['C19'] = _C19
# boltons.setutils.IndexedSet (round 3d, C11): the tombstone / dead-interval bookkeeping, translated by
# harness/py2lean_c11.py (spec key `translator`; heap mode over PyHeap.lean, runtime lean/BoltonsVerif/PyRtC11.lean).
# The `[start, stop]` intervals of `dead_indices` are CELLS of the object store (two-slot lists reached through locals:
# `dint = dints[int_idx - 1]; dint[0] = start`); `item_list` / `dead_indices` are lists of dynamic values (`key k` or the
# `_MISSING` sentinel; `ref a`) that the class mutates in place through local aliases and never rebinds;
# `item_index_map` maps items to ints.  Types: Int | Bool | None | Key (κ) | Val | Option Int | List Val | Dict Key Int.
# `ops`: spec-declared operations {name: (module it must be imported from, runtime definition, arity)};
# `consts`: module-level int constants read from the AST (the divisor of the float test of `_cull`).
INDEXED_SET = {
    'name': 'IndexedSet', 'lean_name': 'IndexedSet', 'tparams': ['κ'],
    'state': {'heap': 'Heap', 'item_index_map': 'Dict Key Int', 'item_list': 'List Val', 'dead_indices': 'List Val',
              '_compactions': 'Int', '_c_max_size': 'Int'},
    'virtual': ['heap'], 'sentinels': ['_MISSING'], 'consts': ['_COMPACTION_FACTOR'],
    'ops': {'bisect_left': ('bisect', 'bisectLeft?', 2)},
}
_ISET = []
for _m in [
    {'py': '_add_dead', 'name': 'add_dead', 'params': {'start': 'Int', 'stop': 'Option Int'}, 'result': 'None',
     'tie_theorem': 'C11.src_add_dead_eq_model'},
    {'py': '_dead_index_count', 'name': 'dead_index_count', 'params': {}, 'result': 'Int', 'property': True,
     'tie_theorem': 'C11.src_dead_index_count_eq_model'},
    {'py': '__len__', 'name': 'len', 'params': {}, 'result': 'Int', 'tie_theorem': 'C11.src_len_eq_model'},
    {'py': 'add', 'name': 'add', 'params': {'item': 'Key'}, 'result': 'None', 'tie_theorem': 'C11.src_add_eq_model'},
    {'py': '_compact', 'name': 'compact', 'params': {}, 'result': 'None', 'tie_theorem': 'C11.src_compact_eq_model'},
    {'py': '_cull', 'name': 'cull', 'params': {}, 'result': 'None', 'tie_theorem': 'C11.src_cull_eq_model'},
    {'py': 'remove', 'name': 'remove', 'params': {'item': 'Key'}, 'result': 'None',
     'tie_theorem': 'C11.src_remove_eq_model'},
    {'py': 'discard', 'name': 'discard', 'params': {'item': 'Key'}, 'result': 'None',
     'tie_theorem': 'C11.src_discard_eq_model'},
    # round 3f: the index translation over the STORE (`for d_start, d_stop in self.dead_indices` reads the cells; the
    # base-translator tie of the same method over abstract pairs stays), then `pop`
    {'py': '_get_real_index', 'name': 'get_real_index', 'params': {'index': 'Int'}, 'result': 'Int',
     'tie_theorem': 'C11.src_iset_get_real_index_eq_model'},
    {'py': 'pop', 'name': 'pop', 'params': {'index': 'Option Int'}, 'result': 'Val',
     'tie_theorem': 'C11.src_pop_eq_model'},
    {'py': '_get_apparent_index', 'name': 'get_apparent_index', 'params': {'index': 'Int'}, 'result': 'Int',
     'tie_theorem': 'C11.src_iset_get_apparent_index_eq_model'},
    {'py': 'index', 'name': 'index', 'params': {'val': 'Key'}, 'result': 'Int', 'tie_theorem': 'C11.src_index_eq_model'},
    # an INT index only (rule K1: the slice kind is outside the tie)
    {'py': '__getitem__', 'name': 'getitem', 'params': {'index': 'Int'}, 'result': 'Val',
     'tie_theorem': 'C11.src_getitem_eq_model'},
]:
    _sp = dict(_m, module='boltons.setutils', cls=INDEXED_SET, method=True, translator='py2lean_c11',
               gen_file='setutils_iset', qualname='IndexedSet.' + _m['py'], lean_name='IndexedSet.' + _m['name'],
               kind='function', raises=True)
    del _sp['name']
    _ISET.append(_sp)
# only the methods whose tie theorem exists are registered (callees come before their callers)
_ISET_TIED = ('_add_dead', '_dead_index_count', '__len__', 'add', '_compact', '_cull', 'remove', 'discard', '_get_real_index', 'pop', '_get_apparent_index', 'index', '__getitem__')
_ISET = [_sp for _sp in _ISET if _sp['py'] in _ISET_TIED]
INDEXED_SET['methods'] = _ISET
SPECS['C11'] = SPECS['C11'] + _ISET

# boltons.iterutils remap callbacks and get_path (round 3e, C08): OBJECT-GRAPH MODE, translated by harness/py2lean_c08.py
# (notes/SRCTIE.md section "Object-graph mode").  Objects are references `V` into an abstract store `σ`, keys / path
# segments are `K`; every duck-typed operation on an object is a field of the parameter record `PyRtC08.Ops σ V K`
# (SPEC-DECLARED OPERATIONS); exceptions are values (class only).  `OptV` = the `_UNSET` sentinel or a value.
# `static_false`: isinstance tests decided by the declared parameter type (a dotted-string path is outside the tie).
_C08 = [
    {'qualname': 'default_visit', 'params': {'path': 'Path', 'key': 'K', 'value': 'V'}, 'result': 'KV',
     'tie_theorem': 'C08.src_default_visit_eq_model'},
    {'qualname': 'default_enter', 'params': {'path': 'Path', 'key': 'K', 'value': 'V'}, 'result': 'EnterRes',
     'tie_theorem': 'C08.src_default_enter_eq_model'},
    {'qualname': 'default_exit', 'params': {'path': 'Path', 'key': 'K', 'old_parent': 'V', 'new_parent': 'V',
                                             'new_items': 'Pairs'}, 'result': 'V',
     'tie_theorem': 'C08.src_default_exit_eq_model'},
    {'qualname': 'get_path', 'params': {'root': 'V', 'path': 'Path', 'default': 'OptV'}, 'result': 'V',
     'sentinel': '_UNSET', 'static_false': [('path', 'str')], 'tie_theorem': 'C08.src_get_path_eq_model'},
]
for _sp in _C08:
    _sp.update(module='boltons.iterutils', lean_name=_sp['qualname'], kind='function', raises=True,
               translator='py2lean_c08', gen_file='iterutils_remap')
# the main loop of remap (LOOP MODE, notes/SRCTIE.md 7.6): from the initialisation of `stack` to `return value`; the
# callbacks are function parameters, `visit is _orig_default_visit` is the Bool `visit_is_default`, `reraise_visit` a Bool,
# the `None` key of the root entry is `none_key`; statements printing under a trace flag are not modelled.
_C08_LOOP = {
    'qualname': 'remap', 'lean_name': 'remap_loop', 'kind': 'loop', 'result': 'V', 'raises': True,
    'module': 'boltons.iterutils', 'translator': 'py2lean_c08', 'gen_file': 'iterutils_remap',
    'params': {'root': 'V', 'visit': 'VisitFn', 'enter': 'EnterFn', 'exit': 'ExitFn', 'visit_is_default': 'Bool',
               'reraise_visit': 'Bool', 'none_key': 'K'},
    'loop': {'signature': ['root', 'visit', 'enter', 'exit'], 'stack': 'stack', 'exit_marker': '_REMAP_EXIT',
             'none_key': 'none_key', 'result_var': 'value',
             'locals': {'path': 'Path', 'registry': 'Registry', 'stack': 'Stack', 'new_items_stack': 'NIS', 'entered': 'Vals'},
             'callbacks': {'enter': ('enter', ['Path', 'K', 'V'], 'EnterRes'),
                           'exit': ('exit_', ['Path', 'K', 'V', 'V', 'Pairs'], 'V'),
                           'visit': ('visit', ['Path', 'K', 'V'], 'VisitRes')},
             'identity_flags': [('visit', '_orig_default_visit', 'visit_is_default')],
             'trace_flags': ['trace_enter', 'trace_exit', 'trace_visit']},
    'tie_theorem': 'C08.src_remap_loop_simulates_hstep'}
_C08.append(_C08_LOOP)
SPECS['C08'] = _C08
# --- round 3e: C16, the text builders of boltons.tbutils (harness/py2lean_c16.py: spec key `translator`; notes/SRCTIE.md
# section "C16"; runtime lean/BoltonsVerif/PyRtC16.lean).  Types: Str | Int | Nat | Bool | List T | Option T | T × U |
# FrameD (a frame dict of a ParsedException: keys filepath / lineno / funcname present with str values, `source_line`
# read with .get) | Callpoint (object: module_path, lineno (int >= 0), func_name, line) | DLine (a _DeferredLine).
# `self_attrs`: attributes of `self` that become parameters; `self_obj`: `self` is an object of that declared type;
# `locals`: declared types of locals that hold None at first.  Callees come before their callers.
_C16 = [
    {'qualname': 'ParsedException.to_string', 'lean_name': 'ParsedException.to_string', 'method': True,
     'self_attrs': {'frames': 'List FrameD', 'exc_type': 'Str', 'exc_msg': 'Str'}, 'params': {}, 'result': 'Str',
     'tie_theorem': 'C16.src_to_string_eq_model'},
    {'qualname': '_repeated_line_note', 'lean_name': 'repeated_line_note', 'params': {'count': 'Int'},
     'result': 'Str', 'tie_theorem': 'C16.src_repeated_line_note_eq_model'},
    {'qualname': 'Callpoint.tb_frame_str', 'lean_name': 'Callpoint.tb_frame_str', 'method': True,
     'self_obj': 'Callpoint', 'params': {}, 'result': 'Str', 'tie_theorem': 'C16.src_tb_frame_str_eq_model'},
    {'qualname': 'TracebackInfo.get_formatted', 'lean_name': 'TracebackInfo.get_formatted', 'method': True,
     'self_attrs': {'frames': 'List Callpoint'}, 'params': {}, 'result': 'Str',
     'locals': {'last_site': 'Option (Str × Nat × Str)'},
     'tie_theorem': 'C16.src_get_formatted_eq_model'},
]
for _sp in _C16:
    _sp.update(module='boltons.tbutils', kind='function', translator='py2lean_c16', gen_file='tbutils_c16')
SPECS['C16'] = _C16
# C16, second group: ExceptionInfo.  `tb_info.frames`: the attribute path `self.tb_info.frames` (a parameter
# `self_tb_info_frames`); `self_classes`: the declared class of the sub-object, whose translated methods may be called;
# `region`: the statements of from_exc_info that compute the display name (first assignment of `type_str` up to the
# assignment of `val_str`), over `exc_type: ExcType` (`__qualname__: str`, `__module__`: a str or something else).
_C16B = [
    {'qualname': 'ExceptionInfo.get_formatted_exception_only', 'lean_name': 'ExceptionInfo.get_formatted_exception_only',
     'method': True, 'self_attrs': {'exc_type': 'Str', 'exc_msg': 'Str'}, 'params': {}, 'result': 'Str',
     'tie_theorem': 'C16.src_ei_exc_only_eq_model'},
    {'qualname': 'ExceptionInfo.get_formatted', 'lean_name': 'ExceptionInfo.get_formatted', 'method': True,
     'self_attrs': {'exc_type': 'Str', 'exc_msg': 'Str', 'tb_info.frames': 'List Callpoint'},
     'self_classes': {'tb_info': 'TracebackInfo'}, 'params': {}, 'result': 'Str',
     'tie_theorem': 'C16.src_ei_get_formatted_eq_model'},
    {'qualname': 'ExceptionInfo.from_exc_info', 'lean_name': 'ExceptionInfo.type_str',
     'region': {'start': 'type_str', 'stop': 'val_str', 'result': 'type_str'},
     'locals': {'type_mod': 'Option Str'}, 'params': {'exc_type': 'ExcType'}, 'result': 'Str',
     'tie_theorem': 'C16.src_type_str_eq_model'},
]
for _sp in _C16B:
    _sp.update(module='boltons.tbutils', kind='function', translator='py2lean_c16', gen_file='tbutils_c16')
_C16.extend(_C16B)
# `_some_str(value)`: `value` is an arbitrary object (`StrObj`: its `__str__` returns a str or raises - `none`, the
# model's `Option Str` argument of `C16.someStr`).
_C16C = [{'qualname': '_some_str', 'lean_name': 'some_str', 'params': {'value': 'StrObj'}, 'result': 'Str',
          'tie_theorem': 'C16.src_some_str_eq_model', 'module': 'boltons.tbutils', 'kind': 'function',
          'translator': 'py2lean_c16', 'gen_file': 'tbutils_c16'}]
_C16.extend(_C16C)
# the second copy of the display-name computation: format_exception_only (`stype = ...` up to `if not issubclass(...)`);
# `false_before`: the guard `if etype is None:` in front of the region is false for an `etype : ExcType`.
_C16D = [{'qualname': 'format_exception_only', 'lean_name': 'format_exception_only_type_str',
          'region': {'start': 'stype', 'stop_test': 'issubclass', 'result': 'stype', 'false_before': ['etype is None']},
          'locals': {'smod': 'Option Str'}, 'params': {'etype': 'ExcType'}, 'result': 'Str',
          'tie_theorem': 'C16.src_feo_type_str_eq_model', 'module': 'boltons.tbutils', 'kind': 'function',
          'translator': 'py2lean_c16', 'gen_file': 'tbutils_c16'}]
_C16.extend(_C16D)
# --- round 3e: C06, the quoting functions of boltons.urlutils (harness/py2lean_c06.py: spec key `translator`;
# notes/SRCTIE.md section "Round 3e: C06").  A str is the list of its code points, a bytes the list of its bytes (`List Nat`:
# the conventions of C06/Model.lean).  `c06.maps` / `c06.sets` / `c06.hexmaps`: module-level lookup tables -> their
# regenerated Lean tables in Generated/C06_UrlTables.lean (written by the C06 regen hook from the module under test);
# `c06.covers`: map -> the sets whose members are all keys of it (checked on the module under test on every run; kernel-
# checked on the regenerated tables by C06.src_delims_in_maps).  `unicodedata.normalize('NFC', .)` is the parameter `nfc`.
_C06_MAPS = {'_PATH_PART_QUOTE_MAP': 'pathMap', '_QUERY_PART_QUOTE_MAP': 'queryMap',
             '_FRAGMENT_QUOTE_MAP': 'fragmentMap', '_USERINFO_PART_QUOTE_MAP': 'userinfoMap'}
_C06_SETS = {'_PATH_DELIMS': 'pathDelims', '_QUERY_DELIMS': 'queryDelims', '_FRAGMENT_DELIMS': 'fragmentDelims',
             '_USERINFO_DELIMS': 'userinfoDelims'}
_C06_CFG = {'maps': _C06_MAPS, 'sets': _C06_SETS, 'hexmaps': {'_HEX_CHAR_MAP': 'hexMap'},
            'regex_split': {'_ASCII_RE': ('([\x00-\x7f]+)', 'asciiSplit')},
            'covers': {m: sorted(_C06_SETS) for m in _C06_MAPS}}
_C06 = [
    {'module': 'boltons.urlutils', 'qualname': 'quote_%s_part' % _c, 'lean_name': 'quote_%s_part' % _c,
     'params': {'text': 'Str', 'full_quote': 'Bool'}, 'kind': 'function', 'result': 'Str',
     'tie_theorem': 'C06.src_quote_%s_part_eq_model' % _c, 'translator': 'py2lean_c06', 'gen_file': 'urlutils_quote',
     'c06': _C06_CFG}
    for _c in ('path', 'query', 'fragment', 'userinfo')
]
# `unquote_to_bytes(string)` for a str argument (the only kind `unquote` passes); the result is a bytes
_C06.append({'module': 'boltons.urlutils', 'qualname': 'unquote_to_bytes', 'lean_name': 'unquote_to_bytes',
             'params': {'string': 'Str'}, 'kind': 'function', 'result': 'Bytes',
             'tie_theorem': 'C06.src_unquote_to_bytes_eq_model', 'translator': 'py2lean_c06',
             'gen_file': 'urlutils_quote', 'c06': _C06_CFG})
# `unquote(string)` called with the defaults of `encoding` / `errors` (`consts`: parameters fixed to their default, which the
# translator checks in the signature); `_ASCII_RE.split` is the declared operation `PyRtC06.asciiSplit` (`regex_split`: the
# regex must be compiled from exactly that pattern); `.decode('utf-8', 'replace')` is `PyRtC06.decodeUtf8Replace`.
_C06.append({'module': 'boltons.urlutils', 'qualname': 'unquote', 'lean_name': 'unquote',
             'params': {'string': 'Str'}, 'consts': {'encoding': 'utf-8', 'errors': 'replace'}, 'kind': 'function',
             'result': 'Str', 'tie_theorem': 'C06.src_unquote_eq_model', 'translator': 'py2lean_c06',
             'gen_file': 'urlutils_quote', 'c06': _C06_CFG})
SPECS['C06'] = _C06


# --- round 3f: C09, the list helpers of boltons/iterutils.py (harness/py2lean_c09.py, notes/SRCTIE.md section 8).
# Lists of an ABSTRACT item type `α` (keys `κ`, values `β`); `kinds` = the declared kind of a parameter, by which the
# front-end decides the dispatch tests of the function head (`callable(key)`, `key is None`, `isinstance(src, str)` ...);
# a parameter of kind 'none' is the constant None and is not a Lean parameter.  `locals` = declared types of the locals
# (`Set κ` / `Iter α` / `Dict κ | List β` are lists at run time, `Fn α → κ` a function, `KwFill α` a `**kw` holding at
# most the key `kw_key`).  `ops` = spec-declared operations passed as leading parameters.  chunk_ranges stays in
# Src_iterutils.lean (base translator), byte-identical.
_C09_COMMON = {'module': 'boltons.iterutils', 'gen_file': 'iterutils_c09', 'translator': 'py2lean_c09', 'raises': True}
_C09 = [
    dict(_C09_COMMON, qualname='_validate_positive_int', lean_name='validate_positive_int', kind='function',
         params={'value': 'Int', 'name': 'Msg', 'strictly_positive': 'Bool'}, result='Int',
         defaults={'strictly_positive': 'true'}, tie_theorem='C09.src_validate_positive_int_eq_model'),
    dict(_C09_COMMON, qualname='chunked_iter', lean_name='chunked_iter', kind='generator',
         tparams=['α'], classes=['PyRtC09.PyNone α'],
         params={'src': 'List α', 'size': 'Int', 'kw': 'KwFill α'}, kinds={'src': 'list'}, kw_key='fill',
         locals={'do_fill': 'Bool', 'fill_val': 'α', 'postprocess': 'Fn List α → List α', 'src_iter': 'Iter α',
                 'cur_chunk': 'List α', 'lc': 'Int'},
         helpers={'_validate_positive_int': 'validate_positive_int'}, result='List α',
         tie_theorem='C09.src_chunked_iter_eq_model'),
]
_C09 += [
    dict(_C09_COMMON, qualname='unique_iter', lean_name='unique_iter', kind='generator',
         tparams=['α', 'κ'], classes=['DecidableEq κ'],
         params={'src': 'List α', 'key': 'Fn α → κ'}, kinds={'src': 'list', 'key': 'callable'},
         locals={'key_func': 'Fn α → κ', 'seen': 'Set κ', 'k': 'κ'}, result='α',
         tie_theorem='C09.src_unique_iter_eq_model'),
    dict(_C09_COMMON, qualname='unique_iter', lean_name='unique_iter_nokey', kind='generator',
         tparams=['α'], classes=['DecidableEq α'],
         params={'src': 'List α', 'key': 'Msg'}, kinds={'src': 'list', 'key': 'none'},
         locals={'key_func': 'Fn α → α', 'seen': 'Set α', 'k': 'α'}, result='α',
         tie_theorem='C09.src_unique_iter_nokey_eq_model'),
    dict(_C09_COMMON, qualname='bucketize', lean_name='bucketize', kind='function',
         tparams=['α', 'κ', 'β'], classes=['DecidableEq κ'],
         params={'src': 'List α', 'key': 'Fn α → κ', 'value_transform': 'Fn α → β', 'key_filter': 'Fn κ → Bool'},
         kinds={'src': 'list', 'key': 'callable', 'value_transform': 'callable', 'key_filter': 'callable'},
         locals={'key_func': 'Fn α → κ', 'ret': 'Dict κ | List β', 'key_of_val': 'κ', 'f': 'Fn α → β'},
         result='Dict κ | List β', tie_theorem='C09.src_bucketize_eq_model'),
    dict(_C09_COMMON, qualname='bucketize', lean_name='bucketize_plain', kind='function',
         tparams=['α', 'κ'], classes=['DecidableEq κ'],
         params={'src': 'List α', 'key': 'Fn α → κ', 'value_transform': 'Fn α → α', 'key_filter': 'Msg'},
         kinds={'src': 'list', 'key': 'callable', 'value_transform': 'none', 'key_filter': 'none'},
         locals={'key_func': 'Fn α → κ', 'ret': 'Dict κ | List α', 'key_of_val': 'κ', 'f': 'Fn α → α'},
         result='Dict κ | List α', tie_theorem='C09.src_bucketize_plain_eq_model'),
    dict(_C09_COMMON, qualname='split_iter', lean_name='split_iter_func', kind='generator',
         tparams=['α'],
         params={'src': 'List α', 'sep': 'Fn α → Bool', 'maxsplit': 'Option Int'},
         kinds={'src': 'list', 'sep': 'callable'},
         locals={'sep_func': 'Fn α → Bool', 'cur_group': 'List α', 'split_count': 'Int'}, result='List α',
         tie_theorem='C09.src_split_iter_func_eq_model'),
    dict(_C09_COMMON, qualname='split_iter', lean_name='split_iter_value', kind='generator',
         tparams=['α'], ops={'eqv': 'Fn α → α → Bool'},
         params={'src': 'List α', 'sep': 'α', 'maxsplit': 'Option Int'},
         kinds={'src': 'list', 'sep': 'value'},
         locals={'sep_func': 'Fn α → Bool', 'cur_group': 'List α', 'split_count': 'Int'}, result='List α',
         tie_theorem='C09.src_split_iter_value_eq_model'),
    dict(_C09_COMMON, qualname='split_iter', lean_name='split_iter_none', kind='generator',
         tparams=['α'], ops={'isNone': 'Fn α → Bool'},
         params={'src': 'List α', 'sep': 'Msg', 'maxsplit': 'Option Int'},
         kinds={'src': 'list', 'sep': 'none'},
         locals={'sep_func': 'Fn α → Bool', 'cur_group': 'List α', 'split_count': 'Int'}, result='List α',
         tie_theorem='C09.src_split_iter_none_eq_model'),
    dict(_C09_COMMON, qualname='partition', lean_name='partition', kind='function',
         tparams=['α', 'κ'], classes=['DecidableEq κ'], ops={'pyTrue': 'κ', 'pyFalse': 'κ'},
         params={'src': 'List α', 'key': 'Fn α → κ'}, kinds={'src': 'list', 'key': 'callable'},
         locals={'bucketized': 'Dict κ | List α'}, helpers={'bucketize': 'bucketize_plain'},
         result='(List α) × (List α)', tie_theorem='C09.src_partition_eq_model'),
    # the list-returning forms: `return list(<the generator form>(...))`
    dict(_C09_COMMON, qualname='chunked', lean_name='chunked_nocount', kind='function',
         tparams=['α'], classes=['PyRtC09.PyNone α'],
         params={'src': 'List α', 'size': 'Int', 'count': 'Msg', 'kw': 'KwFill α'},
         kinds={'src': 'list', 'count': 'none'}, locals={'chunk_iter': 'Gen List α'},
         helpers={'chunked_iter': 'chunked_iter'}, result='List (List α)',
         tie_theorem='C09.src_chunked_nocount_eq_model'),
    dict(_C09_COMMON, qualname='unique', lean_name='unique_list', kind='function',
         tparams=['α', 'κ'], classes=['DecidableEq κ'],
         params={'src': 'List α', 'key': 'Fn α → κ'}, kinds={'src': 'list', 'key': 'callable'},
         helpers={'unique_iter': 'unique_iter'}, result='List α', tie_theorem='C09.src_unique_list_eq_model'),
    dict(_C09_COMMON, qualname='unique', lean_name='unique_list_nokey', kind='function',
         tparams=['α'], classes=['DecidableEq α'],
         params={'src': 'List α', 'key': 'Msg'}, kinds={'src': 'list', 'key': 'none'},
         helpers={'unique_iter': 'unique_iter_nokey'}, result='List α', tie_theorem='C09.src_unique_list_nokey_eq_model'),
    dict(_C09_COMMON, qualname='split', lean_name='split_func', kind='function', tparams=['α'],
         params={'src': 'List α', 'sep': 'Fn α → Bool', 'maxsplit': 'Option Int'},
         kinds={'src': 'list', 'sep': 'callable'}, helpers={'split_iter': 'split_iter_func'},
         result='List (List α)', tie_theorem='C09.src_split_func_eq_model'),
    dict(_C09_COMMON, qualname='split', lean_name='split_value', kind='function', tparams=['α'],
         ops={'eqv': 'Fn α → α → Bool'}, params={'src': 'List α', 'sep': 'α', 'maxsplit': 'Option Int'},
         kinds={'src': 'list', 'sep': 'value'}, helpers={'split_iter': 'split_iter_value'},
         result='List (List α)', tie_theorem='C09.src_split_value_eq_model'),
    dict(_C09_COMMON, qualname='split', lean_name='split_none', kind='function', tparams=['α'],
         ops={'isNone': 'Fn α → Bool'}, params={'src': 'List α', 'sep': 'Msg', 'maxsplit': 'Option Int'},
         kinds={'src': 'list', 'sep': 'none'}, helpers={'split_iter': 'split_iter_none'},
         result='List (List α)', tie_theorem='C09.src_split_none_eq_model'),
    dict(_C09_COMMON, qualname='lstrip_iter', lean_name='lstrip_iter', kind='generator', tparams=['α'],
         ops={'eqv': 'Fn α → α → Bool'}, params={'iterable': 'List α', 'strip_value': 'α'},
         kinds={'iterable': 'list'}, locals={'iterator': 'Iter α'}, result='α',
         tie_theorem='C09.src_lstrip_iter_eq_model'),
    dict(_C09_COMMON, qualname='lstrip', lean_name='lstrip_list', kind='function', tparams=['α'],
         ops={'eqv': 'Fn α → α → Bool'}, params={'iterable': 'List α', 'strip_value': 'α'},
         kinds={'iterable': 'list'}, helpers={'lstrip_iter': 'lstrip_iter'}, result='List α',
         tie_theorem='C09.src_lstrip_list_eq_model'),
]
SPECS['C09'] = SPECS['C09'] + _C09
