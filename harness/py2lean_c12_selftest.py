"""Self-test of the socket mode of the source translator (harness/py2lean_c12.py): CPython vs the generated definitions.

Every translated method of `boltons.socketutils.BufferedSocket` runs (a) in CPython, the real method of the repo under test
on an object whose `sock` is a scripted fake and with the module's `time` replaced by a scripted clock, and (b) as the
generated Lean definition on the same script (`lake env lean --run` on a scratch driver, `φ := Int`).  The WORLD here is
the most general one: a list of pre-decided answers, one per external call whatever the call is (`[0, p…]` = return
normally with payload `p`: the bytes of a `recv`, the count of a `send`, the reading of the clock; `[k]`, k = 1..4 = raise
`socket.timeout` / `BlockingIOError` / `RuntimeError` / `KeyboardInterrupt`; exhausted = `recv` returns b'', `send`
takes everything, the clock reads 0.0).  Compared: the value or the exception class, every declared attribute after the
call, the unused rest of the script and the LOG of external calls with their arguments, in order.
Also: snippets outside the subset (edits of the real source) must be refused.
"""
from __future__ import annotations

import importlib
import os
import random
import shutil
import subprocess
import sys
import tempfile
import threading
import time

sys.path.insert(0, os.path.dirname(os.path.abspath(__file__)))
from bv import common  # noqa: E402
import srctie_specs  # noqa: E402
import py2lean_c12 as T  # noqa: E402

LFUEL = 100000


# ------------------------------------------------------------------------------------------ encoding
def enc(t, v):
    if t == 'Int':
        return [int(v)]
    if t == 'Bool':
        return [1 if v else 0]
    if t == 'Time':
        assert float(v) == int(v)
        return [int(v)]
    if t == 'Bytes':
        return [len(v)] + list(v)
    if t == 'None' or t == 'Msg':
        return []
    if t[0] == 'List':
        out = [len(v)]
        for x in v:
            out += enc(t[1], x)
        return out
    if t[0] == 'Option':
        return [0] if v is None else [1] + enc(t[1], v)
    if t[0] == 'Unset':
        return [0] if v is UNSET else [1] + enc(t[1], v)
    raise ValueError(t)


class _Unset:
    def __repr__(self):
        return 'UNSET'


UNSET = _Unset()


def lean_parser(t):
    if t in ('Int', 'Time'):
        return 'pInt'
    if t == 'Bool':
        return 'pBool'
    if t == 'Bytes':
        return 'pBytes'
    if t[0] == 'List':
        return '(pList %s)' % lean_parser(t[1])
    if t[0] in ('Option', 'Unset'):
        return '(pOpt %s)' % lean_parser(t[1])
    raise ValueError(t)


def lean_encoder(t, e):
    if t in ('Int', 'Time'):
        return '[%s]' % e
    if t == 'Bool':
        return '[if %s then 1 else 0]' % e
    if t == 'Bytes':
        return '(eBytes %s)' % e
    if t in ('None', 'Msg'):
        return '[]'
    if t[0] == 'List':
        return '(eList (fun x => %s) %s)' % (lean_encoder(t[1], 'x'), e)
    if t[0] in ('Option', 'Unset'):
        return '(eOpt (fun x => %s) %s)' % (lean_encoder(t[1], 'x'), e)
    raise ValueError(t)


DRIVER_PRELUDE = '''
open PyRtC12

structure TW where
  script : List (List Int)
  log : List (List Int)

def excOf (k : Int) : Exc :=
  if k = 1 then .sockTimeout else if k = 2 then .osError 1 else if k = 3 then .exception 2 else .base 3

/-- one external call: logs it, uses up the next scripted answer -/
def respond {α : Type} (entry : List Int) (dflt : α) (dec : List Int → α) (w : TW) : Except Exc α × TW :=
  match w.script with
  | [] => (.ok dflt, { w with log := w.log ++ [entry] })
  | (k :: p) :: r => if k = 0 then (.ok (dec p), ⟨r, w.log ++ [entry]⟩) else (.error (excOf k), ⟨r, w.log ++ [entry]⟩)
  | [] :: r => (.ok dflt, ⟨r, w.log ++ [entry]⟩)

def tnet : Net TW Int where
  recv := fun n w => respond [1, n] [] (fun p => (p.map Int.toNat).take n.toNat) w
  settimeout := fun t w => respond (match t with | none => [2, 0, 0] | some x => [2, 1, x]) () (fun _ => ()) w
  send := fun d w => respond ([3, (d.length : Int)] ++ d.map Int.ofNat) (d.length : Int) (fun p => p.headD (d.length : Int)) w
  time := fun w => respond [4] 0 (fun p => p.headD 0) w
  fsub := fun a b => a - b
  fle := fun a b => decide (a ≤ b)
  fzero := 0
  ftruthy := fun a => decide (a ≠ 0)

abbrev P (α : Type) := List Int → Option (α × List Int)
def pInt : P Int | x :: r => some (x, r) | [] => none
def pBool : P Bool | x :: r => some (x != 0, r) | [] => none
def pTake : Nat → List Int → Option (List Int × List Int)
  | 0, r => some ([], r)
  | n + 1, x :: r => (pTake n r).map (fun (a, b) => (x :: a, b))
  | _ + 1, [] => none
def pBytes : P Bytes | n :: r => (pTake n.toNat r).map (fun (a, b) => (a.map Int.toNat, b)) | [] => none
def pRep {α : Type} (p : P α) : Nat → P (List α)
  | 0, r => some ([], r)
  | n + 1, r => match p r with
    | some (a, r1) => (pRep p n r1).map (fun (as, r2) => (a :: as, r2))
    | none => none
def pList {α : Type} (p : P α) : P (List α) | n :: r => pRep p n.toNat r | [] => none
def pOpt {α : Type} (p : P α) : P (Option α)
  | 0 :: r => some (none, r)
  | _ :: r => (p r).map (fun (a, b) => (some a, b))
  | [] => none
def pScript : P (List (List Int)) := pList (fun l => match l with | n :: r => pTake n.toNat r | [] => none)

def eBytes (b : Bytes) : List Int := (b.length : Int) :: b.map Int.ofNat
def eList {α : Type} (f : α → List Int) (l : List α) : List Int := (l.length : Int) :: (l.map f).flatten
def eOpt {α : Type} (f : α → List Int) : Option α → List Int | none => [0] | some a => 1 :: f a
def eExc : Exc → List Int
  | .sockTimeout => [1] | .timeout => [2] | .connectionClosed => [3] | .messageTooLong => [4] | .valueError => [5]
  | .osError t => [6, t] | .exception t => [7, t] | .base t => [8, t] | .outOfFuel => [9]
def eWorld (w : TW) : List Int := (w.script.length : Int) :: (w.log.length : Int) :: (w.log.map (fun e => (e.length : Int) :: e)).flatten

def showInts (l : List Int) : String := " ".intercalate (l.map toString)
def parseInts (s : String) : Option (List Int) :=
  (s.splitOn " ").filter (· ≠ "") |>.mapM String.toInt?
'''


def build_driver(gen_text, short, specs):
    body = gen_text.split('\n-/\n', 1)[1] if gen_text.startswith('/-') else gen_text
    cls = specs[0]['cls']
    st_fields = [(T.lean_field(a), T.parse_type(t)) for a, t in cls['state'].items()]
    out = [body, DRIVER_PRELUDE, 'open Src.%s' % short]
    st_enc = ' ++ '.join(lean_encoder(t, 'st.' + f) for f, t in st_fields)
    out.append('def eSt (st : %s.St Int) : List Int := %s' % (cls['lean_name'], st_enc))
    arms = []
    for k, sp in enumerate(specs):
        lines = ['def run%d (l : List Int) : Option (List Int) := do' % k]
        names = []
        for f, t in st_fields:
            lines.append('  let (s_%s, l) ← %s l' % (f, lean_parser(t)))
            names.append('s_' + f)
        ps = []
        for p, t in sp['params'].items():
            lines.append('  let (a_%s, l) ← %s l' % (p, lean_parser(T.parse_type(t))))
            ps.append('a_' + p)
        lines.append('  let (sc, _) ← pScript l')
        fuel = (' %d' % LFUEL) if sp.get('_fuel') else ''
        lines.append('  let r := %s.%s tnet%s ⟨%s⟩ %s ⟨sc, []⟩' % (cls['lean_name'], sp['lean_name'].split('.')[-1], fuel,
                                                                ', '.join(names), ' '.join(ps)))
        rt = T.parse_type(sp['result'])
        lines.append('  let res := match r.1 with | .ok v => (1 : Int) :: %s | .error e => 0 :: eExc e' % lean_encoder(rt, 'v'))
        lines.append('  pure (res ++ eSt r.2.1 ++ eWorld r.2.2)')
        out.append('\n'.join(lines))
        arms.append('    | %d => run%d rest' % (k, k))
    out.append('''def main : IO Unit := do
  let stdin ← IO.getStdin
  let mut go := true
  while go do
    let line ← stdin.getLine
    if line.isEmpty then
      go := false
    else
      match parseInts line.trimAscii.toString with
      | some (k :: rest) =>
        match (match k with
%s
    | _ => none) with
        | some o => IO.println ("R " ++ showInts o)
        | none => IO.println "R bad"
      | _ => IO.println "R bad"
''' % '\n'.join(arms))
    return '\n\n'.join(out)


# ------------------------------------------------------------------------------------------ CPython side
class World:
    def __init__(self, script):
        self.script = [list(e) for e in script]
        self.log = []

    def respond(self, entry, dflt, dec):
        self.log.append(entry)
        if not self.script:
            return dflt
        e = self.script.pop(0)
        if not e:
            return dflt
        if e[0] == 0:
            return dec(e[1:])
        import socket
        raise {1: socket.timeout, 2: lambda: BlockingIOError(11, 'x'), 3: lambda: RuntimeError('x')}.get(
            e[0], KeyboardInterrupt)()


class FakeSock:
    def __init__(self, world):
        self.w = world

    def recv(self, n, *a):
        assert not a
        return self.w.respond([1, n], b'', lambda p: bytes(p)[:max(n, 0)])

    def settimeout(self, t):
        return self.w.respond([2, 0, 0] if t is None else [2, 1, int(t)] if float(t) == int(t) else [2, 1, repr(t)],
                              None, lambda p: None)

    def send(self, d, *a):
        assert not a
        d = bytes(d)
        return self.w.respond([3, len(d)] + list(d), len(d), lambda p: p[0] if p else len(d))

    def gettimeout(self):
        return None


class FakeTime:
    def __init__(self, world):
        self.w = world

    def time(self):
        return self.w.respond([4], 0.0, lambda p: float(p[0]) if p else 0.0)

    def __getattr__(self, name):
        raise AssertionError('time.%s is not a declared operation' % name)


def exc_code(mod, e):
    import socket
    if type(e) is mod.Timeout:
        return [2]
    if type(e) is mod.ConnectionClosed:
        return [3]
    if type(e) is mod.MessageTooLong:
        return [4]
    if type(e) is socket.timeout:
        return [1]
    if type(e) is ValueError:
        return [5]
    if type(e) is BlockingIOError:
        return [6, 1]
    if type(e) is RuntimeError:
        return [7, 2]
    if type(e) is KeyboardInterrupt:
        return [8, 3]
    return [99, repr(e)]


def run_python(mod, spec, state, args, script):
    cls = spec['cls']
    world = World(script)
    obj = object.__new__(getattr(mod, cls['name']))
    for a, v in state.items():
        setattr(obj, a, float(v) if (a == 'timeout' and v is not None) else (list(v) if isinstance(v, list) else v))
    setattr(obj, cls['sock'], FakeSock(world))
    for l in cls['locks']:
        setattr(obj, l, threading.RLock())
    saved = mod.__dict__['time']
    mod.__dict__['time'] = FakeTime(world)
    try:
        kwargs = {}
        for (p, t), v in zip(spec['params'].items(), args):
            if v is UNSET:
                continue
            tt = T.parse_type(t)
            inner = tt[1] if isinstance(tt, tuple) and tt[0] == 'Unset' else tt
            if v is not None and (inner == 'Time' or inner == ('Option', 'Time')):
                v = float(v)
            kwargs[p] = v
        rt = T.parse_type(spec['result'])
        try:
            r = getattr(obj, spec['py'])(**kwargs)
            res = [1] + enc(rt, r)
        except BaseException as e:  # noqa: BLE001
            res = [0] + exc_code(mod, e)
        for a, t in cls['state'].items():
            res += enc(T.parse_type(t), getattr(obj, a))
        res += [len(world.script), len(world.log)]
        for e in world.log:
            res += [len(e)] + e
        return res
    finally:
        mod.__dict__['time'] = saved


# ------------------------------------------------------------------------------------------ cases
def rand_bytes(rng, n):
    return bytes(rng.choice((0, 1, 2, 3, 13, 10)) for _ in range(rng.randint(0, n)))


def rand_script(rng):
    out = []
    for _ in range(rng.choice((0, 1, 2, 3, 4, 6, 9))):
        r = rng.random()
        if r < 0.72:
            out.append([0] + list(rand_bytes(rng, 4)))
        elif r < 0.82:
            out.append([0, rng.choice((0, 1, 5, 7, 100))])       # a clock reading / a send count / one byte
        else:
            out.append([rng.choice((1, 1, 2, 3, 4))])
    return out


def rand_state(rng):
    return {'rbuf': rand_bytes(rng, 5), 'sbuf': [rand_bytes(rng, 3) for _ in range(rng.choice((0, 0, 1, 2)))],
            'maxsize': rng.choice((0, 1, 3, 6, 20)), 'timeout': rng.choice((None, 0, 5, 2)),
            '_recvsize': rng.choice((1, 2, 3, 8))}


def rand_arg(rng, pname, t):
    if t == 'Int':
        return rng.choice((0, 1, 2, 3, 4, 5, 8, -1)) if pname != 'flags' else rng.choice((0, 0, 0, 1))
    if t == 'Bool':
        return rng.random() < 0.5
    if t == 'Bytes':
        return bytes(rng.choice((13, 10, 1)) for _ in range(rng.choice((0, 1, 1, 2, 2, 3)))) if pname == 'delimiter' \
            else rand_bytes(rng, 5)
    if t == 'Time':
        return rng.choice((0, 5, 2, 100, -1))
    if t[0] == 'Option':
        return None if rng.random() < 0.3 else rand_arg(rng, pname, t[1])
    if t[0] == 'Unset':
        return UNSET if rng.random() < 0.4 else rand_arg(rng, pname, t[1])
    raise ValueError(t)


# ------------------------------------------------------------------------------------------ refusal tests
REJECT = [
    ('handler for a class outside the table', 'except socket.timeout:', 'except OSError:'),
    ('an operation the spec does not declare', 'self.sock.settimeout(timeout)', 'self.sock.setblocking(timeout)'),
    ('alias of a mutable local', 'chunks.append(nxt)\n', 'other = chunks\n                    other.append(nxt)\n'),
    ('float arithmetic other than subtraction', 'timeout - (time.time() - start)', 'timeout * (time.time() - start)'),
    ('for loop', 'while nxt:', 'for _x in [1]:'),
    ('finally', "            except Exception:\n                # received data is still buffered in the case of errors\n                self.rbuf = b''.join(chunks)\n                raise\n",
     "            finally:\n                self.rbuf = b''.join(chunks)\n"),
    ('read of a possibly unbound local', 'nxt = self.rbuf or self.sock.recv(self._recvsize)\n', 'pass\n'),
    ('a lock the spec does not declare', 'def recv_size(self, size, timeout=_UNSET):\n        """Read off', 'def recv_size(self, size, timeout=_UNSET):\n        """Xead off'),
    ('exception class with other bases', 'class Timeout(socket.timeout, Error):', 'class Timeout(Error):'),
    ('time rebound', '\nimport time\n', '\nimport time\ntime = None\n'),
    ('changed signature', 'def recv_size(self, size, timeout=_UNSET):', 'def recv_size(self, size, timeout=None):'),
    ('raise of an unknown class', 'raise ConnectionClosed(msg)  # check recv buffer', 'raise EOFError(msg)'),
    ('message conversion that can raise', "'connection closed after reading %s of %s requested'", "'connection closed after reading %d of %s requested'"),
    ('two calls with an effect in one expression', 'timeout - (time.time() - start)', 'time.time() - (time.time() - start)'),
    ('and/or used for a value without an effect', 'extra_bytes = total_bytes - size', 'extra_bytes = (total_bytes - size) or 0'),
]


def reject_tests(src, specs):
    bad = []
    sp = [s for s in specs if s['py'] == 'recv_size']
    if not sp:
        return bad
    for why, old, new in REJECT:
        if why == 'a lock the spec does not declare':
            old, new = 'with self._recv_lock:\n            if timeout is _UNSET:\n                timeout = self.timeout\n            chunks = []', \
                'with self._other_lock:\n            if timeout is _UNSET:\n                timeout = self.timeout\n            chunks = []'
        a = src.find('    def recv_size(')
        b = src.find('    def send(', a)
        if why in ('exception class with other bases', 'time rebound'):      # edits of the module, not of the method
            if src.count(old) != 1:
                continue
            text = src.replace(old, new, 1)
        elif a >= 0 and b > a and old in src[a:b]:
            text = src[:a] + src[a:b].replace(old, new) + src[b:]
        else:
            continue                    # the method under test no longer has this text: the snippet does not apply
        try:
            _, infos = T.translate_source(text, [dict(sp[0])], 'boltons.socketutils', 'snippet')
        except SyntaxError:
            continue
        if not infos[0].get('error'):
            bad.append(why)
    bad += reject_tests_send(src, specs)
    return bad


# send side (round 3f): edits of `send` / `buffer` that leave the rules for the mutable list attribute `sbuf`
REJECT_SEND = [
    ('send', 'sbuf[0] of a possibly empty list', '            sbuf.append(data)\n', '            pass\n'),
    ('send', 'second alias of the list attribute', '            sbuf = self.sbuf\n', '            sbuf = self.sbuf\n            other = sbuf\n'),
    ('send', 'alias of the list attribute passed on', '            sbuf.append(data)\n', '            sbuf.append(data)\n            self.sock.send(sbuf)\n'),
    ('send', 'pop from the list attribute', '            sbuf.append(data)\n', '            sbuf.append(data)\n            sbuf.pop()\n'),
    ('send', 'slice assignment of a list that is not new', "sbuf[:] = [b''.join([s for s in sbuf if s])]", 'sbuf[:] = sbuf'),
    ('send', 'list emptied inside the loop before sbuf[0]', '                    total_sent += sent\n', '                    total_sent += sent\n                    sbuf[:] = []\n'),
    ('send', 'comprehension of another shape', '[s for s in sbuf if s]', '[s + s for s in sbuf if s]'),
    ('buffer', 'list attribute rebound', '            self.sbuf.append(data)\n', '            self.sbuf = self.sbuf + [data]\n'),
    ('buffer', 'list attribute returned', '            self.sbuf.append(data)\n        return\n', '            self.sbuf.append(data)\n        return self.sbuf\n'),
]


def reject_tests_send(src, specs):
    bad = []
    for meth, why, old, new in REJECT_SEND:
        sp = [s for s in specs if s['py'] == meth]
        a = src.find('    def %s(' % meth)
        b = src.find('\n    def ', a + 1)
        if not sp or a < 0 or b < 0 or src[a:b].count(old) != 1:
            continue                    # the method no longer has this text: the snippet does not apply
        text = src[:a] + src[a:b].replace(old, new) + src[b:]
        try:
            _, infos = T.translate_source(text, [dict(sp[0])], 'boltons.socketutils', 'snippet')
        except SyntaxError:
            continue
        if not infos[0].get('error'):
            bad.append(why)
    return bad


# ------------------------------------------------------------------------------------------ run
def run(pids, quick=False, seed=0, verbose=True):
    """-> (number of mismatches, report dict); same contract as py2lean_selftest.run"""
    common.ensure_repo_on_path()
    t0 = time.time()
    specs = [sp for pid in pids for sp in srctie_specs.SPECS.get(pid, []) if sp.get('translator') == 'py2lean_c12']
    module_name = specs[0]['module']
    mod = importlib.import_module(module_name)
    report, mismatches = {}, []
    gen_text, infos = T.translate_module(module_name, specs, common.REPO)
    for i in infos:
        if i.get('error'):
            raise common.InfraError('not translated: %s: %s' % (i['function'], i['error']))
    for c in specs[0]['cls'].get('consts', ()):
        import ast
        with open(mod.__file__) as fh:
            v = T.module_constant(ast.parse(fh.read()), c)
        if getattr(mod, c) != v:
            mismatches.append((c, {}, 'constant %s read as %r but the module has %r' % (c, v, getattr(mod, c))))
    short = specs[0].get('gen_file') or module_name.split('.')[-1]
    rng = random.Random('py2lean-c12-selftest-%d' % seed)
    n_cases = 700 if quick else 6000
    lines, meta = [], []
    for k, sp in enumerate(specs):
        for _ in range(n_cases):
            st = rand_state(rng)
            args = [rand_arg(rng, p, T.parse_type(t)) for p, t in sp['params'].items()]
            sc = rand_script(rng)
            toks = [k]
            for a, t in sp['cls']['state'].items():
                toks += enc(T.parse_type(t), st[a])
            for (p, t), v in zip(sp['params'].items(), args):
                toks += enc(T.parse_type(t), v)
            toks += [len(sc)]
            for e in sc:
                toks += [len(e)] + e
            lines.append(' '.join(map(str, toks)))
            meta.append((sp, st, args, sc))
    tmp = tempfile.mkdtemp(prefix='py2lean-c12-selftest-')
    t_lean = 0.0
    try:
        with common.BuildLock():
            rc, out = common._run(['lake', 'build', 'BoltonsVerif.PyRtC12'])
        if rc != 0:
            raise common.InfraError('cannot build BoltonsVerif.PyRtC12: ' + out[-500:])
        drv = os.path.join(tmp, 'C12SelfTest.lean')
        with open(drv, 'w') as fh:
            fh.write(build_driver(gen_text, short, specs))
        t1 = time.time()
        p = subprocess.run(['lake', 'env', 'lean', '--run', drv], cwd=common.LEAN, input='\n'.join(lines) + '\n',
                           stdout=subprocess.PIPE, stderr=subprocess.STDOUT, text=True, timeout=1800)
        t_lean = time.time() - t1
        outs = [ln[2:] for ln in p.stdout.split('\n') if ln.startswith('R ')]
        if p.returncode != 0 or len(outs) != len(lines):
            raise common.InfraError('socket-mode scratch driver failed (rc %s, %d lines for %d inputs): %s' % (
                p.returncode, len(outs), len(lines), p.stdout[-1500:]))
        for (sp, st, args, sc), got in zip(meta, outs):
            r = report.setdefault(sp['lean_name'], {'cases': 0, 'compared': 0, 'pre_false': 0, 'python_raises': 0,
                                                    'mismatches': 0})
            r['cases'] += 1
            if got.startswith('bad'):
                raise common.InfraError('driver rejected a line')
            val = [int(x) for x in got.split()]
            want = run_python(mod, sp, st, args, sc)
            r['compared'] += 1
            if want[0] == 0:
                r['python_raises'] += 1
            if want != val:
                r['mismatches'] += 1
                mismatches.append((sp['lean_name'], {'state': st, 'args': args, 'script': sc},
                                   'Python stream %s but Lean stream %s' % (want, val)))
    finally:
        shutil.rmtree(tmp, ignore_errors=True)
    with open(mod.__file__) as fh:
        src = fh.read()
    for why in reject_tests(src, specs):
        mismatches.append(('reject', {}, 'snippet outside the subset was translated: ' + why))
    report['_mismatches'] = [{'function': n, 'case': repr(c), 'what': b} for n, c, b in mismatches[:5]]
    report['_wall_s'] = round(time.time() - t0, 2)
    report['_lean_s'] = round(t_lean, 2)
    if verbose:
        for name, r in report.items():
            print(name, r)
        for name, case, b in mismatches[:10]:
            print('MISMATCH %s %r: %s' % (name, case, b))
    return len(mismatches), report


if __name__ == '__main__':
    n, rep = run(['C12'], quick='--quick' in sys.argv, seed=0, verbose=True)
    sys.exit(1 if n else 0)
