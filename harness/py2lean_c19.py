"""py2lean_c19 - source-tie front-end for the line readers of C19 (round 3d; trusted together with harness/py2lean.py).

`boltons.strutils.iter_splitlines` / `indent` and `boltons.jsonutils.reverse_iter_lines` are outside the source
translator's subset only through what they CALL: a compiled regular expression (`_line_ending_re.finditer`, match
objects), a file object (`seek` / `tell` / `read`), `bytes.splitlines`, `bytes.decode`.  This module is

  * the translator module of the C19 specs (spec key `translator: 'py2lean_c19'`): `translate_module` hands the specs
    to the unmodified base translator (`py2lean.translate_module`), `selftest` validates the result against CPython;
  * the extension module of those specs (spec key `ext: 'py2lean_c19'`): `prepass` rewrites the function - purely
    syntactically, on the AST - into the base translator's subset, with every external call replaced by a
    SPEC-DECLARED OPERATION: either an extra PARAMETER of the generated definition (the regex: its `finditer` result as
    the list of group spans, whose meaning - the regenerated line-ending table - is supplied by the tie theorem) or a
    fixed function of the runtime `lean/BoltonsVerif/PyRtC19.lean` (`%c19.<op>` pseudo-calls, `translate_op`).

Rules (each is applied only when its side condition holds; otherwise the construct reaches the base translator and is
refused there, so that the tie theorem of the function stops checking - never guessed).  Specified in notes/SRCTIE.md
section "Round 3d: C19".

 L1 `for m in <RE>.finditer(<T>)`, `<RE>` a name the spec declares under `c19.regex` (-> parameter name P), `<T>` a
    declared text parameter                                          -> `for m in P`  (P : List (Int x Int) is appended
    to the parameter list; it stands for `[(m.start(g), m.end(g)) for m in <RE>.finditer(<T>)]`, g the declared group)
    side conditions: `<RE>` is bound exactly once in the module, at top level, by `re.compile(...)`, and is not
    rebound in the function; `m` is a plain name whose every other occurrence in the function is one of L2's forms
    inside the loop body; exactly one such loop per declared regex.
 L2 `m.start(g)` / `m.end(g)` / `m.span(g)` / `a, b = m.span(g)` with g the declared group (g omitted = 0; 0 and 1 are
    interchangeable when group 1 is the whole pattern, checked on the parsed pattern)
                                                                     -> `m[0]` / `m[1]` / `m` / `a, b = m[0], m[1]`
 L3 the empty string literal `''` in a function whose declared texts are polymorphic lists (`List a`) -> `[]`
    (a str is the list of its code points; a non-empty literal is left alone and refused by the base translator).
 L5 a parameter the spec declares a PREDICATE on texts (`c19.pred: {key: op}`): it leaves the parameter list and
    `key(E)` (one positional argument) -> `%c19.<op>(E)` = `PyRtC19.lineKey E`, the `key` field of the instance
    `[PyRtC19.LineKey a]` the generated definition takes (spec `classes`); the tie theorem holds for EVERY instance.
    side conditions: `key` is never rebound and has no other occurrence.  The predicate is assumed pure (no effect on
    the other arguments, no exception) - what the hand model's `key : List Nat -> Bool` assumes.
 L6 `S.join(E)`, `S` a declared text parameter                        -> `%c19.join(S, E)` = `PyRtC19.join`
 L7 default values of parameters are dropped (the generated definition takes every parameter explicitly; a default is
    API, evaluated once, and not part of what the tie says).
 L8 `isinstance(<T>, str)`, `<T>` a declared text                        -> `True` (the declared kind; the base translator
    would decide a kind test by the declared Lean type - a list - and drop the branch); against any other class: refused.
 L4 `f(<T>)` where `f` is a function of the same spec group translated BEFORE this one and given extra parameters by
    L1, `<T>` a declared text parameter of this function             -> `f(<T>, P...)`, and this function gets the same
    extra parameters (they stand for the same thing: the regex applied to the same text).
"""
from __future__ import annotations

import ast
import copy
import os
import random
import re
import shutil
import subprocess
import tempfile
import time

import py2lean
from py2lean import Unsupported

RT_IMPORT = 'PyRtC19'
OP = '%c19.'

# operation -> (parameter types, result type, Lean function)
OPS = {
    'line_key': (['List α'], 'Bool', 'PyRtC19.lineKey'),     # L5: the caller's predicate `key`, a type-class parameter
    'join': (['List α', 'List (List α)'], 'List α', 'PyRtC19.join'),     # L6: `sep.join(parts)`
}


# --------------------------------------------------------------------------------------------------- prepass

def _cfg(spec):
    return spec.get('c19') or {}


def _regex_binding(tree, name):
    """the `re.compile(...)` call that binds `name` (module level, exactly once), else None"""
    found = []
    for n in ast.walk(tree):
        if isinstance(n, ast.Name) and n.id == name and isinstance(n.ctx, (ast.Store, ast.Del)):
            found.append(n)
        if isinstance(n, (ast.FunctionDef, ast.ClassDef, ast.AsyncFunctionDef)) and n.name == name:
            found.append(n)
        if isinstance(n, ast.arg) and n.arg == name:
            found.append(n)
        if isinstance(n, (ast.Global, ast.Nonlocal)) and name in n.names:
            found.append(n)
        if isinstance(n, ast.alias) and (n.asname or n.name).split('.')[0] == name:
            found.append(n)
    if len(found) != 1:
        return None
    for st in tree.body:
        if isinstance(st, ast.Assign) and len(st.targets) == 1 and st.targets[0] is found[0] \
                and isinstance(st.value, ast.Call) and ast.unparse(st.value.func) == 're.compile':
            return st.value
    return None


def _group_is_whole(call, group):
    """is group `group` of the pattern compiled by `call` the whole pattern (so that start()/start(0) = start(group))?"""
    try:
        pat = ast.literal_eval(call.args[0])
        try:
            import re._parser as sp
            import re._constants as sc
        except ImportError:      # pragma: no cover
            import sre_parse as sp
            import sre_constants as sc
        p = sp.parse(pat)
        return len(p.data) == 1 and p.data[0][0] is sc.SUBPATTERN and p.data[0][1][0] == group
    except Exception:    # noqa: BLE001
        return False


class _Rewrite(ast.NodeTransformer):
    def __init__(self, mvars, group, whole, empty_str):
        self.mvars, self.group, self.whole, self.empty_str = mvars, group, whole, empty_str
        self.notes = set()

    def _group_ok(self, call):
        if call.keywords or len(call.args) > 1:
            return False
        if not call.args:
            return self.group == 0 or self.whole
        a = call.args[0]
        if not (isinstance(a, ast.Constant) and type(a.value) is int):
            return False
        # `whole`: group 1 of the pattern is the whole pattern, so groups 0 and 1 have the same spans
        return a.value == self.group or (self.whole and a.value in (0, 1) and self.group in (0, 1))

    def visit_Call(self, n):
        f = n.func
        if isinstance(f, ast.Attribute) and isinstance(f.value, ast.Name) and f.value.id in self.mvars \
                and f.attr in ('start', 'end', 'span') and self._group_ok(n):
            self.notes.add('c19:match-span')
            base = ast.Name(id=f.value.id, ctx=ast.Load())
            base._c19_ok = True
            if f.attr == 'span':
                return ast.copy_location(base, n)
            return ast.copy_location(ast.Subscript(value=base, slice=ast.Constant(value=0 if f.attr == 'start' else 1),
                                                   ctx=ast.Load()), n)
        if isinstance(f, ast.Name) and f.id == 'isinstance' and len(n.args) == 2 and not n.keywords \
                and isinstance(n.args[0], ast.Name) and n.args[0].id in getattr(self, 'texts', ()):
            # L8: the declared kind of a text parameter is `str` (the base translator would decide the test by the
            # declared Lean type, a list, and drop the branch)
            if isinstance(n.args[1], ast.Name) and n.args[1].id == 'str':
                self.notes.add('c19:text-is-str')
                return ast.copy_location(ast.Constant(value=True), n)
            raise Unsupported(n, 'kind test of a declared text against something else than `str`')
        if isinstance(f, ast.Name) and f.id in getattr(self, 'preds', {}) and len(n.args) == 1 and not n.keywords \
                and not isinstance(n.args[0], ast.Starred):
            self.notes.add('c19:predicate-call')
            op = ast.Name(id=OP + self.preds[f.id], ctx=ast.Load())
            return ast.copy_location(ast.Call(func=op, args=[self.visit(n.args[0])], keywords=[]), n)
        if isinstance(f, ast.Attribute) and f.attr == 'join' and isinstance(f.value, ast.Name) \
                and f.value.id in getattr(self, 'join_on', ()) and len(n.args) == 1 and not n.keywords \
                and not isinstance(n.args[0], ast.Starred):
            self.notes.add('c19:join')
            op = ast.Name(id=OP + 'join', ctx=ast.Load())
            return ast.copy_location(ast.Call(func=op, args=[ast.Name(id=f.value.id, ctx=ast.Load()),
                                                             self.visit(n.args[0])], keywords=[]), n)
        self.generic_visit(n)
        return n

    def visit_Assign(self, n):
        v = n.value
        if len(n.targets) == 1 and isinstance(n.targets[0], ast.Tuple) and len(n.targets[0].elts) == 2 \
                and all(isinstance(e, ast.Name) for e in n.targets[0].elts) \
                and isinstance(v, ast.Call) and isinstance(v.func, ast.Attribute) and v.func.attr == 'span' \
                and isinstance(v.func.value, ast.Name) and v.func.value.id in self.mvars and self._group_ok(v):
            self.notes.add('c19:match-span')
            parts = []
            for i in (0, 1):
                base = ast.Name(id=v.func.value.id, ctx=ast.Load())
                base._c19_ok = True
                parts.append(ast.Subscript(value=base, slice=ast.Constant(value=i), ctx=ast.Load()))
            return ast.copy_location(ast.Assign(targets=n.targets, value=ast.Tuple(elts=parts, ctx=ast.Load())), n)
        self.generic_visit(n)
        return n

    def visit_Constant(self, n):
        if self.empty_str and isinstance(n.value, str) and n.value == '':
            self.notes.add('c19:empty-text')
            return ast.copy_location(ast.List(elts=[], ctx=ast.Load()), n)
        return n


def prepass(fdef, tree, spec, notes):
    """-> the function rewritten into the base subset (a copy); `notes` collects the names of the applied rules"""
    cfg = _cfg(spec)
    if not cfg:
        return fdef
    mtree = getattr(fdef, '_module_tree', None) or tree
    f = copy.deepcopy(fdef)
    f._module_tree = mtree
    texts = list(cfg.get('text', []))
    extra = []                                   # parameters appended by L1 / L4
    group = cfg.get('group', 1)
    mvars = set()
    whole = True
    # L1: for m in <RE>.finditer(<T>)
    for rname, pname in (cfg.get('regex') or {}).items():
        loops = []
        for n in ast.walk(f):
            if isinstance(n, ast.For) and isinstance(n.iter, ast.Call) and isinstance(n.iter.func, ast.Attribute) \
                    and n.iter.func.attr == 'finditer' and isinstance(n.iter.func.value, ast.Name) \
                    and n.iter.func.value.id == rname:
                loops.append(n)
        if not loops:
            continue
        call = _regex_binding(mtree, rname) if mtree is not None else None
        if call is None or not call.args:
            raise Unsupported(loops[0], '%s is not bound exactly once, at module level, by re.compile(...)' % rname)
        if any(isinstance(n, ast.Name) and n.id == rname and not isinstance(n.ctx, ast.Load) for n in ast.walk(f)):
            raise Unsupported(loops[0], '%s is rebound in the function' % rname)
        if len(loops) != 1:
            raise Unsupported(loops[1], 'more than one finditer loop over %s' % rname)
        lp = loops[0]
        it = lp.iter
        if it.keywords or len(it.args) != 1 or not (isinstance(it.args[0], ast.Name) and it.args[0].id in texts):
            raise Unsupported(it, 'finditer of something else than a declared text parameter')
        if any(isinstance(n, ast.Name) and n.id == it.args[0].id and not isinstance(n.ctx, ast.Load) for n in ast.walk(f)):
            raise Unsupported(it, 'the scanned text parameter is rebound')
        if not isinstance(lp.target, ast.Name):
            raise Unsupported(lp, 'the match object is unpacked')
        if pname in {a.arg for a in f.args.args} or any(isinstance(n, ast.Name) and n.id == pname for n in ast.walk(f)):
            raise Unsupported(lp, 'the name %s reserved for the regex operation is used by the source' % pname)
        whole = whole and _group_is_whole(call, 1)
        mvars.add(lp.target.id)
        lp.iter = ast.copy_location(ast.Name(id=pname, ctx=ast.Load()), it)
        extra.append(pname)
        notes.add('c19:finditer-param')
    # L4: calls of earlier functions of the group that took extra parameters
    callees = {}
    for s2 in spec.get('_c19_group') or []:
        if s2 is spec:
            break
        if s2.get('_c19_extra'):
            callees[s2['qualname']] = s2['_c19_extra']
    for cname, cextra in callees.items():
        for n in ast.walk(f):
            if isinstance(n, ast.Call) and isinstance(n.func, ast.Name) and n.func.id == cname:
                if n.keywords or len(n.args) != 1 or not (isinstance(n.args[0], ast.Name) and n.args[0].id in texts):
                    raise Unsupported(n, 'call of %s on something else than a declared text parameter' % cname)
                if any(isinstance(m, ast.Name) and m.id == n.args[0].id and not isinstance(m.ctx, ast.Load)
                       for m in ast.walk(f)):
                    raise Unsupported(n, 'the text parameter passed to %s is rebound' % cname)
                for p in cextra:
                    if p not in extra:
                        if p in {a.arg for a in f.args.args} or any(isinstance(m, ast.Name) and m.id == p for m in ast.walk(f)):
                            raise Unsupported(n, 'the name %s reserved for the regex operation is used by the source' % p)
                        extra.append(p)
                    n.args.append(ast.Name(id=p, ctx=ast.Load()))
                n.func = ast.copy_location(ast.Name(id=OP + 'call:' + cname, ctx=ast.Load()), n.func)
                notes.add('c19:callee-param')
    # L5: predicate parameters
    preds = dict(cfg.get('pred') or {})
    for pn, opn in preds.items():
        if pn not in {a.arg for a in f.args.args}:
            raise Unsupported(f, 'the declared predicate parameter %s is missing' % pn)
        if any(isinstance(n, ast.Name) and n.id == pn and not isinstance(n.ctx, ast.Load) for n in ast.walk(f)):
            raise Unsupported(f, 'the predicate parameter %s is rebound' % pn)
    # L7: defaults dropped
    if f.args.defaults or f.args.kw_defaults:
        notes.add('c19:defaults-dropped')
    f.args.defaults, f.args.kw_defaults = [], [None] * len(f.args.kwonlyargs)
    f.args.args = [a for a in f.args.args if a.arg not in preds]
    if preds:
        notes.add('c19:predicate-param')
    # L2 / L3 / L5 / L6
    rw = _Rewrite(mvars, group, whole, bool(cfg.get('poly_text')))
    rw.texts = set(texts) | set(cfg.get('text_params', []))
    rw.preds, rw.join_on = preds, (set(texts) | set(cfg.get('text_params', []))) if cfg.get('join') else set()
    f.body = [rw.visit(st) for st in f.body]
    notes.update(rw.notes)
    # every remaining occurrence of a match variable must be the loop target or one produced by L2
    for n in ast.walk(f):
        if isinstance(n, ast.Name) and n.id in mvars and isinstance(n.ctx, ast.Load) and not getattr(n, '_c19_ok', False):
            raise Unsupported(n, 'the match object %s is used otherwise than through start/end/span of group %d' % (n.id, group))
    for n in ast.walk(f):
        if isinstance(n, ast.Name) and n.id in preds:
            raise Unsupported(n, 'the predicate parameter %s is used otherwise than as %s(<expr>)' % (n.id, n.id))
    for p in extra:
        f.args.args.append(ast.arg(arg=p))
    spec['_c19_extra'] = list(extra)
    ast.fix_missing_locations(f)
    return f


def alias_nodes(fn, value):
    return ast.walk(value)


def translate_op(ex, node, expected):
    name = node.func.id[len(OP):] if node.func.id.startswith(OP) else None
    if name is not None and name.startswith('call:'):
        # L4: a total, translated function of the same group, emitted before this one
        callee = [s2 for s2 in ex.fn.spec.get('_c19_group') or [] if s2['qualname'] == name[5:]]
        if len(callee) != 1 or callee[0].get('raises') or callee[0].get('cls') \
                or (ex.fn.emitted is not None and callee[0]['lean_name'] not in ex.fn.emitted):
            raise Unsupported(node, 'call of %s, which is not a total function translated before this one' % name[5:])
        cs = callee[0]
        if node.keywords or len(node.args) != len(cs['params']):
            raise Unsupported(node, 'call arity')
        terms = []
        for a, pt in zip(node.args, cs['params'].values()):
            e, t = ex.expr(a, py2lean.parse_type(pt))
            if t != py2lean.parse_type(pt):
                raise Unsupported(a, 'argument of type %s where %s is declared' % (t, pt))
            terms.append(py2lean.FnTranslator._atom(e))
        rt = py2lean.parse_type(cs['result'])
        return '(%s %s)' % (cs['lean_name'], ' '.join(terms)), (('List', rt) if cs['kind'] == 'generator' else rt)
    if name not in OPS or node.keywords:
        raise Unsupported(node, 'unknown operation %s' % node.func.id)
    ptypes, rtype, lean = OPS[name]
    if len(node.args) != len(ptypes):
        raise Unsupported(node, 'operation arity')
    terms = []
    for a, pt in zip(node.args, ptypes):
        e, t = ex.expr(a, py2lean.parse_type(pt))
        if t != py2lean.parse_type(pt):
            raise Unsupported(a, 'operation %s: argument of type %s where %s is declared' % (name, t, pt))
        terms.append(py2lean.FnTranslator._atom(e))
    return '(%s %s)' % (lean, ' '.join(terms)), py2lean.parse_type(rtype)


# --------------------------------------------------------------------------------------------------- translate

def translate_module(module_name, specs, repo):
    """-> (Lean text of the generated file, infos): the base translator on the specs, with `prepass` as its extension"""
    for sp in specs:
        sp['_c19_group'] = specs     # L4 reads the extra parameters the earlier functions of the group were given
        sp.pop('_c19_extra', None)
    text, infos = py2lean.translate_module(module_name, specs, repo)
    for sp, info in zip(specs, infos):
        info['declared_operations'] = {p: 'spans (start, end) of group %d of %s.finditer(<text>)' % (
            _cfg(sp).get('group', 1), r) for r, p in (_cfg(sp).get('regex') or {}).items() if p in (sp.get('_c19_extra') or [])}
        for p in sp.get('_c19_extra') or []:
            info['declared_operations'].setdefault(p, 'the regex parameter of a callee, applied to the same text')
    return text, infos


# --------------------------------------------------------------------------------------------------- self-test
# CPython vs the generated definitions + the runtime's meaning of the declared operations, on every run.
# Per function (`DRIVERS[lean_name]`): how a test case is encoded for the scratch Lean driver, what the driver
# evaluates, and what CPython must give.

_DRV_HEAD = r'''
def showInts (l : List Int) : String := " ".intercalate (l.map toString)
def parseInts (s : String) : Option (List Int) :=
  ((s.trim.splitOn " ").filter (· ≠ "")).mapM String.toInt?

/-- `n x1 .. xn rest` -> (the n items, rest) -/
def takeN : List Int → Option (List Int × List Int)
  | [] => none
  | n :: r => if n < 0 ∨ r.length < n.toNat then none else some (r.take n.toNat, r.drop n.toNat)

def pairsOf : List Int → List (Int × Int)
  | a :: b :: r => (a, b) :: pairsOf r
  | _ => []

def encLines (ls : List (List Nat)) : List Int :=
  (ls.length : Int) :: (ls.map (fun l => (l.length : Int) :: l.map (fun (c : Nat) => (c : Int)))).flatten

def encSpans (ps : List (Int × Int)) : List Int :=
  (ps.length : Int) :: (ps.map (fun p => [p.1, p.2])).flatten
'''

_DRV_TAIL = r'''
partial def loop (h : IO.FS.Stream) (out : IO.FS.Stream) : IO Unit := do
  let line ← h.getLine
  if line.isEmpty then return
  match parseInts line with
  | some l => out.putStrLn ("R " ++ handle l)
  | none => out.putStrLn "R bad-line"
  loop h out

def main : IO Unit := do
  loop (← IO.getStdin) (← IO.getStdout)
'''

# case id 0: `0 <text> <spans as flat pairs>`  ->  the generated iter_splitlines on (text, spans) ++ the runtime's
#            finditerSpans of the regenerated table on the text
_DRV_CASES = {
    'iter_splitlines': r'''
  | 0 :: r =>
    match takeN r with
    | some (t, r2) =>
      match takeN r2 with
      | some (sp, _) =>
        let text := t.map Int.toNat
        showInts (encLines (Src.strutils.iter_splitlines text (pairsOf sp)) ++
                  encSpans (PyRtC19.finditerSpans C19.Generated.lineEndings text))
      | none => "bad"
    | none => "bad"
''',
}

_DRV_CASES['indent'] = r'''
  | 1 :: ki :: r =>
    match takeN r with
    | some (t, r2) =>
      match takeN r2 with
      | some (mg, r3) =>
        match takeN r3 with
        | some (nl, r4) =>
          match takeN r4 with
          | some (sp, _) =>
            let text := t.map Int.toNat
            showInts ((@Src.strutils.indent Nat ⟨keyMenu ki⟩ text (mg.map Int.toNat) (nl.map Int.toNat) (pairsOf sp)).map
              (fun (c : Nat) => (c : Int)))
          | none => "bad"
        | none => "bad"
      | none => "bad"
    | none => "bad"
'''

# the menu of `key` predicates of the indent cases: index -> (Python callable, the same predicate in the Lean driver)
KEY_MENU = [bool, lambda l: True, lambda l: False, lambda l: l[:1] == 'a', lambda l: len(l) % 2 == 0]
_DRV_KEYS = r'''
def keyMenu : Int → List Nat → Bool
  | 0 => fun l => !l.isEmpty
  | 1 => fun _ => true
  | 2 => fun _ => false
  | 3 => fun l => l.head? == some 97
  | _ => fun l => l.length % 2 == 0
'''

ALPHABET = [10, 13, 11, 12, 0x85, 0x2028, 0x2029, 0x1c, 0x1d, 0x1e, 0x20, 0x61, 0x62, 0x7a, 0xe9, 0x1F600, 0xD800, 0]


def _texts(rng, quick):
    out = ['', '\n', '\r\n', '\r', 'a', 'a\n', '\na', '\r\n\r\n', '\n\r', 'a\r\nb\rc\nd', '\x0b\x0c\x85  ',
           'ab\r', '\r\r\n\n', 'x ', '\x1c\x1d\x1e\n']
    n = 300 if quick else 4000
    for _ in range(n):
        k = rng.choice([0, 1, 2, 3, 4, 6, 9, 14, 30])
        w = rng.choice([1, 2, 5])           # weight of the break characters
        out.append(''.join(chr(rng.choice(ALPHABET[:7] * w + ALPHABET)) for _ in range(k)))
    return out


def _enc_text(s):
    return [len(s)] + [ord(c) for c in s]


def _enc_lines(ls):
    out = [len(ls)]
    for l in ls:
        out += [len(l)] + [ord(c) for c in l]
    return out


def _real_spans(mod, spec, text):
    cfg = _cfg(spec)
    (rname, _p), = list((cfg.get('regex') or {}).items())
    g = cfg.get('group', 1)
    return [(m.start(g), m.end(g)) for m in getattr(mod, rname).finditer(text)]


def _cases_iter_splitlines(mod, spec, rng, quick):
    """-> [(input tokens, expected output tokens, description)]"""
    out = []
    for t in _texts(rng, quick):
        spans = _real_spans(mod, spec, t)
        try:
            want = _enc_lines(list(mod.iter_splitlines(t)))
        except Exception as e:      # noqa: BLE001 - the generated definition is total: any exception is a mismatch
            want = ['exc', type(e).__name__]
        flat = [x for p in spans for x in p]
        out.append(([0] + _enc_text(t) + [len(flat)] + flat, want + [len(spans)] + flat, repr(t)))
    return out


def _cases_indent(mod, spec, rng, quick):
    out = []
    import srctie_specs
    sp0 = [s2 for s2 in srctie_specs.SPECS['C19'] if s2['qualname'] == 'iter_splitlines'][0]
    for t in _texts(rng, quick):
        spans = _real_spans(mod, sp0, t)
        flat = [x for p in spans for x in p]
        ki = rng.randrange(len(KEY_MENU))
        margin = rng.choice(['', ' ', '  ', '\t', '> ', 'a'])
        newline = rng.choice(['\n', '\n', '\r\n', '', '|'])
        try:
            want = [ord(c) for c in mod.indent(t, margin, newline, KEY_MENU[ki])]
        except Exception as e:      # noqa: BLE001
            want = ['exc', type(e).__name__]
        out.append(([1, ki] + _enc_text(t) + _enc_text(margin) + _enc_text(newline) + [len(flat)] + flat, want,
                    repr((t, margin, newline, ki))))
    return out


CASES = {'iter_splitlines': _cases_iter_splitlines, 'indent': _cases_indent}


def selftest(pids, quick=False, seed=0, verbose=True):
    """-> (number of mismatches, report)"""
    import importlib
    import srctie_specs
    from bv import common
    common.ensure_repo_on_path()
    t0 = time.time()
    specs = [sp for pid in pids for sp in srctie_specs.SPECS.get(pid, []) if sp.get('translator') == 'py2lean_c19']
    files, infos = {}, []
    for pid in pids:
        f, i = py2lean.generate(pid, common.REPO)
        files.update(f)
        infos.extend(i)
    ok = {i['lean_def'].split('.', 2)[2] for i in infos if not i.get('error')}
    rng = random.Random('py2lean-c19-selftest-%d' % seed)
    lines, meta, arms, imports = [], [], [], set()
    for sp in specs:
        name = sp['lean_name']
        if name not in ok or name not in CASES:
            continue
        mod = importlib.import_module(sp['module'])
        arms.append(_DRV_CASES[name])
        imports.add('BoltonsVerif.Generated.Src_%s' % (sp.get('gen_file') or sp['module'].split('.')[-1]))
        for toks, want, what in CASES[name](mod, sp, rng, quick):
            lines.append(' '.join(map(str, toks)))
            meta.append((name, want, what))
    report = {'_mismatches': []}
    if not lines:
        return 0, report
    src = ''.join('import %s\n' % m for m in sorted(imports)) + 'import BoltonsVerif.Generated.C19_LineEndings\n' \
        'import BoltonsVerif.PyRtC19\n' + _DRV_HEAD + _DRV_KEYS + '\ndef handle : List Int → String\n' + ''.join(arms) \
        + '  | _ => "bad"\n' + _DRV_TAIL
    tmp = tempfile.mkdtemp(prefix='py2lean-c19-selftest-')
    try:
        drv = os.path.join(tmp, 'SrcSelfTestC19.lean')
        with open(drv, 'w') as fh:
            fh.write(src)
        with common.BuildLock():
            rc, out = common._run(['lake', 'build', 'BoltonsVerif.PyRtC19', 'BoltonsVerif.Generated.C19_LineEndings']
                                  + sorted(imports))
        if rc != 0:
            raise common.InfraError('cannot build the generated C19 definitions: ' + out[-800:])
        t1 = time.time()
        p = subprocess.run(['lake', 'env', 'lean', '--run', drv], cwd=common.LEAN, input='\n'.join(lines) + '\n',
                           stdout=subprocess.PIPE, stderr=subprocess.STDOUT, text=True, timeout=1800)
        t_lean = time.time() - t1
    finally:
        shutil.rmtree(tmp, ignore_errors=True)
    outs = [ln[2:] for ln in p.stdout.split('\n') if ln.startswith('R ')]
    if p.returncode != 0 or len(outs) != len(lines):
        raise common.InfraError('C19 scratch driver failed (rc %s, %d lines for %d inputs): %s' % (
            p.returncode, len(outs), len(lines), p.stdout[-1500:]))
    mismatches = []
    for (name, want, what), got in zip(meta, outs):
        r = report.setdefault(name, {'cases': 0, 'compared': 0, 'mismatches': 0})
        r['cases'] += 1
        r['compared'] += 1
        if got.split() != [str(x) for x in want]:
            r['mismatches'] += 1
            mismatches.append((name, what, 'Python stream %s but Lean stream %s' % (' '.join(map(str, want)), got)))
    rj = reject_tests(verbose=False)       # side conditions of the front-end: every violating snippet is refused
    report['_reject_tests'] = {'snippets': len(REJECT), 'not_refused': [w for w, _ in rj]}
    for what, why in rj:
        mismatches.append(('reject-test', what, str(why)))
    report['_mismatches'] = [{'function': n, 'case': c, 'what': b} for n, c, b in mismatches[:5]]
    report['_wall_s'] = round(time.time() - t0, 2)
    report['_lean_s'] = round(t_lean, 2)
    if verbose:
        for name, r in report.items():
            print(name, r)
    return len(mismatches), report


# --------------------------------------------------------------------------------------------------- reject tests
# every snippet violates ONE side condition of the rules above: the front-end + base translator must refuse it

_RJ_HEAD = "import re\n_line_ending_re = re.compile(r'(\\r\\n|\\n|\\r)')\n"
_RJ_BODY = '''
def iter_splitlines(text):
    prev_end, len_text = 0, len(text)
    for match in _line_ending_re.finditer(text):
        start, end = match.start(1), match.end(1)
        if prev_end <= start:
            yield text[prev_end:start]
        if end == len_text:
            yield ''
        prev_end = end
    tail = text[prev_end:]
    if tail:
        yield tail
'''
_RJ_INDENT = '''
def indent(text, margin, newline='\\n', key=bool):
    indented_lines = [(margin + line if key(line) else line) for line in iter_splitlines(text)]
    return newline.join(indented_lines)
'''

REJECT = [
    ('regex bound twice', _RJ_HEAD + "_line_ending_re = re.compile('x')\n" + _RJ_BODY, 0),
    ('regex not from re.compile', "import re\n_line_ending_re = make_re()\n" + _RJ_BODY, 0),
    ('regex rebound in the function', _RJ_HEAD + _RJ_BODY.replace("    prev_end, len_text", "    _line_ending_re = None\n    prev_end, len_text"), 0),
    ('match object escapes (yielded group)', _RJ_HEAD + _RJ_BODY.replace("yield ''", "yield match.group(1)"), 0),
    ('match object stored', _RJ_HEAD + _RJ_BODY.replace("        prev_end = end\n", "        prev_end = end\n        last = match\n"), 0),
    ('another group', _RJ_HEAD + _RJ_BODY.replace("match.end(1)", "match.end(2)"), 0),
    ('group 1 of a pattern without that group', "import re\n_line_ending_re = re.compile(r'\\r\\n|\\n')\n" + _RJ_BODY, 0),
    ('finditer over a derived text', _RJ_HEAD + _RJ_BODY.replace("finditer(text)", "finditer(text.lower())"), 0),
    ('finditer with pos argument', _RJ_HEAD + _RJ_BODY.replace("finditer(text)", "finditer(text, 1)"), 0),
    ('text rebound', _RJ_HEAD + _RJ_BODY.replace("    prev_end, len_text", "    text = text + text\n    prev_end, len_text"), 0),
    ('two finditer loops', _RJ_HEAD + _RJ_BODY + "    for match in _line_ending_re.finditer(text):\n        yield text[match.start(1):]\n", 0),
    ('reserved parameter name used', _RJ_HEAD + _RJ_BODY.replace("tail", "re_spans"), 0),
    ('non-empty str literal', _RJ_HEAD + _RJ_BODY.replace("yield ''", "yield 'x'"), 0),
    ('kind test against bytes', _RJ_HEAD + _RJ_BODY.replace("    prev_end, len_text", "    if isinstance(text, bytes):\n        return\n    prev_end, len_text"), 0),
    ('match unpacked by the loop', _RJ_HEAD + _RJ_BODY.replace("for match in", "for match, other in"), 0),
    ('str method on the text', _RJ_HEAD + _RJ_BODY.replace("if tail:", "if tail.strip():"), 0),
    ('predicate rebound', _RJ_HEAD + _RJ_BODY + _RJ_INDENT.replace("    indented_lines", "    key = key or bool\n    indented_lines"), 1),
    ('predicate passed on', _RJ_HEAD + _RJ_BODY + _RJ_INDENT.replace("key(line) else", "all(map(key, [line])) else"), 1),
    ('predicate with two arguments', _RJ_HEAD + _RJ_BODY + _RJ_INDENT.replace("key(line)", "key(line, margin)"), 1),
    ('callee on a derived text', _RJ_HEAD + _RJ_BODY + _RJ_INDENT.replace("iter_splitlines(text)", "iter_splitlines(text + margin)"), 1),
    ('join on a non-text', _RJ_HEAD + _RJ_BODY + _RJ_INDENT.replace("newline.join", "key.join"), 1),
]


def reject_tests(verbose=True):
    """-> list of snippets that were NOT refused (must be empty); the unmodified snippet must be accepted"""
    import srctie_specs
    bad = []

    def tr(src):
        specs = [copy.deepcopy({k: v for k, v in sp.items() if not k.startswith('_')}) for sp in srctie_specs.SPECS['C19']
                 if sp['module'] == 'boltons.strutils']
        for sp in specs:
            sp['_c19_group'] = specs
        _t, infos = py2lean.translate_source(src, specs, 'boltons.strutils', '<snippet>')
        return infos
    ok = tr(_RJ_HEAD + _RJ_BODY + _RJ_INDENT)
    if any(i.get('error') for i in ok):
        bad.append(('the unmodified snippet', [i.get('error') for i in ok]))
    for what, src, idx in REJECT:
        try:
            compile(src, '<snippet>', 'exec')
        except SyntaxError as e:
            bad.append((what, 'snippet does not compile: %s' % e))
            continue
        infos = tr(src)
        if not infos[idx].get('error'):
            bad.append((what, 'accepted'))
        elif verbose:
            print('refused (%s): %s' % (what, infos[idx]['error'][:110]))
    return bad
